// Package vnet is the facade for the owned names of package net: a simulated network (UDP
// datagrams, TCP byte streams, DNS) whose every packet is logged and whose faults are scripted
// by the driver. All functions are //go:norace, closure-free and map-free (DESIGN.md §2.10);
// the socket layer tells the race detector what the real syscall layer would tell it.
package vnet

import (
	"errors"
	"fmt"
	"io"
	"os"
	"net"
	"strconv"
	"time"
	"unsafe"

	"github.com/ochinchina/sipproxy/vrt"
)

// Packet is one emission seen by the simulated network.
type Packet struct {
	Seq      int
	Proto    string
	From, To string
	Data     []byte
	Conn     int  // tcp: id of the writing end; udp: 0
	Driver   bool // written by a driver-side endpoint (a peer), not by the program
	Partial  bool // tcp: the environment cut this write short (fault script): only a prefix was delivered
}

type logNode struct {
	p    Packet
	next *logNode
}

type dgram struct {
	data []byte
	from *net.UDPAddr
}

type hostEntry struct {
	name  string
	ips   []string
	fail  bool
	calls int
}

type dialPlan struct {
	addr string
	plan []int // per dial attempt: 0 accept, 1 refuse, 2 accept but every write fails; the last outcome repeats
	pos  int
}

type dialRule struct {
	addr       string
	refuse     int // next n dials refused; <0: all
	failWrites int // connections accepted get this many failing writes on the dialling side (<0: all)
}

type Fabric struct {
	udp         []*UDPConn
	next        int
	head        *logNode
	tail        *logNode
	nlog        int
	hosts       []hostEntry
	listeners   []*TCPListener
	conns       []*TCPConn
	rules       []dialRule
	plans       []dialPlan
	sinceDriver int
	budget      int
	Dials       int // number of dial attempts made
	// DriverMode: sockets created while set belong to the driver (peers)
	DriverMode bool
	// ShortReads: a TCP read may return any non-empty prefix of the first pending segment
	// (environment choice, kind KEnv)
	ShortReads bool
	// Coalesce: a TCP read returns as many pending segments as fit (as a kernel does when
	// segments queued up); otherwise one segment per read
	Coalesce bool
}

var Fab *Fabric

//go:norace
func Reset() { Fab = &Fabric{next: 40000, budget: MaxPackets} }

// MaxPackets is the horizon of one execution: a program that keeps emitting (a message relayed
// to itself over and over) would never go quiescent.
const MaxPackets = 5000

//go:norace
func addLog(p Packet) {
	// the horizon counts what the program emits in response to one stimulus of the driver
	// (plus one packet per byte of that stimulus: answering every keep-alive of a long run of CRLFs is
	// proportionate, not a loop)
	if p.Driver {
		if Fab.sinceDriver > 0 || Fab.budget == 0 {
			Fab.budget = MaxPackets
		}
		Fab.sinceDriver = 0
		Fab.budget += len(p.Data)
	} else {
		Fab.sinceDriver++
		if Fab.sinceDriver > Fab.budget {
			panic("vnet: packet horizon exceeded (the program keeps emitting after one stimulus: relay loop?)")
		}
	}
	p.Seq = Fab.nlog
	n := &logNode{p: p}
	if Fab.tail == nil {
		Fab.head, Fab.tail = n, n
	} else {
		Fab.tail.next = n
		Fab.tail = n
	}
	Fab.nlog++
}

// LogLen is the number of packets emitted so far.
//
//go:norace
func LogLen() int { return Fab.nlog }

// LogSince copies the packets with Seq >= from (driver side).
//
//go:norace
func LogSince(from int) []Packet {
	var out []Packet
	// the single reader has consumed everything before `from`: drop it (keeps long-lived worlds flat)
	for Fab.head != nil && Fab.head.p.Seq < from {
		Fab.head = Fab.head.next
	}
	if Fab.head == nil {
		Fab.tail = nil
	}
	for n := Fab.head; n != nil; n = n.next {
		if n.p.Seq >= from {
			out = append(out, Packet{Seq: n.p.Seq, Proto: n.p.Proto, From: n.p.From, To: n.p.To, Data: nclone(n.p.Data), Conn: n.p.Conn, Driver: n.p.Driver, Partial: n.p.Partial})
		}
	}
	return out
}

// ---- DNS ----

// SetHost scripts the answer of LookupIP(name): the given addresses, or a failure when fail is set.
//
//go:norace
func SetHost(name string, fail bool, ips ...string) {
	cp := make([]string, len(ips))
	for i := range ips {
		cp[i] = ips[i]
	}
	for i := range Fab.hosts {
		if Fab.hosts[i].name == name {
			Fab.hosts[i].ips, Fab.hosts[i].fail = cp, fail
			return
		}
	}
	Fab.hosts = append(Fab.hosts, hostEntry{name: name, ips: cp, fail: fail})
}

//go:norace
func LookupCalls(name string) int {
	for i := range Fab.hosts {
		if Fab.hosts[i].name == name {
			return Fab.hosts[i].calls
		}
	}
	return 0
}

//go:norace
func LookupIP(host string) ([]net.IP, error) {
	if ip := net.ParseIP(host); ip != nil {
		return []net.IP{ip}, nil
	}
	if Fab == nil {
		return nil, fmt.Errorf("lookup %s: no such host (sim)", host)
	}
	for i := range Fab.hosts {
		h := &Fab.hosts[i]
		if h.name != host {
			continue
		}
		h.calls++
		if h.fail {
			return nil, fmt.Errorf("lookup %s: server misbehaving (sim)", host)
		}
		var out []net.IP
		for _, s := range h.ips {
			out = append(out, net.ParseIP(s))
		}
		if len(out) == 0 {
			return nil, fmt.Errorf("lookup %s: no such host (sim)", host)
		}
		return out, nil
	}
	return nil, fmt.Errorf("lookup %s: no such host (sim)", host)
}

//go:norace
func LookupHost(host string) ([]string, error) {
	ips, err := LookupIP(host)
	if err != nil {
		return nil, err
	}
	var out []string
	for _, ip := range ips {
		out = append(out, ip.String())
	}
	return out, nil
}

func LookupAddr(addr string) ([]string, error) { return nil, errNotSim("LookupAddr") }
func LookupCNAME(host string) (string, error)  { return "", errNotSim("LookupCNAME") }
func LookupSRV(service, proto, name string) (string, []*net.SRV, error) {
	return "", nil, errNotSim("LookupSRV")
}
func LookupPort(network, service string) (int, error) { return strconv.Atoi(service) }

func errNotSim(what string) error { return fmt.Errorf("vnet: %s is not simulated", what) }

//go:norace
func resolve(addr string) (net.IP, int, error) {
	h, p, err := net.SplitHostPort(addr)
	if err != nil {
		return nil, 0, err
	}
	port, err := strconv.Atoi(p)
	if err != nil || port < 0 || port > 65535 {
		return nil, 0, fmt.Errorf("address %s: invalid port", addr)
	}
	if h == "" {
		return nil, port, nil
	}
	ips, err := LookupIP(h)
	if err != nil {
		return nil, 0, err
	}
	return ips[0], port, nil
}

//go:norace
func ResolveUDPAddr(network, addr string) (*net.UDPAddr, error) {
	ip, port, err := resolve(addr)
	if err != nil {
		return nil, err
	}
	return &net.UDPAddr{IP: ip, Port: port}, nil
}

//go:norace
func ResolveTCPAddr(network, addr string) (*net.TCPAddr, error) {
	ip, port, err := resolve(addr)
	if err != nil {
		return nil, err
	}
	return &net.TCPAddr{IP: ip, Port: port}, nil
}

//go:norace
func ResolveIPAddr(network, addr string) (*net.IPAddr, error) {
	ips, err := LookupIP(addr)
	if err != nil {
		return nil, err
	}
	return &net.IPAddr{IP: ips[0]}, nil
}

//go:norace
func cloneIP(ip net.IP) net.IP {
	if ip == nil {
		return nil
	}
	if v4 := ip.To4(); v4 != nil {
		ip = v4
	}
	out := make(net.IP, len(ip))
	for i := range ip {
		out[i] = ip[i]
	}
	return out
}

//go:norace
func cloneUDPAddr(a *net.UDPAddr) *net.UDPAddr { return &net.UDPAddr{IP: cloneIP(a.IP), Port: a.Port} }

//go:norace
func cloneTCPAddr(a *net.TCPAddr) *net.TCPAddr { return &net.TCPAddr{IP: cloneIP(a.IP), Port: a.Port} }

//go:norace
func unspecified(ip net.IP) bool { return ip == nil || ip.IsUnspecified() }

//go:norace
func hostPort(ip net.IP, port int) string {
	if unspecified(ip) {
		return "0.0.0.0:" + strconv.Itoa(port)
	}
	return net.JoinHostPort(ip.String(), strconv.Itoa(port))
}

//go:norace
func ncopy(dst, src []byte) int {
	n := len(src)
	if len(dst) < n {
		n = len(dst)
	}
	for i := 0; i < n; i++ {
		dst[i] = src[i]
	}
	return n
}

//go:norace
func nclone(src []byte) []byte {
	d := make([]byte, len(src))
	for i := range src {
		d[i] = src[i]
	}
	return d
}

var errClosed = errors.New("use of closed network connection")

// ephemeral returns the next port that no open socket, listener or connection uses.
//
//go:norace
func ephemeral() int {
	for {
		Fab.next++
		p := Fab.next
		used := false
		for _, c := range Fab.udp {
			if !c.closed && c.port == p {
				used = true
			}
		}
		for _, l := range Fab.listeners {
			if !l.closed && l.addr.Port == p {
				used = true
			}
		}
		for _, c := range Fab.conns {
			if !c.closed && c.laddr.Port == p {
				used = true
			}
		}
		if !used {
			return p
		}
	}
}

// ---- UDP ----

type UDPConn struct {
	laddr  *net.UDPAddr
	key    string
	port   int
	wild   bool
	q      []dgram
	closed bool
	driver bool
	sync   uint64
	// FailWrites: next n writes fail (fault script); <0: all
	FailWrites int
}

//go:norace
func findUDP(ip net.IP, port int) *UDPConn {
	key := hostPort(ip, port)
	for _, c := range Fab.udp {
		if !c.closed && c.key == key {
			return c
		}
	}
	// sockets bound to the unspecified address receive on every local address
	for _, c := range Fab.udp {
		if !c.closed && c.wild && c.port == port {
			return c
		}
	}
	return nil
}

//go:norace
func ListenUDP(network string, laddr *net.UDPAddr) (*UDPConn, error) {
	if Fab == nil {
		return nil, errNotSim("ListenUDP outside a world")
	}
	a := &net.UDPAddr{}
	if laddr != nil {
		a = cloneUDPAddr(laddr)
	}
	if a.Port == 0 {
		a.Port = ephemeral()
	}
	wild := unspecified(a.IP)
	for _, c := range Fab.udp {
		if !c.closed && c.port == a.Port && (wild || c.wild || c.key == hostPort(a.IP, a.Port)) {
			return nil, fmt.Errorf("listen udp %s: bind: address already in use", hostPort(a.IP, a.Port))
		}
	}
	if wild {
		a.IP = net.IPv4zero
	}
	c := &UDPConn{laddr: a, key: hostPort(a.IP, a.Port), port: a.Port, wild: wild, driver: Fab.DriverMode}
	Fab.udp = append(Fab.udp, c)
	return c, nil
}

type udpReadWait struct{ c *UDPConn }

//go:norace
func (w udpReadWait) Ready() bool { return len(w.c.q) > 0 || w.c.closed }

//go:norace
func (c *UDPConn) ReadFromUDP(b []byte) (int, *net.UDPAddr, error) {
	vrt.Gate(udpReadWait{c}, "udp-read "+c.key, true)
	if len(c.q) == 0 {
		return 0, nil, errClosed
	}
	if !c.driver {
		vrt.RaceFDSync(&c.sync)
	}
	d := c.q[0]
	c.q = c.q[1:]
	n := ncopy(b, d.data)
	// what the syscall layer tells the detector about a real read
	if n > 0 && !c.driver {
		vrt.RaceWriteRange(unsafe.Pointer(&b[0]), n)
	}
	return n, cloneUDPAddr(d.from), nil
}

//go:norace
func (c *UDPConn) ReadFrom(b []byte) (int, net.Addr, error) {
	n, a, err := c.ReadFromUDP(b)
	if err != nil {
		return n, nil, err
	}
	return n, a, nil
}

//go:norace
func (c *UDPConn) Read(b []byte) (int, error) {
	n, _, err := c.ReadFromUDP(b)
	return n, err
}

//go:norace
func (c *UDPConn) source() *net.UDPAddr {
	if c.wild {
		return &net.UDPAddr{IP: net.IPv4(127, 0, 0, 1).To4(), Port: c.port}
	}
	return cloneUDPAddr(c.laddr)
}

//go:norace
func (c *UDPConn) WriteToUDP(b []byte, addr *net.UDPAddr) (int, error) {
	if c.closed {
		return 0, errClosed
	}
	if addr == nil {
		return 0, errors.New("write udp: missing address")
	}
	if c.FailWrites != 0 {
		if c.FailWrites > 0 {
			c.FailWrites--
		}
		return 0, errors.New("write udp: network is unreachable (sim fault)")
	}
	if len(b) > 65507 {
		return 0, errors.New("write udp: message too long")
	}
	if !c.driver {
		vrt.RaceFDSync(&c.sync)
		if len(b) > 0 {
			vrt.RaceReadRange(unsafe.Pointer(&b[0]), len(b))
		}
	}
	data := nclone(b)
	src := c.source()
	addLog(Packet{Proto: "udp", From: hostPort(src.IP, src.Port), To: hostPort(addr.IP, addr.Port), Data: data, Driver: c.driver})
	if dst := findUDP(addr.IP, addr.Port); dst != nil {
		dst.q = append(dst.q, dgram{data: data, from: src})
	}
	return len(b), nil
}

//go:norace
func (c *UDPConn) WriteTo(b []byte, addr net.Addr) (int, error) {
	ua, ok := addr.(*net.UDPAddr)
	if !ok {
		return 0, errors.New("write udp: bad address type")
	}
	return c.WriteToUDP(b, ua)
}

//go:norace
func (c *UDPConn) Write(b []byte) (int, error) { return 0, errors.New("write udp: not connected") }

//go:norace
func (c *UDPConn) Pending() int { return len(c.q) }

//go:norace
func (c *UDPConn) IsClosed() bool { return c.closed }

//go:norace
func (c *UDPConn) Close() error {
	if c.closed {
		return errClosed
	}
	if !c.driver {
		vrt.RaceFDSync(&c.sync)
	}
	c.closed = true
	return nil
}

//go:norace
func (c *UDPConn) LocalAddr() net.Addr { return cloneUDPAddr(c.laddr) }

//go:norace
func (c *UDPConn) RemoteAddr() net.Addr { return nil }

func (c *UDPConn) SetDeadline(t time.Time) error      { return nil }
func (c *UDPConn) SetReadDeadline(t time.Time) error  { return nil }
func (c *UDPConn) SetWriteDeadline(t time.Time) error { return nil }
func (c *UDPConn) SetReadBuffer(n int) error          { return nil }
func (c *UDPConn) SetWriteBuffer(n int) error         { return nil }

// Datagram is what a driver-side endpoint received.
type Datagram struct {
	Data []byte
	From string
}

// TakeAll drains the receive queue without blocking (driver side).
//
//go:norace
func (c *UDPConn) TakeAll() []Datagram {
	var out []Datagram
	for _, d := range c.q {
		out = append(out, Datagram{Data: nclone(d.data), From: hostPort(d.from.IP, d.from.Port)})
	}
	c.q = nil
	return out
}

// UDPSockets lists the open sockets (key = ip:port, 0.0.0.0 for wildcard) in creation order.
//
//go:norace
func UDPSockets() []string {
	var out []string
	for _, c := range Fab.udp {
		if !c.closed {
			out = append(out, c.key)
		}
	}
	return out
}

//go:norace
func DialUDP(network string, laddr, raddr *net.UDPAddr) (*UDPConn, error) {
	return nil, errNotSim("DialUDP")
}

func ListenPacket(network, address string) (net.PacketConn, error) {
	ip, port, err := resolve(address)
	if err != nil {
		return nil, err
	}
	return ListenUDP(network, &net.UDPAddr{IP: ip, Port: port})
}

// ---- TCP ----

type TCPConn struct {
	id      int
	laddr   *net.TCPAddr
	raddr   *net.TCPAddr
	peer    *TCPConn
	rq      [][]byte
	rclosed bool // peer closed its end: reads drain then EOF
	closed  bool
	reset   bool // reads fail with ECONNRESET
	// FailWrites: next n writes fail (fault script); <0: all
	FailWrites int
	// PartialFail: the next write longer than this delivers that many bytes, then fails, and the
	// connection is broken for every later write (fault script); Partial: bytes so delivered
	PartialFail int
	Partial     int
	NWrites     int
	Dialled     bool
	driver      bool
	sync        uint64
	rdl         int64 // read deadline in virtual ns since the epoch (0 = none)
}

// epoch is vtime's virtual epoch (vtime cannot be imported here): deadlines are absolute times
var epoch = time.Date(2030, 1, 1, 0, 0, 0, 0, time.UTC)

//go:norace
func (c *TCPConn) setReadDeadline(t time.Time) {
	if t.IsZero() {
		c.rdl = 0
		return
	}
	c.rdl = int64(t.Sub(epoch))
	if c.rdl == 0 {
		c.rdl = 1
	}
}

//go:norace
func (c *TCPConn) deadlinePassed() bool {
	w := vrt.W
	return c.rdl != 0 && w != nil && w.NowNS >= c.rdl
}

type TCPListener struct {
	addr   *net.TCPAddr
	key    string
	q      []*TCPConn
	closed bool
	driver bool
	sync   uint64
}

type tcpReadWait struct{ c *TCPConn }

//go:norace
func (w tcpReadWait) Ready() bool {
	return len(w.c.rq) > 0 || w.c.rclosed || w.c.closed || w.c.reset || w.c.deadlinePassed()
}

//go:norace
func (c *TCPConn) Read(p []byte) (int, error) {
	vrt.Gate(tcpReadWait{c}, "tcp-read "+c.laddr.String(), true)
	if c.closed {
		return 0, errClosed
	}
	if c.reset {
		return 0, errors.New("read: connection reset by peer")
	}
	if c.deadlinePassed() {
		// as in the Go runtime: a deadline that has passed fails the read before any data is looked at
		return 0, os.ErrDeadlineExceeded
	}
	if len(c.rq) == 0 {
		return 0, io.EOF
	}
	if len(p) == 0 {
		return 0, nil
	}
	if !c.driver {
		vrt.RaceFDSync(&c.sync)
		vrt.RaceIOAcquire()
	}
	total := 0
	for len(c.rq) > 0 && total < len(p) {
		seg := c.rq[0]
		max := len(seg)
		if len(p)-total < max {
			max = len(p) - total
		}
		take := max
		if Fab.ShortReads && max > 1 {
			// environment answer: default = everything available
			take = max - vrt.Choose(max, vrt.KEnv)
		}
		n := ncopy(p[total:total+take], seg)
		total += n
		if n < len(seg) {
			c.rq[0] = seg[n:]
			break
		}
		c.rq = c.rq[1:]
		if !Fab.Coalesce {
			break
		}
	}
	if total > 0 && !c.driver {
		vrt.RaceWriteRange(unsafe.Pointer(&p[0]), total)
	}
	return total, nil
}

//go:norace
func (c *TCPConn) Write(p []byte) (int, error) {
	c.NWrites++
	if c.closed {
		return 0, errClosed
	}
	if c.FailWrites != 0 {
		if c.FailWrites > 0 {
			c.FailWrites--
		}
		return 0, errors.New("write: connection reset by peer (sim fault)")
	}
	if c.peer.closed || c.reset {
		return 0, errors.New("write: broken pipe")
	}
	if !c.driver {
		vrt.RaceFDSync(&c.sync)
		vrt.RaceIORelease()
		if len(p) > 0 {
			vrt.RaceReadRange(unsafe.Pointer(&p[0]), len(p))
		}
	}
	if k := c.PartialFail; k > 0 && len(p) > k {
		// the connection takes the first k bytes, then breaks
		data := nclone(p[:k])
		c.peer.rq = append(c.peer.rq, data)
		addLog(Packet{Proto: "tcp", From: c.laddr.String(), To: c.raddr.String(), Data: data, Conn: c.id, Driver: c.driver, Partial: true})
		c.PartialFail, c.Partial, c.FailWrites = 0, k, -1
		return k, errors.New("write: connection reset by peer after a partial write (sim fault)")
	}
	data := nclone(p)
	c.peer.rq = append(c.peer.rq, data)
	addLog(Packet{Proto: "tcp", From: c.laddr.String(), To: c.raddr.String(), Data: data, Conn: c.id, Driver: c.driver})
	return len(p), nil
}

//go:norace
func (c *TCPConn) Close() error {
	if c.closed {
		return errClosed
	}
	if !c.driver {
		vrt.RaceFDSync(&c.sync)
	}
	c.closed = true
	c.peer.rclosed = true
	return nil
}

// Reset (driver side): abort the connection; the peer's reads and writes fail.
//
//go:norace
func (c *TCPConn) Reset() {
	c.closed = true
	c.peer.reset = true
}

//go:norace
func (c *TCPConn) LocalAddr() net.Addr { return cloneTCPAddr(c.laddr) }

//go:norace
func (c *TCPConn) RemoteAddr() net.Addr { return cloneTCPAddr(c.raddr) }

func (c *TCPConn) SetDeadline(t time.Time) error            { c.setReadDeadline(t); return nil }
func (c *TCPConn) SetReadDeadline(t time.Time) error        { c.setReadDeadline(t); return nil }
func (c *TCPConn) SetWriteDeadline(t time.Time) error       { return nil }
func (c *TCPConn) SetKeepAlive(b bool) error                { return nil }
func (c *TCPConn) SetKeepAlivePeriod(d time.Duration) error { return nil }
func (c *TCPConn) SetNoDelay(b bool) error                  { return nil }
func (c *TCPConn) SetLinger(n int) error                    { return nil }
func (c *TCPConn) CloseRead() error                         { return nil }
func (c *TCPConn) CloseWrite() error                        { return c.Close() }

//go:norace
func (c *TCPConn) ID() int { return c.id }

//go:norace
func (c *TCPConn) IsDriver() bool { return c.driver }

//go:norace
func (c *TCPConn) Peer() *TCPConn { return c.peer }

//go:norace
func (c *TCPConn) IsClosed() bool { return c.closed }

//go:norace
func (c *TCPConn) ClosedByPeer() bool { return c.rclosed || c.reset }

//go:norace
func (c *TCPConn) LocalString() string { return c.laddr.String() }

//go:norace
func (c *TCPConn) RemoteString() string { return c.raddr.String() }

// Drain (driver side): everything received so far, without blocking.
//
//go:norace
func (c *TCPConn) Drain() []byte {
	var out []byte
	for _, seg := range c.rq {
		for _, b := range seg {
			out = append(out, b)
		}
	}
	c.rq = nil
	return out
}

// PendingBytes (driver side): number of bytes the reader has not consumed yet.
//
//go:norace
func (c *TCPConn) PendingBytes() int {
	n := 0
	for _, seg := range c.rq {
		n += len(seg)
	}
	return n
}

type acceptWait struct{ l *TCPListener }

//go:norace
func (w acceptWait) Ready() bool { return len(w.l.q) > 0 || w.l.closed }

//go:norace
func (l *TCPListener) Accept() (net.Conn, error) {
	vrt.Gate(acceptWait{l}, "tcp-accept "+l.key, true)
	if len(l.q) == 0 {
		return nil, errClosed
	}
	if !l.driver {
		vrt.RaceFDSync(&l.sync)
	}
	c := l.q[0]
	l.q = l.q[1:]
	return c, nil
}

//go:norace
func (l *TCPListener) AcceptTCP() (*TCPConn, error) {
	c, err := l.Accept()
	if err != nil {
		return nil, err
	}
	return c.(*TCPConn), nil
}

// TryAccept (driver side): non-blocking accept.
//
//go:norace
func (l *TCPListener) TryAccept() *TCPConn {
	if len(l.q) == 0 {
		return nil
	}
	c := l.q[0]
	l.q = l.q[1:]
	return c
}

//go:norace
func (l *TCPListener) Close() error { l.closed = true; return nil }

//go:norace
func (l *TCPListener) Addr() net.Addr { return cloneTCPAddr(l.addr) }

func (l *TCPListener) SetDeadline(t time.Time) error { return nil }

//go:norace
func listenTCP(ip net.IP, port int) (*TCPListener, error) {
	if Fab == nil {
		return nil, errNotSim("Listen outside a world")
	}
	if port == 0 {
		port = ephemeral()
	}
	a := &net.TCPAddr{IP: cloneIP(ip), Port: port}
	if unspecified(a.IP) {
		a.IP = net.IPv4zero
	}
	key := hostPort(a.IP, a.Port)
	for _, x := range Fab.listeners {
		if !x.closed && x.addr.Port == port && (x.key == key || unspecified(x.addr.IP) || unspecified(a.IP)) {
			return nil, fmt.Errorf("listen tcp %s: bind: address already in use", key)
		}
	}
	l := &TCPListener{addr: a, key: key, driver: Fab.DriverMode}
	Fab.listeners = append(Fab.listeners, l)
	return l, nil
}

//go:norace
func Listen(network, address string) (net.Listener, error) {
	ip, port, err := resolve(address)
	if err != nil {
		return nil, err
	}
	l, err := listenTCP(ip, port)
	if err != nil {
		return nil, err
	}
	return l, nil
}

//go:norace
func ListenTCP(network string, laddr *net.TCPAddr) (*TCPListener, error) {
	if laddr == nil {
		return listenTCP(nil, 0)
	}
	return listenTCP(laddr.IP, laddr.Port)
}

// SetDialRule scripts dials towards addr ("ip:port"): the next `refuse` dials are refused
// (<0: all), and accepted connections get `failWrites` failing writes on the dialling side.
//
//go:norace
func SetDialRule(addr string, refuse, failWrites int) {
	for i := range Fab.rules {
		if Fab.rules[i].addr == addr {
			Fab.rules[i].refuse, Fab.rules[i].failWrites = refuse, failWrites
			return
		}
	}
	Fab.rules = append(Fab.rules, dialRule{addr: addr, refuse: refuse, failWrites: failWrites})
}

// SetDialPlan scripts successive dial attempts towards addr: 0 accept, 1 refuse, 2 accept but
// every write on the dialling side fails, 3 accept but the first write delivers 100 bytes and then
// fails like every later one; the last outcome repeats.
//
//go:norace
func SetDialPlan(addr string, plan []int) {
	cp := make([]int, len(plan))
	for i := range plan {
		cp[i] = plan[i]
	}
	Fab.plans = append(Fab.plans, dialPlan{addr: addr, plan: cp})
}

// PlanPositions: how many entries of each dial plan have been consumed.
//
//go:norace
func (f *Fabric) PlanPositions() []int {
	out := make([]int, len(f.plans))
	for i := range f.plans {
		out[i] = f.plans[i].pos
	}
	return out
}

//go:norace
func dial(laddr, raddr *net.TCPAddr) (*TCPConn, error) {
	if Fab == nil {
		return nil, errNotSim("Dial outside a world")
	}
	Fab.Dials++
	if raddr == nil {
		return nil, errors.New("dial tcp: missing address")
	}
	rip := raddr.IP
	if unspecified(rip) {
		rip = net.IPv4(127, 0, 0, 1)
	}
	key := hostPort(rip, raddr.Port)
	// every dial attempt is visible in the packet log (even a refused one)
	addLog(Packet{Proto: "dial", To: key, Driver: Fab.DriverMode})
	failWrites, partial := 0, 0
	if !Fab.DriverMode {
		for i := range Fab.plans {
			pl := &Fab.plans[i]
			if pl.addr != key || len(pl.plan) == 0 {
				continue
			}
			k := pl.pos
			if k >= len(pl.plan) {
				k = len(pl.plan) - 1
			}
			pl.pos++
			switch pl.plan[k] {
			case 1:
				return nil, fmt.Errorf("dial tcp %s: connect: connection refused (sim fault)", key)
			case 2:
				failWrites = -1
			case 3:
				partial = 100
			}
		}
	}
	for i := range Fab.rules {
		r := &Fab.rules[i]
		if r.addr != key {
			continue
		}
		if r.refuse != 0 {
			if r.refuse > 0 {
				r.refuse--
			}
			return nil, fmt.Errorf("dial tcp %s: connect: connection refused (sim fault)", key)
		}
		failWrites = r.failWrites
	}
	var l *TCPListener
	for _, x := range Fab.listeners {
		if !x.closed && (x.key == key || (unspecified(x.addr.IP) && x.addr.Port == raddr.Port)) {
			l = x
			break
		}
	}
	if l == nil {
		return nil, fmt.Errorf("dial tcp %s: connect: connection refused", key)
	}
	la := &net.TCPAddr{IP: net.IPv4(127, 0, 0, 1).To4()}
	if laddr != nil && !unspecified(laddr.IP) {
		la.IP = cloneIP(laddr.IP)
	}
	if laddr != nil && laddr.Port != 0 {
		la.Port = laddr.Port
		// an explicit local port: the bind fails while an earlier connection from that port is open or
		// lingers in TIME_WAIT (it was closed by this side first) - no SO_REUSEADDR on a dialling socket
		for _, x := range Fab.conns {
			if x.Dialled && x.laddr.Port == la.Port && (!x.closed || (!x.rclosed && !x.reset)) {
				return nil, fmt.Errorf("dial tcp %s: bind: address already in use (sim: local port %d is still held by an earlier connection)", key, la.Port)
			}
		}
	} else {
		la.Port = ephemeral()
	}
	ra := &net.TCPAddr{IP: cloneIP(rip), Port: raddr.Port}
	n := len(Fab.conns)
	c := &TCPConn{id: n, laddr: la, raddr: ra, Dialled: true, driver: Fab.DriverMode}
	if !c.driver {
		c.FailWrites = failWrites
		c.PartialFail = partial
	}
	s := &TCPConn{id: n + 1, laddr: cloneTCPAddr(ra), raddr: cloneTCPAddr(la), driver: l.driver}
	c.peer, s.peer = s, c
	Fab.conns = append(Fab.conns, c, s)
	l.q = append(l.q, s)
	return c, nil
}

//go:norace
func Dial(network, address string) (net.Conn, error) {
	if network != "tcp" && network != "tcp4" {
		return nil, errNotSim("Dial " + network)
	}
	ip, port, err := resolve(address)
	if err != nil {
		return nil, err
	}
	c, err := dial(nil, &net.TCPAddr{IP: ip, Port: port})
	if err != nil {
		return nil, err
	}
	return c, nil
}

//go:norace
func DialTimeout(network, address string, d time.Duration) (net.Conn, error) {
	return Dial(network, address)
}

//go:norace
func DialTCP(network string, laddr, raddr *net.TCPAddr) (*TCPConn, error) {
	return dial(laddr, raddr)
}

// Conns lists all TCP connection ends in creation order (even ids dialled, odd ids accepted).
//
//go:norace
func Conns() []*TCPConn {
	out := make([]*TCPConn, len(Fab.conns))
	for i := range Fab.conns {
		out[i] = Fab.conns[i]
	}
	return out
}

// ---- names that are not simulated: fail loudly instead of touching the OS ----

type Dialer struct {
	Timeout   time.Duration
	LocalAddr net.Addr
	KeepAlive time.Duration
}

//go:norace
func (d *Dialer) Dial(network, address string) (net.Conn, error) {
	la, ok := d.LocalAddr.(*net.TCPAddr)
	if !ok || la == nil {
		return Dial(network, address)
	}
	if network != "tcp" && network != "tcp4" {
		return nil, errNotSim("Dialer.Dial " + network)
	}
	ip, port, err := resolve(address)
	if err != nil {
		return nil, err
	}
	c, err := dial(la, &net.TCPAddr{IP: ip, Port: port})
	if err != nil {
		return nil, err
	}
	return c, nil
}

type ListenConfig struct{ KeepAlive time.Duration }

type Resolver struct{ PreferGo bool }

var DefaultResolver = &Resolver{}

func FileConn(f any) (net.Conn, error)         { return nil, errNotSim("FileConn") }
func FileListener(f any) (net.Listener, error) { return nil, errNotSim("FileListener") }
func Pipe() (net.Conn, net.Conn)               { return net.Pipe() }
