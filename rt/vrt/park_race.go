//go:build race

package vrt

import (
	"runtime"
	"unsafe"
)

// Under -race the hand-off must be invisible to the detector: spin on a plain word
// inside norace functions instead of using a channel (which would be a happens-before edge).
type parker struct{ flag int32 }

func newParker() parker { return parker{} }

//go:norace
func (p *parker) signal() { p.flag = 1 }

//go:norace
func (p *parker) wait() {
	for p.flag == 0 {
		runtime.Gosched()
	}
	p.flag = 0
}

const RaceEnabled = true

var ioSync uint64

// Mirrors internal/poll's ioSync: every socket write releases, every socket read acquires.
func RaceIORelease() { runtime.RaceReleaseMerge(unsafe.Pointer(&ioSync)) }
func RaceIOAcquire() { runtime.RaceAcquire(unsafe.Pointer(&ioSync)) }
func RaceWriteRange(p unsafe.Pointer, n int) {
	if n > 0 {
		runtime.RaceWriteRange(p, n)
	}
}
func RaceReadRange(p unsafe.Pointer, n int) {
	if n > 0 {
		runtime.RaceReadRange(p, n)
	}
}
