//go:build race

package vrt

import (
	"runtime"
	"unsafe"
)

// Under -race the hand-off must be invisible to the detector: spin on a plain word inside norace
// functions instead of using a channel (which would be a happens-before edge).
type parker struct{ flag int32 }

func newParker() parker { return parker{} }

//go:norace
func (p *parker) signal() { p.flag = 1 }

//go:norace
func (p *parker) wait() {
	for p.flag == 0 {
		runtime.Gosched()
	}
	p.flag = 0
}

const RaceEnabled = true

var ioSync uint64

// RaceIORelease / RaceIOAcquire mirror syscall.Write / syscall.Read on unix: every write of a
// stream socket releases, every successful read acquires one global word (syscall.ioSync).
// Datagram sendto/recvfrom carry no annotation in the Go runtime, and neither do they here.
//
//go:norace
func RaceIORelease() { runtime.RaceReleaseMerge(unsafe.Pointer(&ioSync)) }

//go:norace
func RaceIOAcquire() { runtime.RaceAcquire(unsafe.Pointer(&ioSync)) }

// RaceFDSync mirrors internal/poll.fdMutex: every operation on one descriptor performs atomic
// read-modify-write operations on the descriptor's state word, which orders all operations on
// the same descriptor for the detector.
//
//go:norace
func RaceFDSync(p *uint64) {
	runtime.RaceAcquire(unsafe.Pointer(p))
	runtime.RaceReleaseMerge(unsafe.Pointer(p))
}

//go:norace
func RaceWriteRange(p unsafe.Pointer, n int) {
	if n > 0 {
		runtime.RaceWriteRange(p, n)
	}
}

//go:norace
func RaceReadRange(p unsafe.Pointer, n int) {
	if n > 0 {
		runtime.RaceReadRange(p, n)
	}
}

var teardownSync uint64

// raceTeardownRelease / raceTeardownAcquire: everything a goroutine of a finished world did
// happens before what the driver does next (the next world re-initialises package-level state).
//
//go:norace
func raceTeardownRelease() { runtime.RaceReleaseMerge(unsafe.Pointer(&teardownSync)) }

//go:norace
func raceTeardownAcquire() { runtime.RaceAcquire(unsafe.Pointer(&teardownSync)) }
