// Package vrt is the controlled runtime: a cooperative scheduler for the goroutines of the
// instrumented program, channel shims, owned map iteration order, a virtual clock and the
// uniform choice-point mechanism the explorers enumerate (DESIGN.md §2.3).
//
// Coding rules (DESIGN.md §2.10): every function is //go:norace, closure-free and map-free,
// because scheduler state is shared between goroutines that are serialised only by a hand-off
// the race detector must not see.
package vrt

import (
	"fmt"
	"runtime"
	"runtime/debug"
	"sort"
	"unsafe"
)

// Waiter describes a pending operation; Ready must be a //go:norace method.
type Waiter interface{ Ready() bool }

type always struct{}

//go:norace
func (always) Ready() bool { return true }

type never struct{}

//go:norace
func (never) Ready() bool { return false }

// Choice kinds (bit mask in World.Explore).
const (
	KSched  = 1 << iota // which enabled goroutine runs next
	KSelect             // which ready select case fires
	KMap                // map iteration order
	KEnv                // environment answer (short read, ...)
	KDriver             // driver decision
)

type G struct {
	id      int
	park    parker
	ack     parker
	w       Waiter
	desc    string
	idle    bool // parked at an operation that may legitimately wait forever (read, accept, recv, sleep)
	done    bool
	quiesce bool
}

type Point struct {
	N, C int
	Kind int
}

// DeadlockError is raised in the driver goroutine when nothing is enabled and the driver is not
// waiting for quiescence.
type DeadlockError struct{ Blocked []string }

func (d DeadlockError) Error() string { return fmt.Sprint("deadlock: ", d.Blocked) }

type World struct {
	gs       []*G
	cur      *G
	driver   *G
	prefix   []int
	pos      int
	Trace    []Point
	Explore  int // kinds that are choice points; other kinds always take choice 0 and are not recorded
	MapMode  int // 0 canonical, 1 rotations, 2 permutations (n<=5) else rotations
	dead     bool
	deadlock bool
	Crashes  []string
	NowNS    int64
	Switches int
	chans    []*chanState
	reg      [regMax]any
	nreg     int
	Diverged string
}

const regMax = 1024

var W *World

// Progress counts gates; a watchdog outside the world can detect a stalled execution.
var Progress uint64

// CurrentCase is free for the harness: what is being executed (for the watchdog / journal).
var CurrentCase string

//go:norace
func NewWorld(prefix []int, explore int) *World {
	w := &World{prefix: prefix, Explore: explore}
	g := &G{id: 0, park: newParker(), ack: newParker()}
	w.gs = []*G{g}
	w.cur, w.driver = g, g
	W = w
	return w
}

//go:norace
func (w *World) choose(n int, kind int) int {
	if n <= 1 || w.Explore&kind == 0 {
		return 0
	}
	c := 0
	if w.pos < len(w.prefix) {
		c = w.prefix[w.pos]
		if c >= n || c < 0 {
			w.Diverged = fmt.Sprintf("replay divergence at point %d: choice %d of %d (kind %d)", w.pos, c, n, kind)
			c = 0
		}
	}
	w.pos++
	w.Trace = append(w.Trace, Point{N: n, C: c, Kind: kind})
	return c
}

// Choose is the uniform choice point.
//
//go:norace
func Choose(n int, kind int) int {
	if W == nil || W.dead {
		return 0
	}
	return W.choose(n, kind)
}

//go:norace
func (w *World) enabledList(from *G) []*G {
	var list []*G
	if from != nil && !from.done && !from.quiesce && from.w != nil && from.w.Ready() {
		list = append(list, from)
	}
	for _, g := range w.gs {
		if g == from || g.done || g.quiesce || g.w == nil {
			continue
		}
		if g.w.Ready() {
			list = append(list, g)
		}
	}
	if len(list) == 0 && w.driver.quiesce {
		list = append(list, w.driver)
	}
	return list
}

//go:norace
func (w *World) pick(from *G) {
	Progress++
	list := w.enabledList(from)
	if len(list) == 0 {
		// nothing enabled and the driver is not waiting for quiescence: the driver itself is blocked
		w.deadlock = true
		if from == w.driver {
			panic(DeadlockError{w.Blocked()})
		}
		w.cur = w.driver
		w.driver.park.signal()
		if from != nil && !from.done {
			from.park.wait()
			if w.dead {
				runtime.Goexit()
			}
		}
		return
	}
	next := list[w.choose(len(list), KSched)]
	if next == from {
		return
	}
	w.Switches++
	w.cur = next
	next.park.signal()
	if from != nil && !from.done {
		from.park.wait()
		if w.dead {
			runtime.Goexit()
		}
		if w.deadlock && from == w.driver {
			w.deadlock = false
			panic(DeadlockError{w.Blocked()})
		}
	}
}

// Gate publishes the pending operation of the running goroutine and lets the scheduler decide who
// runs; it returns when the operation is enabled and this goroutine has been chosen.
//
//go:norace
func Gate(wt Waiter, desc string, idle bool) {
	w := W
	if w == nil || w.dead {
		return
	}
	g := w.cur
	g.w, g.desc, g.idle = wt, desc, idle
	w.pick(g)
	g.w = nil
}

// Quiesce lets the world run until no goroutine is enabled (driver only).
//
//go:norace
func (w *World) Quiesce() {
	g := w.driver
	g.quiesce = true
	g.w = never{}
	w.pick(g)
	g.quiesce = false
	g.w = nil
}

// Close terminates every parked goroutine (runtime.Goexit) so nothing leaks into the next world.
//
//go:norace
func (w *World) Close() {
	w.dead = true
	for _, g := range w.gs {
		if g == w.driver || g.done {
			continue
		}
		g.park.signal()
		g.ack.wait()
	}
	raceTeardownAcquire()
	if W == w {
		W = nil
	}
}

// Blocked lists all live goroutines and what they are parked at.
//
//go:norace
func (w *World) Blocked() []string {
	var r []string
	for _, g := range w.gs {
		if g != w.driver && !g.done {
			r = append(r, fmt.Sprintf("g%d:%s", g.id, g.desc))
		}
	}
	return r
}

// Stuck lists live goroutines parked at an operation that is not a legitimate idle wait
// (lock, send, wait-group): at quiescence this is a deadlock.
//
//go:norace
func (w *World) Stuck() []string {
	var r []string
	for _, g := range w.gs {
		if g != w.driver && !g.done && !g.idle {
			r = append(r, fmt.Sprintf("g%d:%s", g.id, g.desc))
		}
	}
	return r
}

//go:norace
func (w *World) Live() int {
	n := 0
	for _, g := range w.gs {
		if g != w.driver && !g.done {
			n++
		}
	}
	return n
}

//go:norace
func (w *World) Advance(ns int64) { w.NowNS += ns }

// SetExplore switches exploration on from this point of the execution: the given kinds become
// choice points and the prefix is replayed from here (set-up runs on the default schedule).
//
//go:norace
func (w *World) SetExplore(kinds int, prefix []int) {
	w.Explore = kinds
	w.prefix = prefix
	w.pos = 0
	w.Trace = nil
}

//go:norace
func (w *World) CrashCopy() []string { return append([]string(nil), w.Crashes...) }

//go:norace
func (w *World) TraceCopy() []Point { return append([]Point(nil), w.Trace...) }

// Register remembers an object created by one of the program's constructors.
//
//go:norace
func Register(obj any) {
	w := W
	if w == nil || w.dead {
		return
	}
	if w.nreg >= regMax {
		return
	}
	w.reg[w.nreg] = obj
	w.nreg++
}

// Registered returns the registered objects in creation order.
//
//go:norace
func (w *World) Registered() []any {
	out := make([]any, w.nreg)
	for i := 0; i < w.nreg; i++ {
		out[i] = w.reg[i]
	}
	return out
}

// DropUnmanaged: goroutines started outside a world (package init) are not started at all.
var DropUnmanaged = true

//go:norace
func Go(f func()) {
	w := W
	if w == nil {
		if !DropUnmanaged {
			go f()
		}
		return
	}
	if w.dead {
		return
	}
	g := &G{id: len(w.gs), park: newParker(), ack: newParker(), desc: "start", w: always{}}
	w.gs = append(w.gs, g)
	go runG(w, g, f) // real go statement: the detector sees the spawn edge
}

//go:norace
func runG(w *World, g *G, f func()) {
	g.park.wait()
	if w.dead {
		g.done = true
		raceTeardownRelease()
		g.ack.signal()
		return
	}
	defer finishG(w, g)
	g.w = nil
	f()
}

//go:norace
func finishG(w *World, g *G) {
	if r := recover(); r != nil {
		w.Crashes = append(w.Crashes, fmt.Sprintf("g%d panic: %v\n%s", g.id, r, debug.Stack()))
	}
	g.done = true
	if w.dead {
		raceTeardownRelease()
		g.ack.signal()
		return
	}
	raceTeardownRelease()
	w.pick(nil)
}

// ---- channels: shadow state decides enabledness, the real channel carries the value ----

const realCapMax = 1024

type chanState struct {
	key    unsafe.Pointer
	n, cap int
	closed bool
}

//go:norace
func chanKey[C any](ch C) unsafe.Pointer { return *(*unsafe.Pointer)(unsafe.Pointer(&ch)) }

//go:norace
func cs(key unsafe.Pointer, realCap int) *chanState {
	w := W
	for _, s := range w.chans {
		if s.key == key {
			return s
		}
	}
	// a channel that was not created through MakeChan in this world (e.g. created in package init)
	s := &chanState{key: key, cap: realCap}
	w.chans = append(w.chans, s)
	return s
}

//go:norace
func MakeChan[T any](n int) chan T {
	rc := n
	if rc == 0 {
		rc = 1
	}
	if rc > realCapMax {
		rc = realCapMax
	}
	ch := make(chan T, rc)
	if W != nil && !W.dead {
		W.chans = append(W.chans, &chanState{key: chanKey(ch), cap: n})
	}
	return ch
}

type sendWait struct{ s *chanState }

//go:norace
func (x sendWait) Ready() bool {
	if x.s.closed {
		return true // will panic, as in Go
	}
	if x.s.cap == 0 {
		return x.s.n == 0
	}
	return x.s.n < x.s.cap
}

type emptyWait struct{ s *chanState }

//go:norace
func (x emptyWait) Ready() bool { return x.s.n == 0 }

type recvWait struct{ s *chanState }

//go:norace
func (x recvWait) Ready() bool { return x.s.n > 0 || x.s.closed }

type sendable[T any] interface{ ~chan T | ~chan<- T }
type recvable[T any] interface{ ~chan T | ~<-chan T }

//go:norace
func Send[T any, C sendable[T]](ch C, v T) {
	if W == nil || W.dead {
		ch <- v
		return
	}
	if chanKey(ch) == nil {
		Gate(never{}, "send-nil", false)
	}
	s := cs(chanKey(ch), cap(ch))
	Gate(sendWait{s}, "send", false)
	if s.closed {
		panic("send on closed channel")
	}
	if s.n >= cap(ch) {
		panic("vrt: real channel capacity exceeded (raise realCapMax)")
	}
	s.n++
	ch <- v
	if s.cap == 0 {
		Gate(emptyWait{s}, "send-taken", false)
	}
}

//go:norace
func Recv[T any, C recvable[T]](ch C) T {
	if W != nil && !W.dead {
		if chanKey(ch) == nil {
			Gate(never{}, "recv-nil", true)
		}
		s := cs(chanKey(ch), cap(ch))
		Gate(recvWait{s}, "recv", true)
		if s.n > 0 {
			s.n--
		}
	}
	return <-ch
}

//go:norace
func Recv2[T any, C recvable[T]](ch C) (T, bool) {
	if W != nil && !W.dead {
		if chanKey(ch) == nil {
			Gate(never{}, "recv-nil", true)
		}
		s := cs(chanKey(ch), cap(ch))
		Gate(recvWait{s}, "recv", true)
		if s.n > 0 {
			s.n--
		}
	}
	v, ok := <-ch
	return v, ok
}

//go:norace
func Close[T any, C sendable[T]](ch C) {
	if W != nil && !W.dead {
		cs(chanKey(ch), cap(ch)).closed = true
	}
	close(ch)
}

//go:norace
func ChanLen[T any, C ~chan T | ~<-chan T | ~chan<- T](ch C) int {
	if W != nil && !W.dead && chanKey(ch) != nil {
		return cs(chanKey(ch), cap(ch)).n
	}
	return len(ch)
}

//go:norace
func ChanCap[T any, C ~chan T | ~<-chan T | ~chan<- T](ch C) int {
	if W != nil && !W.dead && chanKey(ch) != nil {
		return cs(chanKey(ch), cap(ch)).cap
	}
	return cap(ch)
}

type ChanIterator[T any, C recvable[T]] struct {
	ch C
	V  T
}

//go:norace
func ChanIter[T any, C recvable[T]](ch C) *ChanIterator[T, C] { return &ChanIterator[T, C]{ch: ch} }

//go:norace
func (it *ChanIterator[T, C]) Next() bool {
	v, ok := Recv2[T](it.ch)
	it.V = v
	return ok
}

type Case struct {
	s    *chanState
	send bool
	nilc bool
}

//go:norace
func (c Case) ready() bool {
	if c.nilc || c.s == nil {
		return false
	}
	if c.send {
		return sendWait{c.s}.Ready()
	}
	return recvWait{c.s}.Ready()
}

//go:norace
func RecvCase[T any, C recvable[T]](ch C) Case {
	if W == nil || W.dead {
		return Case{}
	}
	if chanKey(ch) == nil {
		return Case{nilc: true}
	}
	return Case{s: cs(chanKey(ch), cap(ch))}
}

//go:norace
func SendCase[T any, C sendable[T]](ch C) Case {
	if W == nil || W.dead {
		return Case{}
	}
	if chanKey(ch) == nil {
		return Case{nilc: true}
	}
	return Case{s: cs(chanKey(ch), cap(ch)), send: true}
}

type selectWait struct {
	cases      []Case
	hasDefault bool
}

//go:norace
func (x selectWait) Ready() bool {
	if x.hasDefault {
		return true
	}
	for _, c := range x.cases {
		if c.ready() {
			return true
		}
	}
	return false
}

// Select returns the index of the case that fires, or -1 for default.
//
//go:norace
func Select(hasDefault bool, cases ...Case) int {
	if W == nil || W.dead {
		// outside a controlled world (teardown): behave like a blocked select that never fires
		if hasDefault {
			return -1
		}
		runtime.Goexit()
	}
	Gate(selectWait{cases, hasDefault}, "select", true)
	var ready []int
	for i, c := range cases {
		if c.ready() {
			ready = append(ready, i)
		}
	}
	if len(ready) == 0 {
		return -1
	}
	i := ready[Choose(len(ready), KSelect)]
	if !cases[i].send && cases[i].s.n > 0 {
		cases[i].s.n--
	}
	if cases[i].send {
		if cases[i].s.closed {
			panic("send on closed channel")
		}
		cases[i].s.n++
	}
	return i
}

//go:norace
func SelRecv[T any, C recvable[T]](ch C) T { return <-ch }

//go:norace
func SelRecv2[T any, C recvable[T]](ch C) (T, bool) { v, ok := <-ch; return v, ok }

//go:norace
func SelSend[T any, C sendable[T]](ch C, v T) {
	ch <- v
	if W != nil && !W.dead {
		s := cs(chanKey(ch), cap(ch))
		if s.cap == 0 {
			Gate(emptyWait{s}, "send-taken", false)
		}
	}
}

// ---- map iteration order (reads the program's map: deliberately NOT norace, so that the
// detector sees the read exactly as it would see a real range loop) ----

//go:norace
func mapChoice(n int) int {
	if W == nil || W.dead || n <= 1 {
		return 0
	}
	switch W.MapMode {
	case 1:
		return Choose(n, KMap)
	case 2:
		if n <= 5 {
			f := 1
			for i := 2; i <= n; i++ {
				f *= i
			}
			return Choose(f, KMap)
		}
		return Choose(n, KMap)
	}
	return 0
}

type MapIterator[K comparable, V any] struct {
	m    map[K]V
	keys []K
	i    int
	K    K
	V    V
}

func MapIter[K comparable, V any](m map[K]V) *MapIterator[K, V] {
	keys := make([]K, 0, len(m))
	for k := range m {
		keys = append(keys, k)
	}
	sort.Slice(keys, func(i, j int) bool { return fmt.Sprint(keys[i]) < fmt.Sprint(keys[j]) })
	n := len(keys)
	if r := mapChoice(n); r > 0 {
		if W != nil && W.MapMode == 2 && n <= 5 {
			keys = nthPerm(keys, r)
		} else {
			keys = append(append([]K(nil), keys[r:]...), keys[:r]...)
		}
	}
	return &MapIterator[K, V]{m: m, keys: keys}
}

// nthPerm returns the r-th permutation (factorial number system) of keys.
func nthPerm[K any](keys []K, r int) []K {
	rest := append([]K(nil), keys...)
	var out []K
	n := len(rest)
	f := 1
	for i := 2; i < n; i++ {
		f *= i
	}
	for i := n; i >= 1; i-- {
		idx := r / f
		r = r % f
		out = append(out, rest[idx])
		rest = append(rest[:idx], rest[idx+1:]...)
		if i > 1 {
			f /= (i - 1)
		}
		if f == 0 {
			f = 1
		}
	}
	return out
}

func (it *MapIterator[K, V]) Next() bool {
	for it.i < len(it.keys) {
		k := it.keys[it.i]
		it.i++
		if v, ok := it.m[k]; ok {
			it.K, it.V = k, v
			return true
		}
	}
	return false
}
