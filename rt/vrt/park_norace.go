//go:build !race

package vrt

import "unsafe"

type parker struct{ c chan struct{} }

func newParker() parker   { return parker{c: make(chan struct{}, 1)} }
func (p *parker) signal() { p.c <- struct{}{} }
func (p *parker) wait()   { <-p.c }

const RaceEnabled = false

func RaceIORelease()                         {}
func RaceIOAcquire()                         {}
func RaceWriteRange(p unsafe.Pointer, n int) {}
func RaceReadRange(p unsafe.Pointer, n int)  {}
