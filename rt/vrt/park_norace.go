//go:build !race

package vrt

import "unsafe"

type parker struct{ c chan struct{} }

func newParker() parker   { return parker{c: make(chan struct{}, 1)} }
func (p *parker) signal() { p.c <- struct{}{} }
func (p *parker) wait()   { <-p.c }

const RaceEnabled = false

//go:norace
func RaceIORelease() {}

//go:norace
func RaceIOAcquire() {}

//go:norace
func RaceFDSync(p *uint64) {}

//go:norace
func RaceWriteRange(p unsafe.Pointer, n int) {}

//go:norace
func RaceReadRange(p unsafe.Pointer, n int) {}

//go:norace
func raceTeardownRelease() {}

//go:norace
func raceTeardownAcquire() {}
