// Package vsync is the facade for the owned names of package sync: every blocking operation is
// first gated by the scheduler ("gate, then perform the real operation"), so that locks are
// scheduling points while the race detector still sees the program's own synchronisation.
package vsync

import (
	"sync"

	"github.com/ochinchina/sipproxy/vrt"
)

type Locker = sync.Locker

// ---- Mutex ----

type Mutex struct {
	mu   sync.Mutex
	held bool
}

type lockWait struct{ m *Mutex }

//go:norace
func (l lockWait) Ready() bool { return !l.m.held }

//go:norace
func (m *Mutex) Lock() {
	if vrt.W != nil {
		vrt.Gate(lockWait{m}, "lock", false)
		m.held = true
	}
	m.mu.Lock() // real operation: cannot block here; the detector sees the acquire
}

//go:norace
func (m *Mutex) TryLock() bool {
	if vrt.W != nil {
		vrt.Gate(tryWait{}, "trylock", false)
		if m.held {
			return false
		}
		m.held = true
		m.mu.Lock()
		return true
	}
	return m.mu.TryLock()
}

type tryWait struct{}

//go:norace
func (tryWait) Ready() bool { return true }

//go:norace
func (m *Mutex) Unlock() {
	m.held = false
	m.mu.Unlock()
}

// ---- RWMutex ----

type RWMutex struct {
	mu      sync.RWMutex
	writer  bool
	readers int
}

type wlockWait struct{ m *RWMutex }

//go:norace
func (l wlockWait) Ready() bool { return !l.m.writer && l.m.readers == 0 }

type rlockWait struct{ m *RWMutex }

//go:norace
func (l rlockWait) Ready() bool { return !l.m.writer }

//go:norace
func (m *RWMutex) Lock() {
	if vrt.W != nil {
		vrt.Gate(wlockWait{m}, "lock", false)
		m.writer = true
	}
	m.mu.Lock()
}

//go:norace
func (m *RWMutex) Unlock() {
	m.writer = false
	m.mu.Unlock()
}

//go:norace
func (m *RWMutex) RLock() {
	if vrt.W != nil {
		vrt.Gate(rlockWait{m}, "rlock", false)
		m.readers++
	}
	m.mu.RLock()
}

//go:norace
func (m *RWMutex) RUnlock() {
	if m.readers > 0 {
		m.readers--
	}
	m.mu.RUnlock()
}

//go:norace
func (m *RWMutex) RLocker() Locker { return (*rlocker)(m) }

type rlocker RWMutex

//go:norace
func (r *rlocker) Lock() { (*RWMutex)(r).RLock() }

//go:norace
func (r *rlocker) Unlock() { (*RWMutex)(r).RUnlock() }

// ---- WaitGroup ----

type WaitGroup struct {
	wg sync.WaitGroup
	n  int
}

type wgWait struct{ g *WaitGroup }

//go:norace
func (w wgWait) Ready() bool { return w.g.n <= 0 }

//go:norace
func (g *WaitGroup) Add(d int) { g.n += d; g.wg.Add(d) }

//go:norace
func (g *WaitGroup) Done() { g.n--; g.wg.Done() }

//go:norace
func (g *WaitGroup) Wait() {
	if vrt.W != nil {
		vrt.Gate(wgWait{g}, "wg-wait", false)
	}
	g.wg.Wait()
}

// ---- Once ----

type Once struct {
	m    Mutex
	done bool
}

func (o *Once) Do(f func()) {
	o.m.Lock()
	defer o.m.Unlock()
	if !o.done {
		defer func() { o.done = true }()
		f()
	}
}

// ---- Cond ----

type condWaiter struct {
	woken bool
	next  *condWaiter
}

type Cond struct {
	L     Locker
	first *condWaiter
	last  *condWaiter
}

//go:norace
func NewCond(l Locker) *Cond { return &Cond{L: l} }

type condWait struct{ w *condWaiter }

//go:norace
func (c condWait) Ready() bool { return c.w.woken }

//go:norace
func (c *Cond) enqueue() *condWaiter {
	w := &condWaiter{}
	if c.last == nil {
		c.first, c.last = w, w
	} else {
		c.last.next = w
		c.last = w
	}
	return w
}

func (c *Cond) Wait() {
	w := c.enqueue()
	c.L.Unlock()
	if vrt.W != nil {
		vrt.Gate(condWait{w}, "cond-wait", false)
	}
	c.L.Lock()
}

//go:norace
func (c *Cond) Signal() {
	if c.first != nil {
		c.first.woken = true
		c.first = c.first.next
		if c.first == nil {
			c.last = nil
		}
	}
}

//go:norace
func (c *Cond) Broadcast() {
	for c.first != nil {
		c.Signal()
	}
}
