// Package vtime is the facade for the owned names of package time: the clock is virtual and only
// the driver advances it; sleepers and timers become enabled when their deadline is reached.
package vtime

import (
	"time"

	"github.com/ochinchina/sipproxy/vrt"
)

var base = time.Date(2030, 1, 1, 0, 0, 0, 0, time.UTC)

// Now advances the virtual clock by 1 ns per call: two reads never return the same instant.
//
//go:norace
func Now() time.Time {
	w := vrt.W
	if w == nil {
		return time.Now()
	}
	w.NowNS++
	return base.Add(time.Duration(w.NowNS))
}

// Base is the virtual epoch.
func Base() time.Time { return base }

type sleepWait struct {
	w        *vrt.World
	deadline int64
	stop     *bool
}

//go:norace
func (s sleepWait) Ready() bool { return s.w.NowNS >= s.deadline || (s.stop != nil && *s.stop) }

//go:norace
func Sleep(d time.Duration) {
	w := vrt.W
	if w == nil {
		time.Sleep(d)
		return
	}
	if d <= 0 {
		return
	}
	vrt.Gate(sleepWait{w, w.NowNS + int64(d), nil}, "sleep", true)
}

func Since(t time.Time) time.Duration { return Now().Sub(t) }
func Until(t time.Time) time.Duration { return t.Sub(Now()) }

type Timer struct {
	C       <-chan time.Time
	c       chan time.Time
	stopped bool
	fired   bool
	real    *time.Timer
	f       func()
	gen     int
}

func (t *Timer) run(d time.Duration, gen int) {
	w := vrt.W
	stop := &t.stopped
	vrt.Go(func() {
		vrt.Gate(sleepWait{w, w.NowNS + int64(d), stop}, "timer", true)
		if t.stopped || t.gen != gen {
			return
		}
		t.fired = true
		if t.f != nil {
			t.f()
			return
		}
		if vrt.ChanLen[time.Time](t.c) == 0 {
			vrt.Send(t.c, Now())
		}
	})
}

func NewTimer(d time.Duration) *Timer {
	if vrt.W == nil {
		rt := time.NewTimer(d)
		return &Timer{C: rt.C, real: rt}
	}
	c := vrt.MakeChan[time.Time](1)
	t := &Timer{C: c, c: c}
	t.run(d, 0)
	return t
}

func AfterFunc(d time.Duration, f func()) *Timer {
	if vrt.W == nil {
		return &Timer{real: time.AfterFunc(d, f)}
	}
	t := &Timer{f: f}
	t.run(d, 0)
	return t
}

func (t *Timer) Stop() bool {
	if t.real != nil {
		return t.real.Stop()
	}
	was := !t.stopped && !t.fired
	t.stopped = true
	return was
}

func (t *Timer) Reset(d time.Duration) bool {
	if t.real != nil {
		return t.real.Reset(d)
	}
	was := !t.stopped && !t.fired
	// the old sleeper (if any) sees a newer generation and gives up
	t.gen++
	t.stopped, t.fired = false, false
	t.run(d, t.gen)
	return was
}

func After(d time.Duration) <-chan time.Time { return NewTimer(d).C }

type Ticker struct {
	C       <-chan time.Time
	c       chan time.Time
	stopped bool
	real    *time.Ticker
}

func NewTicker(d time.Duration) *Ticker {
	if vrt.W == nil {
		rt := time.NewTicker(d)
		return &Ticker{C: rt.C, real: rt}
	}
	c := vrt.MakeChan[time.Time](1)
	t := &Ticker{C: c, c: c}
	w := vrt.W
	stop := &t.stopped
	vrt.Go(func() {
		for !t.stopped {
			vrt.Gate(sleepWait{w, w.NowNS + int64(d), stop}, "ticker", true)
			if t.stopped {
				return
			}
			if vrt.ChanLen[time.Time](t.c) == 0 {
				vrt.Send(t.c, Now())
			}
		}
	})
	return t
}

func (t *Ticker) Stop() {
	if t.real != nil {
		t.real.Stop()
		return
	}
	t.stopped = true
}

func (t *Ticker) Reset(d time.Duration) {
	if t.real != nil {
		t.real.Reset(d)
	}
}

func Tick(d time.Duration) <-chan time.Time { return NewTicker(d).C }
