module verif/conform

go 1.23
