// conform: wire conformance pass (DESIGN.md §2.8). Replays canonical traces, recorded in the
// deterministic simulation by `h conform-dump`, against the PRISTINE sipproxy binary over real
// loopback sockets and compares what arrives at the peers (fresh branches and ephemeral ports
// masked). Only positive expectations are used on the wire (packets that must arrive are waited
// for; absence is checked behind a FIFO barrier message), so load cannot produce a false alarm:
// a missing packet makes a trace inconclusive, a different packet is a conformance failure of
// the simulation.
//
//	conform <traces.json> <sipproxy binary> <result.json>
package main

import (
	"encoding/base64"
	"encoding/json"
	"fmt"
	"net"
	"os"
	"os/exec"
	"regexp"
	"sort"
	"strings"
	"sync"
	"time"
)

type Emission struct {
	Proto string `json:"proto"`
	To    string `json:"to"`   // peer address, or "conn:<name>" for a client connection of the driver
	Data  string `json:"data"` // base64
}

type Step struct {
	Kind    string     `json:"kind"` // udp | tcp-open | tcp-write
	From    string     `json:"from"`
	To      string     `json:"to"`
	Conn    string     `json:"conn,omitempty"`
	Data    string     `json:"data,omitempty"`
	Expect  []Emission `json:"expect"`
	Barrier bool       `json:"barrier,omitempty"` // this step only exists to prove the absence claimed by the previous one
}

type Trace struct {
	Name  string   `json:"name"`
	YAML  string   `json:"yaml"`
	Peers []string `json:"peers"` // addresses where the driver listens (udp and tcp)
	Steps []Step   `json:"steps"`
}

var branchRe = regexp.MustCompile(`branch=z9hG4bK[0-9a-f]{12}`)

func mask(b []byte) string { return branchRe.ReplaceAllString(string(b), "branch=*") }

type collector struct {
	mu   sync.Mutex
	seen []Emission
}

func (c *collector) add(proto, to string, data []byte) {
	c.mu.Lock()
	c.seen = append(c.seen, Emission{proto, to, mask(data)})
	c.mu.Unlock()
}

func (c *collector) take() []Emission {
	c.mu.Lock()
	defer c.mu.Unlock()
	s := c.seen
	c.seen = nil
	return s
}

func (c *collector) count() int {
	c.mu.Lock()
	defer c.mu.Unlock()
	return len(c.seen)
}

// splitSIP cuts a TCP byte stream into messages by Content-Length (what a peer would do).
func splitSIP(buf []byte) (msgs [][]byte, rest []byte) {
	for {
		i := strings.Index(string(buf), "\r\n\r\n")
		if i < 0 {
			return msgs, buf
		}
		head := string(buf[:i])
		cl := 0
		for _, l := range strings.Split(head, "\r\n") {
			if c := strings.IndexByte(l, ':'); c > 0 && strings.EqualFold(strings.TrimSpace(l[:c]), "content-length") {
				fmt.Sscanf(strings.TrimSpace(l[c+1:]), "%d", &cl)
			}
		}
		if len(buf) < i+4+cl {
			return msgs, buf
		}
		msgs = append(msgs, buf[:i+4+cl])
		buf = buf[i+4+cl:]
	}
}

func readTCP(conn net.Conn, name string, col *collector) {
	var acc []byte
	b := make([]byte, 65536)
	for {
		n, err := conn.Read(b)
		if n > 0 {
			acc = append(acc, b[:n]...)
			var msgs [][]byte
			msgs, acc = splitSIP(acc)
			for _, m := range msgs {
				col.add("tcp", name, m)
			}
		}
		if err != nil {
			return
		}
	}
}

func runTrace(tr Trace, bin string) (status string, detail string) {
	f, err := os.CreateTemp("", "conform*.yaml")
	if err != nil {
		return "inconclusive", err.Error()
	}
	f.WriteString(tr.YAML)
	f.Close()
	defer os.Remove(f.Name())
	col := &collector{}
	var closers []func()
	defer func() {
		for _, c := range closers {
			c()
		}
	}()
	udp := map[string]*net.UDPConn{}
	for _, p := range tr.Peers {
		ua, _ := net.ResolveUDPAddr("udp", p)
		uc, err := net.ListenUDP("udp", ua)
		if err != nil {
			return "inconclusive", "cannot bind udp " + p + ": " + err.Error()
		}
		udp[p] = uc
		closers = append(closers, func() { uc.Close() })
		go func(p string, uc *net.UDPConn) {
			b := make([]byte, 65536)
			for {
				n, _, err := uc.ReadFromUDP(b)
				if err != nil {
					return
				}
				col.add("udp", p, b[:n])
			}
		}(p, uc)
		ln, err := net.Listen("tcp", p)
		if err != nil {
			return "inconclusive", "cannot bind tcp " + p + ": " + err.Error()
		}
		closers = append(closers, func() { ln.Close() })
		go func(p string, ln net.Listener) {
			for {
				c, err := ln.Accept()
				if err != nil {
					return
				}
				go readTCP(c, p, col)
			}
		}(p, ln)
	}
	cmd := exec.Command(bin, "-c", f.Name(), "--log-level", "fatal")
	if err := cmd.Start(); err != nil {
		return "inconclusive", "cannot start the binary: " + err.Error()
	}
	defer func() { cmd.Process.Kill(); cmd.Wait() }()
	// wait for the listeners of the proxy (first step's destination)
	ready := false
	for i := 0; i < 100 && !ready; i++ {
		time.Sleep(50 * time.Millisecond)
		ready = true
		for _, st := range tr.Steps {
			if st.Kind == "tcp-open" {
				c, err := net.DialTimeout("tcp", st.To, 200*time.Millisecond)
				if err != nil {
					ready = false
				} else {
					c.Close()
				}
				break
			}
		}
	}
	time.Sleep(300 * time.Millisecond)
	col.take()
	conns := map[string]net.Conn{}
	for si, st := range tr.Steps {
		data, _ := base64.StdEncoding.DecodeString(st.Data)
		switch st.Kind {
		case "udp":
			uc, ok := udp[st.From]
			if !ok {
				return "inconclusive", "no peer socket " + st.From
			}
			ra, _ := net.ResolveUDPAddr("udp", st.To)
			uc.WriteToUDP(data, ra)
		case "tcp-open":
			la, _ := net.ResolveTCPAddr("tcp", st.From)
			ra, _ := net.ResolveTCPAddr("tcp", st.To)
			c, err := net.DialTCP("tcp", la, ra)
			if err != nil {
				return "inconclusive", "dial " + st.To + ": " + err.Error()
			}
			conns[st.Conn] = c
			closers = append(closers, func() { c.Close() })
			go readTCP(c, "conn:"+st.Conn, col)
		case "tcp-write":
			c, ok := conns[st.Conn]
			if !ok {
				return "inconclusive", "no connection " + st.Conn
			}
			c.Write(data)
			time.Sleep(20 * time.Millisecond) // keep the writer's segmentation
		}
		// wait for the expected number of packets (positive expectation only)
		deadline := time.Now().Add(10 * time.Second)
		for col.count() < len(st.Expect) && time.Now().Before(deadline) {
			time.Sleep(5 * time.Millisecond)
		}
		if len(st.Expect) > 0 {
			time.Sleep(30 * time.Millisecond)
		}
		got := col.take()
		if len(st.Expect) == 0 && !st.Barrier {
			// absence is decided by the barrier step that follows (FIFO through the same listener)
			if len(got) > 0 {
				return "mismatch", fmt.Sprintf("step %d: the simulation saw no emission, the real proxy emitted %d: %s", si, len(got), got[0].Data)
			}
			continue
		}
		if len(got) < len(st.Expect) {
			return "inconclusive", fmt.Sprintf("step %d: %d of %d expected packets arrived within 10 s", si, len(got), len(st.Expect))
		}
		var a, b []string
		for _, e := range st.Expect {
			d, _ := base64.StdEncoding.DecodeString(e.Data)
			a = append(a, e.Proto+" "+e.To+" "+mask(d))
		}
		for _, e := range got {
			b = append(b, e.Proto+" "+e.To+" "+e.Data)
		}
		sort.Strings(a)
		sort.Strings(b)
		if strings.Join(a, "\x00") != strings.Join(b, "\x00") {
			return "mismatch", fmt.Sprintf("step %d:\n simulation: %q\n real proxy: %q", si, a, b)
		}
	}
	return "ok", ""
}

func main() {
	if len(os.Args) != 4 {
		fmt.Fprintln(os.Stderr, "usage: conform <traces.json> <binary> <result.json>")
		os.Exit(2)
	}
	raw, err := os.ReadFile(os.Args[1])
	if err != nil {
		fmt.Fprintln(os.Stderr, err)
		os.Exit(2)
	}
	var traces []Trace
	if err := json.Unmarshal(raw, &traces); err != nil {
		fmt.Fprintln(os.Stderr, err)
		os.Exit(2)
	}
	res := map[string]any{}
	ok, bad, inc := 0, 0, 0
	var details []string
	for _, tr := range traces {
		st, d := runTrace(tr, os.Args[2])
		switch st {
		case "ok":
			ok++
		case "mismatch":
			bad++
		default:
			inc++
		}
		fmt.Printf("conformance trace %-28s %s %s\n", tr.Name, st, d)
		if d != "" {
			details = append(details, tr.Name+": "+st+": "+d)
		}
		time.Sleep(200 * time.Millisecond)
	}
	res["traces"], res["ok"], res["mismatch"], res["inconclusive"], res["details"] = len(traces), ok, bad, inc, details
	b, _ := json.MarshalIndent(res, "", " ")
	os.WriteFile(os.Args[3], b, 0644)
	fmt.Printf("CONFORMANCE traces=%d ok=%d mismatch=%d inconclusive=%d\n", len(traces), ok, bad, inc)
	if bad > 0 {
		os.Exit(1)
	}
}
