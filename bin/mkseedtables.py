#!/usr/bin/env python3
"""rewrites the generated tables of DESIGN.md §9 (between the <!-- roundN-table-begin/end --> markers)
from seeded/roundN.json and seeded/*/confirm.json"""
import os, re, subprocess
V = os.path.dirname(os.path.dirname(os.path.abspath(__file__)))
p = V + "/DESIGN.md"
s = open(p).read()
for n in (2, 3, 4, 5, 7, 8):
    j = f"{V}/seeded/round{n}.json"
    b, e = f"<!-- round{n}-table-begin -->", f"<!-- round{n}-table-end -->"
    if not os.path.exists(j) or b not in s:
        continue
    rows = subprocess.check_output([V + "/bin/seedtable.py", j], text=True)
    table = "| change | what it needs | first run | caught by (signature of a violation of the last confirmation run) |\n|---|---|---|---|\n" + rows
    s = s[:s.index(b) + len(b)] + "\n" + table + s[s.index(e):]
open(p, "w").write(s)
