#!/bin/bash
# runs the repository's full test suite (guard off = plain go test in /repo) and summarises
export GOFLAGS=-mod=mod GOPROXY=off GOSUMDB=off GOTOOLCHAIN=local
cd /repo && go test -vet=off -count=1 -timeout 25m -json ./... > /var/tmp/baseline.json 2>&1
python3 - <<'PY'
import json
p=f=0; fails=[]
for l in open('/var/tmp/baseline.json'):
    try: e=json.loads(l)
    except: continue
    if e.get('Test') and e.get('Action')=='pass': p+=1
    if e.get('Test') and e.get('Action')=='fail': f+=1; fails.append(e['Test'])
print("baseline: pass",p,"fail",f,fails)
PY
