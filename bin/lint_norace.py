#!/usr/bin/env python3
"""Every function of the controlled runtime that touches scheduler/network state must be //go:norace.
Functions that deliberately read program memory (MapIter/Next/nthPerm) or that only run in the
driver or for rarely used facade names (timers, Once, Cond.Wait) are exempt by name."""
import re, sys, os
EXEMPT = {"MapIter", "Next", "nthPerm", "Error", "String", "Do", "Wait", "run", "NewTimer", "AfterFunc", "Stop", "Reset",
          "After", "NewTicker", "Tick", "Since", "Until", "Base", "LookupAddr", "LookupCNAME", "LookupSRV", "LookupPort",
          "errNotSim", "ListenPacket", "Dial", "FileConn", "FileListener", "Pipe", "newParker", "signal", "wait",
          "RaceIORelease", "RaceIOAcquire", "RaceWriteRange", "RaceReadRange"}
bad = 0
for root, _, files in os.walk(sys.argv[1]):
    for f in files:
        if not f.endswith(".go"): continue
        lines = open(os.path.join(root, f)).read().split("\n")
        for i, l in enumerate(lines):
            m = re.match(r"func (\([^)]*\) )?([A-Za-z0-9_]+)", l)
            if not m: continue
            name = m.group(2)
            if name in EXEMPT and not (f == "vnet.go" and name in ("Dial",) and "network, address" in l and "Dialer" not in l):
                continue
            if name.startswith("Set") and "time.Time" in l: continue
            if name in ("SetKeepAlive", "SetKeepAlivePeriod", "SetNoDelay", "SetLinger", "CloseRead", "CloseWrite", "SetReadBuffer", "SetWriteBuffer"): continue
            prev = lines[i-1].strip() if i else ""
            if prev != "//go:norace":
                print(f"lint_norace: {os.path.join(root, f)}:{i+1}: func {name} lacks //go:norace"); bad += 1
sys.exit(1 if bad else 0)
