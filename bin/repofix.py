#!/usr/bin/env python3
"""Helper for applying one small fix to /repo: reads a spec (FILE/<<<</====/>>>> blocks, then MSG ... END) from stdin,
applies the replacements, builds, runs the fast unit tests and commits. usage: repofix.py < spec"""
import sys, re, subprocess, os
spec = sys.stdin.read()
env = dict(os.environ, GOFLAGS="-mod=mod", GOPROXY="off", GOSUMDB="off", GOTOOLCHAIN="local")
for m in re.finditer(r"FILE (\S+)\n<<<<\n(.*?)\n====\n(.*?)\n>>>>", spec, re.S):
    f, old, new = m.group(1), m.group(2), m.group(3)
    p = os.path.join("/repo", f); s = open(p).read()
    if s.count(old) != 1:
        print(f"repofix: {f}: old text occurs {s.count(old)} times"); sys.exit(2)
    open(p, "w").write(s.replace(old, new))
msg = re.search(r"MSG\n(.*?)\nEND", spec, re.S).group(1)
subprocess.check_call(["gofmt", "-l", "."], cwd="/repo")
subprocess.check_call(["go", "build", "-o", "/dev/null", "."], cwd="/repo", env=env)
subprocess.check_call(["go", "test", "-vet=off", "-count=1", "-skip", "Perf", "."], cwd="/repo", env=env)
subprocess.check_call(["git", "commit", "-qam", msg], cwd="/repo")
print(subprocess.check_output(["git", "log", "--oneline", "-1"], cwd="/repo", text=True))
