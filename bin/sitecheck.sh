#!/bin/bash
# usage: bin/sitecheck.sh <seeded dir of a two-site change> [check id]
# Runs the property's check against each single site of the change alone (site_a.diff, site_b.diff, ...).
# Each site alone keeps the property (the sub-agent verified that its demonstration passes), so the check
# must stay quiet: this is a false-alarm test. Writes <dir>/sites.json.
V="$(cd "$(dirname "$0")/.." && pwd)"
D="$(cd "$1" && pwd)"; ID="${2:-$(python3 -c 'import json,sys; print(json.load(open(sys.argv[1]))["property"])' "$D/meta.json")}"
out="{"
for p in "$D"/site_*.diff; do
  [ -f "$p" ] || continue
  S=$(mktemp -d /var/tmp/sipsite.XXXXXX)
  mkdir -p "$S/repo" "$S/out"
  rsync -a --exclude .git --exclude /sipproxy /repo/ "$S/repo/"
  if (cd "$S/repo" && patch -s -p1 -i "$p"); then
    r=$(VERIF_REPO="$S/repo" VERIF_OUT="$S/out" "$V/bin/check" "$ID" quick 2>&1 | grep -E "^(VIOLATION|HARNESS)" | sed "s|$S/out/replays/||" | cut -c1-200 | tr '\n' ';' | sed 's/"/\\"/g')
  else
    r="patch does not apply"
  fi
  out="$out\"$(basename "$p")\": \"$r\", "
  rm -rf "$S"
done
echo "${out%, }}" > "$D/sites.json"
echo "$(basename "$D") $ID: $(cat "$D/sites.json")"
