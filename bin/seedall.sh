#!/bin/bash
# re-confirms every seeded change against the check of its property (and optional cross-checks);
# usage: bin/seedall.sh [-j N] [seedcheck options]; summary on stdout, logs in /var/tmp/seed_<id>.log
cd /verif
J=3
if [ "$1" = "-j" ]; then J=$2; shift 2; fi
export SEEDARGS="$*"
ls -d seeded/*/ | xargs -P "$J" -I{} sh -c 'timeout 2400 bin/seedcheck.py {} $SEEDARGS > /var/tmp/seed_$(basename {}).log 2>&1'
for d in seeded/*/; do
  python3 - $d <<'PY'
import json,sys
d=sys.argv[1]
try:
    r=json.load(open(d+"/confirm.json"))
    ok = all(r.get(k) for k in ['patch_applies','builds','repo_tests_pass_with_patch','demo_fails_with_patch','demo_passes_without_patch'])
    print(d, "valid" if ok else "INVALID", {k:(v['detected'],v['exit'],v['violations'][:2]) for k,v in r['checks'].items()})
except Exception as e:
    print(d, "ERROR", e)
PY
done
