#!/bin/bash
# re-confirms every seeded change against the check of its property (and optional cross-checks)
cd /verif
for d in seeded/*/; do
  timeout 1800 bin/seedcheck.py $d "$@" > /var/tmp/seed_$(basename $d).log 2>&1
  python3 - $d <<'PY'
import json,sys
d=sys.argv[1]
try:
    r=json.load(open(d+"/confirm.json"))
    ok = all(r.get(k) for k in ['patch_applies','builds','repo_tests_pass_with_patch','demo_fails_with_patch','demo_passes_without_patch'])
    print(d, "valid" if ok else "INVALID", {k:(v['detected'],v['exit'],v['violations'][:2]) for k,v in r['checks'].items()})
except Exception as e:
    print(d, "ERROR", e)
PY
done
