#!/usr/bin/env python3
"""prints the markdown rows of DESIGN.md §9 for a round of seeded changes from seeded/*/confirm.json
usage: bin/seedtable.py <descriptions.json>   (id -> [what it is, what it needs, first run])"""
import json, sys, os
V = os.path.dirname(os.path.dirname(os.path.abspath(__file__)))
desc = json.load(open(sys.argv[1]))
for k in sorted(desc):
    what, needs, first = desc[k]
    try:
        c = json.load(open(f"{V}/seeded/{k}/confirm.json"))
    except Exception as e:
        print(f"| {k} | ERROR {e} |"); continue
    ok = all(c.get(x) for x in ['patch_applies', 'builds', 'repo_tests_pass_with_patch', 'demo_fails_with_patch', 'demo_passes_without_patch'])
    by = []
    for chk, r in c['checks'].items():
        if r['detected']:
            vs = [x for x in r['violations'] if '|aged|' not in x] or r['violations']
            sig = vs[0] if vs else '(violation)'
            if len(sig) > 90: sig = sig[:87] + '…'
            by.append(f"{chk} `{sig}`")
        else:
            by.append(f"{chk} NOT DETECTED")
    print(f"| {k} {what} | {needs} | {first} | {'; '.join(by)}{'' if ok else ' (UNCONFIRMED)'} |")
