#!/bin/bash
# usage: bin/trymut.sh <seeded dir> <check id> [tier]  - runs one check against a scratch copy of /repo with the seeded patch
V="$(cd "$(dirname "$0")/.." && pwd)"
D="$(cd "$1" && pwd)"; ID="$2"; TIER="${3:-quick}"
S=$(mktemp -d /var/tmp/siptry.XXXXXX); trap 'rm -rf "$S"' EXIT
mkdir -p "$S/repo" "$S/out"
rsync -a --exclude .git --exclude /sipproxy /repo/ "$S/repo/"
(cd "$S/repo" && patch -s -p1 -i "$D/patch.diff") || { echo "patch does not apply"; exit 2; }
VERIF_REPO="$S/repo" VERIF_OUT="$S/out" "$V/bin/check" "$ID" "$TIER" 2>&1 | grep -E "^(check|VIOL|KNOWN|HARN)" | cut -c1-220 | head -12
f=$(grep -L '"tracked_finding": true' "$S"/out/replays/$ID/*.json 2>/dev/null | head -1)
[ -n "$f" ] && python3 -c "
import json,sys;d=json.load(open('$f'));print(json.dumps(d['case'])[:400]);print(d['detail'][:1200])"
