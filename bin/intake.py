#!/usr/bin/env python3
"""usage: bin/intake.py Cxx [--root /tmp/wt2] [--offset 2]   - copies /tmp/wt/Cxx/_out/{patchK.diff,demoK_test.go,metaK.json} to /verif/seeded/Cxx-K/ and confirms each"""
import sys, os, shutil, glob, json, subprocess, re
cid = sys.argv[1]
extra = sys.argv[2:]
root, off = "/tmp/wt", 0
if "--root" in extra:
    i = extra.index("--root"); root = extra[i + 1]; del extra[i:i + 2]
if "--offset" in extra:
    i = extra.index("--offset"); off = int(extra[i + 1]); del extra[i:i + 2]
only = None
if "--only" in extra:
    i = extra.index("--only"); only = extra[i + 1]; del extra[i:i + 2]
dest = "seeded"
if "--dest" in extra:
    i = extra.index("--dest"); dest = extra[i + 1]; del extra[i:i + 2]
src = f"{root}/{cid}/_out"
V = os.path.dirname(os.path.dirname(os.path.abspath(__file__)))
for pf in sorted(glob.glob(src + "/patch*.diff")):
    mm = re.search(r"patch(\d+)\.diff$", pf)
    if not mm:
        continue  # patch1a.diff / patch1b.diff: the single sites of a two-site change (copied below)
    k = mm.group(1)
    if only and only != k:
        continue
    d = f"{V}/{dest}/{cid}-{int(k) + off}"
    os.makedirs(d, exist_ok=True)
    shutil.copy(pf, d + "/patch.diff")
    for f in glob.glob(f"{src}/patch{k}[a-z].diff"):
        os.makedirs(f"{V}/{dest}/{cid}-{int(k) + off}", exist_ok=True)
        shutil.copy(f, f"{V}/{dest}/{cid}-{int(k) + off}/site_" + os.path.basename(f)[len("patch" + k):])
    for f in glob.glob(f"{src}/demo{k}*"):
        name = os.path.basename(f)
        if name.endswith("_test.go"):
            shutil.copy(f, d + "/demo_test.go")
        else:
            shutil.copy(f, d + "/" + name)
    m = json.load(open(f"{src}/meta{k}.json"))
    m["property"] = cid
    json.dump(m, open(d + "/meta.json", "w"), indent=1)
    print("==", d)
    subprocess.call([V + "/bin/seedcheck.py", d] + extra)
