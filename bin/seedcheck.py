#!/usr/bin/env python3
"""usage: bin/seedcheck.py <dir with patch.diff, demo_test.go, meta.json> [--checks C01,C02] [--tier quick|thorough] [--demo-cmd "..."]
Confirms a seeded property-breaking change in scratch copies of /repo (never in /repo itself):
  1. the patch applies, the project builds and the repository's tests (minus the two Perf tests) pass with it,
  2. the demonstration fails with the patch and passes without it,
  3. runs the named checks (default: the check of the property in meta.json) against the patched copy.
Writes the outcome into <dir>/confirm.json."""
import sys, os, json, subprocess, tempfile, shutil, re
d = os.path.abspath(sys.argv[1])
args = sys.argv[2:]
def opt(name, default=None):
    return args[args.index(name)+1] if name in args else default
meta = json.load(open(os.path.join(d, "meta.json")))
prop = meta.get("property")
checks = (opt("--checks") or meta.get("checks") or prop).split(",")  # meta "checks": a change that another property's check reports
tier = opt("--tier", "quick")
V = os.path.dirname(os.path.dirname(os.path.abspath(__file__)))
env = dict(os.environ, GOFLAGS="-mod=mod", GOPROXY="off", GOSUMDB="off", GOTOOLCHAIN="local")
demo = [f for f in os.listdir(d) if f.endswith("_test.go")]
res = {"property": prop, "tier": tier}
def run(cmd, cwd, timeout=600):
    try:
        r = subprocess.run(cmd, cwd=cwd, env=env, capture_output=True, text=True, timeout=timeout)
        return r.returncode, (r.stdout + r.stderr)[-3000:]
    except subprocess.TimeoutExpired:
        return 124, "timeout"
def scratch(patched):
    m = tempfile.mkdtemp(prefix="sipseed.", dir="/var/tmp")
    subprocess.check_call(["rsync", "-a", "--exclude", ".git", "--exclude", "/sipproxy", "/repo/", m + "/"])
    if patched:
        r = subprocess.run(["patch", "-s", "-p1", "-i", os.path.join(d, "patch.diff")], cwd=m, capture_output=True, text=True)
        if r.returncode != 0:
            res["patch_applies"] = False; res["patch_error"] = (r.stdout + r.stderr)[-1000:]
            return None
    return m
def demo_cmd(m):
    for f in demo: shutil.copy(os.path.join(d, f), m)
    names = []
    for f in demo:
        names += re.findall(r"func (Test\w+)\(", open(os.path.join(d, f)).read())
    cmd = ["go", "test", "-vet=off", "-count=1", "-run", "^(" + "|".join(names) + ")$", "."]
    if meta.get("demo_race") is not False and (meta.get("demo_race") or "-race" in (meta.get("how_verified", "") + meta.get("demo_cmd", ""))):
        cmd.insert(2, "-race")
    return cmd
mp = scratch(True)
try:
    if mp is None:
        print(json.dumps(res, indent=1)); sys.exit(1)
    res["patch_applies"] = True
    prev = {}
    if "--checks-only" in args and os.path.exists(os.path.join(d, "confirm.json")):
        # the change itself was confirmed before (build, repository tests, demonstration): only the checks are re-run
        prev = json.load(open(os.path.join(d, "confirm.json")))
        for k in ("builds", "repo_tests_pass_with_patch", "demo_fails_with_patch", "demo_passes_without_patch"):
            if k in prev: res[k] = prev[k]
    if not prev:
        rc, out = run(["go", "build", "-o", "/dev/null", "."], mp); res["builds"] = rc == 0
        rc, out = run(["go", "test", "-vet=off", "-count=1", "-skip", "Perf", "."], mp); res["repo_tests_pass_with_patch"] = rc == 0
        if rc != 0: res["repo_tests_output"] = out[-800:]
    if demo and not prev:
        rc, out = run(demo_cmd(mp), mp, 300); res["demo_fails_with_patch"] = rc != 0
        for f in demo: os.remove(os.path.join(mp, f))
        m0 = scratch(False)
        rc0, out0 = run(demo_cmd(m0), m0, 300); res["demo_passes_without_patch"] = rc0 == 0
        if rc0 != 0: res["demo_clean_output"] = out0[-800:]
        shutil.rmtree(m0, ignore_errors=True)
    res["checks"] = {}
    for c in checks:
        outdir = mp + "/.verifout"
        r = subprocess.run([os.path.join(V, "bin/check"), c, tier], env=dict(env, VERIF_REPO=mp, VERIF_OUT=outdir), capture_output=True, text=True)
        lines = [l for l in r.stdout.split("\n") if l.startswith(("VIOLATION", "HARNESS", "check "))]
        sigs = re.findall(r"--- violation (.*?) \(cases", r.stderr)
        res["checks"][c] = {"exit": r.returncode, "detected": r.returncode == 1, "violations": sigs[:6], "summary": [l for l in lines if l.startswith("check ")][:1]}
finally:
    if mp: shutil.rmtree(mp, ignore_errors=True)
json.dump(res, open(os.path.join(d, "confirm.json"), "w"), indent=1)
print(json.dumps(res, indent=1))
