#!/bin/bash
# usage: tryreplay.sh <seeded dir> <ID>: run the check against the patched copy, then replay its first violation there
V="$(cd "$(dirname "$0")/.." && pwd)"; D="$(cd "$1" && pwd)"; ID="$2"
S=$(mktemp -d /var/tmp/siprep.XXXXXX); trap 'rm -rf "$S"' EXIT
mkdir -p "$S/repo" "$S/out"
rsync -a --exclude .git --exclude /sipproxy /repo/ "$S/repo/"
(cd "$S/repo" && patch -s -p1 -i "$D/patch.diff") || exit 2
VERIF_REPO="$S/repo" VERIF_OUT="$S/out" $V/bin/check "$ID" quick > "$S/run.log" 2>&1
n=0
for f in $(grep -L '"tracked_finding": true' "$S"/out/replays/$ID/*.json 2>/dev/null | head -3); do
  n=$((n+1))
  VERIF_REPO="$S/repo" VERIF_OUT="$S/out2" $V/bin/check --replay "$f" > "$S/rep.log" 2>&1; rc=$?
  echo "$(basename $D) $ID replay $(basename $f | cut -c1-70): exit=$rc $(grep -E 'REPLAY|VIOLATION|HARNESS|reproduced|not reproduced' $S/rep.log | head -2 | cut -c1-160 | tr '\n' ' ')"
done
[ $n = 0 ] && echo "$(basename $D) $ID: no replay file"
