#!/usr/bin/env python3
"""usage: bin/mknumbers.py <log with 'check Cxx tier=... evaluations=... wall=...' lines> [more logs]
rewrites the quick / thorough columns of the table in DESIGN.md §4 from the summary lines of real runs"""
import re, sys, os
V = os.path.dirname(os.path.dirname(os.path.abspath(__file__)))
def human(n):
    n = int(n)
    if n >= 1_000_000: return f"{n/1e6:.2f} M".replace(".00", "")
    if n >= 10_000: return f"{n/1e3:.0f} k"
    if n >= 1_000: return f"{n/1e3:.1f} k"
    return str(n)
nums = {}
for f in sys.argv[1:]:
    for l in open(f, errors="replace"):
        m = re.match(r"check (C\d+) tier=(\w+) evaluations=(\d+) nontrivial=\d+ states=(\d+) transitions=(\d+) executions=(\d+) outcomes=\d+ exhaustive=(\w+) .*wall=([\d.]+)s", l)
        if m:
            cid, tier, ev, st, tr, ex, exh, wall = m.groups()
            t = f"{human(ev)} evaluations"
            if int(st): t += f", {human(st)} states"
            if int(tr): t += f", {human(tr)} transitions"
            t += f", {float(wall):.0f} s"
            if exh != "true": t += " (capped)"
            nums[(cid, tier)] = t
p = V + "/DESIGN.md"
out = []
for l in open(p):
    m = re.match(r"\| (C\d\d) \| ([^|]*) \| ([^|]*) \| ([^|]*) \| ([^|]*) \|$", l.rstrip("\n"))
    if m and ((m.group(1), "quick") in nums or (m.group(1), "thorough") in nums):
        cid, expl, q, t, lvl = m.groups()
        q = nums.get((cid, "quick"), q.strip()); t = nums.get((cid, "thorough"), t.strip())
        l = f"| {cid} | {expl.strip()} | {q} | {t} | {lvl.strip()} |\n"
    out.append(l)
open(p, "w").write("".join(out))
print(len(nums), "figures")
