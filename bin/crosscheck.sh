#!/bin/bash
# usage: bin/crosscheck.sh <dir with patch.diff> [tier]   - applies the patch to a scratch copy of /repo and runs EVERY check
# against it (one harness build with tag "all"); writes <dir>/cross.json: per check exit code and violation signatures.
# Used for the benign rounds (DESIGN.md §9): no check may alarm on a change that keeps the properties.
set -u
export GOFLAGS=-mod=mod GOPROXY=off GOSUMDB=off GOTOOLCHAIN=local
V="$(cd "$(dirname "$0")/.." && pwd)"
D="$(cd "$1" && pwd)"; TIER="${2:-quick}"
S=$(mktemp -d /var/tmp/sipcross.XXXXXX) || exit 2
trap 'rm -rf "$S"' EXIT
mkdir -p "$S/repo" "$S/src" "$S/gen" "$S/out"
rsync -a --exclude .git --exclude /sipproxy /repo/ "$S/repo/"
(cd "$S/repo" && patch -s -p1 -i "$D/patch.diff") || { echo '{"patch_applies": false}' > "$D/cross.json"; exit 1; }
rsync -a --exclude '*_test.go' "$S/repo/" "$S/src/"
"$V/build/instr" "$S/src" "$S/gen" || exit 2
cp "$S/src/go.mod" "$S/src/go.sum" "$S/gen/"
rsync -a "$V/rt/vrt/" "$S/gen/vrt/"
cp "$V"/harness/*.go "$S/gen/"
ALL=1
(cd "$S/gen" && go build -trimpath -tags verif,all -o "$S/h" . ) 2> "$S/build.log" || ALL=0
if [ $ALL = 1 ]; then
  (cd "$S/gen" && go build -trimpath -race -tags verif,all -o "$S/h.race" . ) 2>> "$S/build.log" || ALL=0
fi
echo "{" > "$S/cross.json"
first=1
# CROSS_IDS="C03 C07": only these checks (results are merged into an existing cross.json); CROSS_BUILD_ONLY=1: only the build
IDS="${CROSS_IDS:-C01 C02 C03 C04 C05 C06 C07 C08 C09 C10 C11 C12 C13 C14 C15 C16 C17 C18 C19 C20}"
if [ -n "${CROSS_BUILD_ONLY:-}" ]; then echo "$D all_build=$ALL (build only)"; exit $((1-ALL)); fi
for id in $IDS; do
  if [ $ALL = 1 ]; then
    VERIF_DIR="$V" VERIF_OUT="$S/out" VERIF_RACE_BIN="$S/h.race" "$S/h" run $id $TIER > "$S/$id.log" 2>&1; rc=$?
  else
    VERIF_REPO="$S/repo" VERIF_OUT="$S/out" "$V/bin/check" $id $TIER > "$S/$id.log" 2>&1; rc=$?
  fi
  sigs=$(grep -o '^VIOLATION property=[A-Z0-9]* replay=[^ ]*' "$S/$id.log" | sed 's/.*replays\///' | tr '\n' ' ')
  [ $first = 1 ] || echo "," >> "$S/cross.json"; first=0
  printf ' "%s": {"exit": %d, "violations": "%s"}' $id $rc "$sigs" >> "$S/cross.json"
  if [ $rc != 0 ]; then mkdir -p "$D/cross"; cp "$S/$id.log" "$D/cross/$id.log"; for f in $sigs; do cp "$S/out/replays/$f" "$D/cross/" 2>/dev/null; done; fi
done
echo "}" >> "$S/cross.json"
if [ -n "${CROSS_IDS:-}" ] && [ -f "$D/cross.json" ]; then
  python3 -c "
import json
a=json.load(open('$D/cross.json')); b=json.load(open('$S/cross.json')); a.update(b); json.dump(a,open('$D/cross.json','w'),indent=1)"
else
  cp "$S/cross.json" "$D/cross.json"
fi
python3 -c "
import json,sys
d=json.load(open('$D/cross.json'))
bad={k:v for k,v in d.items() if v['exit']!=0}
print('$D', 'all_build=$ALL', 'nonzero:', bad)
"
