#!/usr/bin/env python3
"""usage: bin/mut.py <ID>[,<ID>...] <tier> [--save name] < spec
spec:  FILE <name> / <<<< / old text / ==== / new text / >>>>   (repeatable)
Applies the replacements to a scratch copy of /repo, runs the repository's fast unit tests (optional, --tests)
and the named checks against the copy. Nothing is written to /repo."""
import sys, os, subprocess, tempfile, shutil, re
ids = sys.argv[1].split(","); tier = sys.argv[2]
run_tests = "--tests" in sys.argv
save = sys.argv[sys.argv.index("--save")+1] if "--save" in sys.argv else None
V = os.path.dirname(os.path.dirname(os.path.abspath(__file__)))
spec = sys.stdin.read()
M = tempfile.mkdtemp(prefix="sipmut.", dir="/var/tmp")
try:
    subprocess.check_call(["rsync", "-a", "--exclude", ".git", "--exclude", "/sipproxy", "/repo/", M + "/"])
    for m in re.finditer(r"FILE (\S+)\n<<<<\n(.*?)\n====\n(.*?)\n>>>>", spec, re.S):
        f, old, new = m.group(1), m.group(2), m.group(3)
        p = os.path.join(M, f); s = open(p).read()
        if s.count(old) != 1:
            print(f"mut: {f}: old text occurs {s.count(old)} times"); sys.exit(2)
        open(p, "w").write(s.replace(old, new))
    env = dict(os.environ, GOFLAGS="-mod=mod", GOPROXY="off", GOSUMDB="off", GOTOOLCHAIN="local")
    if save:
        d = subprocess.run(["diff", "-ruN", "--exclude=.git", "--exclude=sipproxy", "/repo", M], capture_output=True, text=True).stdout
        d = d.replace(M, "b").replace("/repo", "a")
        open(save, "w").write(d)
    if run_tests:
        r = subprocess.run(["go", "test", "-vet=off", "-count=1", "-skip", "Perf", "."], cwd=M, env=env, capture_output=True, text=True)
        print("repo tests:", "PASS" if r.returncode == 0 else "FAIL\n" + r.stdout[-2000:] + r.stderr[-2000:])
    for id in ids:
        r = subprocess.run([os.path.join(V, "bin/check"), id, tier], env=dict(env, VERIF_REPO=M, VERIF_OUT=M+"/.verifout"), capture_output=True, text=True)
        lines = [l for l in r.stdout.split("\n") if l.startswith(("VIOLATION", "KNOWN", "check ", "HARNESS"))]
        print(f"== {id}: exit {r.returncode}"); print("\n".join(lines[:8]))
        if "-v" in sys.argv: print(r.stderr[-3000:])
finally:
    shutil.rmtree(M, ignore_errors=True)
