#!/usr/bin/env python3
"""Writes /verif/MANIFEST.json from the table below (kept here so the manifest stays valid and current)."""
import json, os, sys
V = os.path.dirname(os.path.dirname(os.path.abspath(__file__)))
BASE = json.load(open("/root/.vp/BASELINE.json"))["cmd"] if os.path.exists("/root/.vp/BASELINE.json") else "cd /repo && go test -vet=off -count=1 ./..."

# id -> (level category, level text, level note, technique, design ref)
CHECKS = {}
def chk(id, cat, text, note, tech, ref):
    CHECKS[id] = dict(cat=cat, text=text, note=note, tech=tech, ref=ref)

TRUST = "Trusted base: Go toolchain (and race detector where used), the source-to-source instrumenter (validated by setup and by running the repository code unmodified in /repo), the simulated network/clock (vnet/vtime), the independent SIP reader and reference model in /verif/harness."

chk("C18", "exploration",
    "Exhaustive small-scope enumeration on the real FindRoute/NewPreRouteItem: every route table of <=4 (thorough <=5) entries over a 12-pattern universe x 14 hosts, each lookup executed under EVERY map iteration order (the order is an explorer choice point, all permutations), compared with an independent wildcard matcher; plus the complete port-rule table and end-to-end lookups by To host through a running proxy. Stability is therefore decided, not sampled.",
    TRUST + " Completeness is within the pattern/host universe.",
    "exhaustive enumeration of inputs x all map-iteration orders (stateless DFS over choice points) against a reference matcher", "§4 C18")

chk("C05", "model_checking",
    "Explicit-state breadth-first search to a FIXPOINT over the real RoundRobinBackend inside a running proxy (events add/remove/dispatch over 4-5 udp and tcp backend addresses; state = ordered list x cursor x map keys x proxy index): covers operation sequences of any length over the address universe; every reachable state is followed by a probe of 2k+1 dispatches checking the rotation window, registered-only targets and zero-backend behaviour. The concurrency half (dispatch racing with membership changes) is explored by the C09 schedule search.",
    TRUST + " Successor states are computed by replaying the shortest history on a fresh world (no cloning).",
    "explicit-state BFS by replay over the real objects, to a fixpoint", "§4 C05")
chk("C03", "exploration",
    "Complete product of the decision table (Route shape x next-hop URI host/port/transport/lr x To host x static table x Request-URI class x keep-next-hop x arrival transport x service names x backends x learning prelude), each cell executed on a fresh simulated world started through the real startProxy; because the simulated network holds every packet and connection attempt the proxy made until quiescence, 'exactly one destination and nothing else' is decided, not inferred from a timeout.",
    TRUST + " Regex semantics of service names: Go regexp in code and reference.",
    "exhaustive small-scope input enumeration on the real code in a deterministic simulation, reference decision procedure", "§4 C03")
chk("C13", "exploration",
    "Complete product: first Route entry (own by address / alias / with and without port, near misses, other listeners and services, decorated own entries) x remaining list of 0-3 entries over an entry alphabet x every layout (all compositions into header lines) x keep-next-hop x arrival transport; the emitted Route list is decoded by an independent reader and compared component-wise with the reference list.",
    TRUST, "exhaustive small-scope input enumeration on the real code in a deterministic simulation, reference model", "§4 C13")
chk("C14", "exploration",
    "Every derivation of a bounded grammar per decoded type (SIP/SIPS URI, Via, From, To, Route, Record-Route, Request-URI, CSeq) on the real Parse*/String pairs: decode->encode compared component-wise with the generator's abstract value through an independent reader, encode-decode-encode idempotence, accessor values equal the denoted components. IPv6 references and user parts with ';'/'?' are generated and tracked as known findings.",
    TRUST, "exhaustive enumeration of grammar derivations (pure functions), round-trip and accessor laws", "§4 C14")

chk("C01", "exploration",
    "Two complete products on fresh simulated worlds: (A) content - all sequences of 0-2 (thorough 0-3) extension headers over an 18-shape alphabet x position x 7 body classes (up to 60 KiB of all byte values) x Content-Length spelling x {request to backend, response, request by Route over TCP}; (B) paths - {backend, Route, static, response} x arrival x departure transport x listener configuration x 14 Request-URI forms x methods/status codes; the emission is decoded by an independent reader and compared field by field (name bytes, value, multiplicity, order), single Content-Length = body bytes, body identical, exactly one emission.",
    TRUST, "exhaustive small-scope input enumeration on the real code in a deterministic simulation, independent reader as oracle", "§4 C01")
chk("C02", "model_checking",
    "(inputs) complete product over the routing Via entry (transport x host x port x received x rport forms x parameters, plus undecodable shapes) x further entries x EVERY layout x name spelling x status class x arrival transport; (histories) explicit-state BFS by replay over three concurrent transactions (UDP/TCP user agents and backends, 180/200/retransmissions in every order) to depth 6 (thorough 8) with received-support on/off: each relayed response must reach the hop that sent the request with exactly the Via stack that hop sent.",
    TRUST + " BFS successors by replay on fresh worlds; state key = model state + transport table + dialog table + rotation cursor.",
    "exhaustive input enumeration + explicit-state BFS over event histories on the real code", "§4 C02")
chk("C06", "exploration",
    "Complete product: path x how the next hop was learned (7 learning histories incl. through the other listens entry and re-learning) x must-record-route x listener set x 0-4 (0-6) Via entries in layouts x 0-3 (0-4) Record-Route entries in layouts x header positions; oracle: exactly one new top Via naming the (learned) listener with a fresh z9hG4bK branch, existing entries intact beneath, Record-Route by policy; plus a 20000-request freshness run through one world.",
    TRUST + " uuid randomness replaced by a deterministic bijective stream, so a repeated branch cannot be a chance event.",
    "exhaustive small-scope enumeration of inputs x learning histories on the real code", "§4 C06")
chk("C07", "exploration",
    "Complete product through the REAL main() and a YAML file: no-received {absent,false,true} x arrival {UDP, accepted TCP, TCP connection dialled by the proxy to a backend} x true source vs Via sent-by x rport {absent, valueless, spoofed} x received {absent, spoofed} x Via layout x path; then the next hop answers and the response is followed to the packet's true source (address/port or connection).",
    TRUST + " Configuration wiring is exercised because the world is started by the program's own main().",
    "exhaustive configuration x input enumeration through the real entry point in a deterministic simulation", "§4 C07")
chk("C16", "exploration",
    "All assignments of Call-ID x tags x URIs from small alphabets (equal URIs, equal tags, '-' inside values, tel/urn), each in both orientations, as request and response, with every decoration (thorough: every subset): the partition induced by GetDialog() must equal the partition induced by the reference key - decided for all ~10^10 pairs by hashing both keys.",
    TRUST, "exhaustive enumeration, partition comparison against a reference key", "§4 C16")
chk("C17", "exploration",
    "Metamorphic: 10 scenarios (all relaying paths, pin by response, in-dialog request, pin lifetime by Expires, NOTIFY terminated, SUBSCRIBE response) x every single respelling of every header of the subject message (thorough: every pair) x every re-layout of the Via/Route/Record-Route lists; base and variant runs on identically prepared worlds must agree on all destinations (incl. follow-up probes of the pin), decoded routing stacks, remaining fields, Content-Length and body.",
    TRUST, "exhaustive enumeration of spelling/layout variants, differential (metamorphic) oracle on the real code", "§4 C17")

ALL = ["C%02d" % i for i in range(1, 21)]
man = {
    "version": 1,
    "setup_cmd": "bin/setup",
    "hooks": {
        "guard": "verif",
        "enable": "No hook is committed to /repo: bin/check copies /repo's working tree to a scratch directory, rewrites it with /verif/instr (sync/time/net -> facades, go/chan/select/map-range -> controlled runtime) and builds it together with /verif/harness and /verif/rt using `go build -tags verif,<id>`.",
        "baseline_off_cmd": BASE,
        "source_commits": [],
        "add_only": True,
    },
    "engines": [
        {"name": "vrt", "path": "rt/vrt", "serves_properties": ALL, "kind_free_text": "controlled runtime: cooperative scheduler, virtual clock, simulated network/DNS, owned map order, choice points; stateless DFS with deviation bounding and explicit-state BFS by replay live in harness/zz_explore.go"},
        {"name": "instr", "path": "instr", "serves_properties": ALL, "kind_free_text": "type-aware source rewrite of a scratch copy of /repo (go/packages)"},
    ],
    "checks": [],
    "not_applicable": [],
    "notes": "All checks execute the real repository code (rebuilt from /repo's working tree on every invocation) inside a deterministic simulation and enumerate inputs / histories / fault patterns / schedules exhaustively within the bounds stated in each evidence file. KNOWN_FINDINGS.txt lists recorded and fixed defects.",
}
for id in ALL:
    if id in CHECKS:
        c = CHECKS[id]
        man["checks"].append({
            "property_id": id,
            "quick_cmd": f"bin/check {id} quick",
            "thorough_cmd": f"bin/check {id} thorough",
            "evidence_file": f"evidence/{id}.json",
            "replay_cmd_template": "bin/check --replay {path}",
            "engine": "vrt",
            "level_claimed": {"category": c["cat"], "text": c["text"], "design_ref": c["ref"]},
            "level_note": c["note"],
            "technique": c["tech"],
        })
    else:
        man["not_applicable"].append({"property_id": id, "reason": "check not built yet (work in progress; see DESIGN.md §4 for the planned model-checking harness)"})
json.dump(man, open(os.path.join(V, "MANIFEST.json"), "w"), indent=1)
print("MANIFEST.json:", len(man["checks"]), "checks,", len(man["not_applicable"]), "not applicable")
