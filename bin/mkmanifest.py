#!/usr/bin/env python3
"""Writes /verif/MANIFEST.json from the table below (kept here so the manifest stays valid and current)."""
import json, os, sys
V = os.path.dirname(os.path.dirname(os.path.abspath(__file__)))
BASE = json.load(open("/root/.vp/BASELINE.json"))["cmd"] if os.path.exists("/root/.vp/BASELINE.json") else "cd /repo && go test -vet=off -count=1 ./..."

# id -> (level category, level text, level note, technique, design ref)
CHECKS = {}
def chk(id, cat, text, note, tech, ref):
    CHECKS[id] = dict(cat=cat, text=text, note=note, tech=tech, ref=ref)

TRUST = "Trusted base: Go toolchain (and race detector where used), the source-to-source instrumenter (validated by setup and by running the repository code unmodified in /repo), the simulated network/clock (vnet/vtime), the independent SIP reader and reference model in /verif/harness."

chk("C18", "exploration",
    "Exhaustive small-scope enumeration on the real FindRoute/NewPreRouteItem: every route table of <=4 (thorough <=5) entries over a 12-pattern universe x 14 hosts, each lookup executed under EVERY map iteration order (the order is an explorer choice point, all permutations), compared with an independent wildcard matcher; plus the complete port-rule table and end-to-end lookups by To host through a running proxy. Stability is therefore decided, not sampled.",
    TRUST + " Completeness is within the pattern/host universe.",
    "exhaustive enumeration of inputs x all map-iteration orders (stateless DFS over choice points) against a reference matcher", "§4 C18")

ALL = ["C%02d" % i for i in range(1, 21)]
man = {
    "version": 1,
    "setup_cmd": "bin/setup",
    "hooks": {
        "guard": "verif",
        "enable": "No hook is committed to /repo: bin/check copies /repo's working tree to a scratch directory, rewrites it with /verif/instr (sync/time/net -> facades, go/chan/select/map-range -> controlled runtime) and builds it together with /verif/harness and /verif/rt using `go build -tags verif,<id>`.",
        "baseline_off_cmd": BASE,
        "source_commits": [],
        "add_only": True,
    },
    "engines": [
        {"name": "vrt", "path": "rt/vrt", "serves_properties": ALL, "kind_free_text": "controlled runtime: cooperative scheduler, virtual clock, simulated network/DNS, owned map order, choice points; stateless DFS with deviation bounding and explicit-state BFS by replay live in harness/zz_explore.go"},
        {"name": "instr", "path": "instr", "serves_properties": ALL, "kind_free_text": "type-aware source rewrite of a scratch copy of /repo (go/packages)"},
    ],
    "checks": [],
    "not_applicable": [],
    "notes": "All checks execute the real repository code (rebuilt from /repo's working tree on every invocation) inside a deterministic simulation and enumerate inputs / histories / fault patterns / schedules exhaustively within the bounds stated in each evidence file. KNOWN_FINDINGS.txt lists recorded and fixed defects.",
}
for id in ALL:
    if id in CHECKS:
        c = CHECKS[id]
        man["checks"].append({
            "property_id": id,
            "quick_cmd": f"bin/check {id} quick",
            "thorough_cmd": f"bin/check {id} thorough",
            "evidence_file": f"evidence/{id}.json",
            "replay_cmd_template": "bin/check --replay {path}",
            "engine": "vrt",
            "level_claimed": {"category": c["cat"], "text": c["text"], "design_ref": c["ref"]},
            "level_note": c["note"],
            "technique": c["tech"],
        })
    else:
        man["not_applicable"].append({"property_id": id, "reason": "check not built yet (work in progress; see DESIGN.md §4 for the planned model-checking harness)"})
json.dump(man, open(os.path.join(V, "MANIFEST.json"), "w"), indent=1)
print("MANIFEST.json:", len(man["checks"]), "checks,", len(man["not_applicable"]), "not applicable")
