#!/usr/bin/env python3
"""Writes /verif/MANIFEST.json from the table below (kept here so the manifest stays valid and current)."""
import json, os, sys
V = os.path.dirname(os.path.dirname(os.path.abspath(__file__)))
BASE = json.load(open("/root/.vp/BASELINE.json"))["cmd"] if os.path.exists("/root/.vp/BASELINE.json") else "cd /repo && go test -vet=off -count=1 ./..."

# id -> (level category, level text, level note, technique, design ref)
CHECKS = {}
def chk(id, cat, text, note, tech, ref):
    CHECKS[id] = dict(cat=cat, text=text, note=note, tech=tech, ref=ref)

TRUST = "Trusted base: Go toolchain (and race detector where used), the source-to-source instrumenter (validated by setup and by running the repository code unmodified in /repo), the simulated network/clock (vnet/vtime), the independent SIP reader and reference model in /verif/harness."

chk("C18", "exploration",
    "Exhaustive small-scope enumeration on the real FindRoute/NewPreRouteItem: every route table of <=4 (thorough <=5) entries over a 13-pattern universe x 14 hosts, each lookup executed under EVERY map iteration order (the order is an explorer choice point, all permutations), compared with an independent wildcard matcher; plus the complete port-rule table and end-to-end lookups by To host through a running proxy. Stability is therefore decided, not sampled.",
    TRUST + " Completeness is within the pattern/host universe.",
    "exhaustive enumeration of inputs x all map-iteration orders (stateless DFS over choice points) against a reference matcher", "§4 C18")

chk("C05", "model_checking",
    "Explicit-state breadth-first search to a FIXPOINT over the real RoundRobinBackend inside a running proxy (events add/remove/dispatch over 4-5 udp and tcp backend addresses; state = ordered list x cursor x map keys x proxy index): covers operation sequences of any length over the address universe; every reachable state is followed by a probe of 2k+1 dispatches checking the rotation window, registered-only targets and zero-backend behaviour. The concurrency half (dispatch racing with membership changes) is explored by the C09 schedule search.",
    TRUST + " Successor states are computed by replaying the shortest history on a fresh world (no cloning).",
    "explicit-state BFS by replay over the real objects, to a fixpoint", "§4 C05")
chk("C03", "exploration",
    "Complete product of the decision table (Route shape x next-hop URI host/port/transport/lr x To host x static table x Request-URI class x keep-next-hop x arrival transport x service names x backends x learning prelude), each cell executed on a fresh simulated world started through the real startProxy; because the simulated network holds every packet and connection attempt the proxy made until quiescence, 'exactly one destination and nothing else' is decided, not inferred from a timeout.",
    TRUST + " Regex semantics of service names: Go regexp in code and reference.",
    "exhaustive small-scope input enumeration on the real code in a deterministic simulation, reference decision procedure", "§4 C03")
chk("C13", "exploration",
    "Complete product: first Route entry (own by address / alias / with and without port, near misses, other listeners and services, decorated own entries) x remaining list of 0-3 entries over an entry alphabet x every layout (all compositions into header lines) x keep-next-hop x arrival transport; the emitted Route list is decoded by an independent reader and compared component-wise with the reference list.",
    TRUST, "exhaustive small-scope input enumeration on the real code in a deterministic simulation, reference model", "§4 C13")
chk("C14", "exploration",
    "Every derivation of a bounded grammar per decoded type (SIP/SIPS URI, Via, From, To, Route, Record-Route, Request-URI, CSeq) on the real Parse*/String pairs: decode->encode compared component-wise with the generator's abstract value through an independent reader, encode-decode-encode idempotence, accessor values equal the denoted components. IPv6 references and user parts with ';'/'?' are generated and tracked as known findings.",
    TRUST, "exhaustive enumeration of grammar derivations (pure functions), round-trip and accessor laws", "§4 C14")

chk("C01", "exploration",
    "Two complete products on fresh simulated worlds: (A) content - all sequences of 0-2 (thorough 0-3) extension headers over an 18-shape alphabet x position x 7 body classes (up to 60 KiB of all byte values) x Content-Length spelling x {request to backend, response, request by Route over TCP}; (B) paths - {backend, Route, static, response} x arrival x departure transport x listener configuration x 14 Request-URI forms x methods/status codes; the emission is decoded by an independent reader and compared field by field (name bytes, value, multiplicity, order), single Content-Length = body bytes, body identical, exactly one emission.",
    TRUST, "exhaustive small-scope input enumeration on the real code in a deterministic simulation, independent reader as oracle", "§4 C01")
chk("C02", "model_checking",
    "(inputs) complete product over the routing Via entry (transport x host x port x received x rport forms x parameters, plus undecodable shapes) x further entries x EVERY layout x name spelling x status class x arrival transport; (histories) explicit-state BFS by replay over three concurrent transactions (UDP/TCP user agents and backends, 180/200/retransmissions in every order) to depth 6 (thorough 8) with received-support on/off: each relayed response must reach the hop that sent the request with exactly the Via stack that hop sent.",
    TRUST + " BFS successors by replay on fresh worlds; state key = model state + transport table + dialog table + rotation cursor.",
    "exhaustive input enumeration + explicit-state BFS over event histories on the real code", "§4 C02")
chk("C06", "exploration",
    "Complete product: path x how the next hop was learned (7 learning histories incl. through the other listens entry and re-learning) x must-record-route x listener set x 0-4 (0-6) Via entries in layouts x 0-3 (0-4) Record-Route entries in layouts x header positions; oracle: exactly one new top Via naming the (learned) listener with a fresh z9hG4bK branch, existing entries intact beneath, Record-Route by policy; plus a 20000-request freshness run through one world.",
    TRUST + " uuid randomness replaced by a deterministic bijective stream, so a repeated branch cannot be a chance event.",
    "exhaustive small-scope enumeration of inputs x learning histories on the real code", "§4 C06")
chk("C07", "exploration",
    "Complete product through the REAL main() and a YAML file: no-received {absent,false,true} x arrival {UDP, accepted TCP, TCP connection dialled by the proxy to a backend} x true source vs Via sent-by x rport {absent, valueless, spoofed} x received {absent, spoofed} x Via layout x path; then the next hop answers and the response is followed to the packet's true source (address/port or connection).",
    TRUST + " Configuration wiring is exercised because the world is started by the program's own main().",
    "exhaustive configuration x input enumeration through the real entry point in a deterministic simulation", "§4 C07")
chk("C16", "exploration",
    "All assignments of Call-ID x tags x URIs from small alphabets (equal URIs, equal tags, '-' inside values, tel/urn), each in both orientations, as request and response, with every decoration (thorough: every subset): the partition induced by GetDialog() must equal the partition induced by the reference key - decided for all ~10^10 pairs by hashing both keys.",
    TRUST, "exhaustive enumeration, partition comparison against a reference key", "§4 C16")
chk("C17", "exploration",
    "Metamorphic: 10 scenarios (all relaying paths, pin by response, in-dialog request, pin lifetime by Expires, NOTIFY terminated, SUBSCRIBE response) x every single respelling of every header of the subject message (thorough: every pair) x every re-layout of the Via/Route/Record-Route lists; base and variant runs on identically prepared worlds must agree on all destinations (incl. follow-up probes of the pin), decoded routing stacks, remaining fields, Content-Length and body.",
    TRUST, "exhaustive enumeration of spelling/layout variants, differential (metamorphic) oracle on the real code", "§4 C17")

chk("C04", "model_checking",
    "Explicit-state BFS by replay over histories (depth 6, thorough 8) of two INVITE dialogs and one backend-issued SUBSCRIBE dialog over three backends: unrelated requests, establishing responses (180 with Expires / 200 / 486) from the chosen backend's address, in-dialog requests of 8 methods in both directions, backend-issued SUBSCRIBE and its answer; four identifier flavours (plain, '-' in tags with equal decorated URIs, tel:/urn: parties, TCP backends). Every in-dialog request must reach exactly the answering backend, every other request exactly one registered backend.",
    TRUST + " State key = reference pins + dialog table + rotation cursor (client-transaction entries excluded with a soundness argument in the evidence).",
    "explicit-state BFS over event histories on the real code, reference pin map", "§4 C04")
chk("C08", "exploration",
    "Complete enumerations over a 12-message corpus on UDP and TCP, each followed by a sentinel request: every prefix, every single-byte substitution / insertion / deletion at every offset, every field-level hostile substitution (thorough: every pair), size extremes up to 64 KiB; oracle: no panic in any proxy goroutine, no deadlock or stall, allocation bounded by 1 MiB + 256 x input length, sentinel relayed afterwards. Workers run under an address-space limit with a write-ahead journal so that an unrecoverable runtime abort is attributed to its input and the enumeration resumes.",
    TRUST + " The coverage-guided half of the quantifier belongs to another technique family and is not claimed.",
    "exhaustive enumeration of truncations, single edits and hostile field values through the whole pipeline in a deterministic simulation", "§4 C08")
chk("C10", "model_checking",
    "All sequences of 1-3 (thorough 1-4) datagrams over a 12-shape alphabet (truncated at every structural place, over/under-declared lengths, 60 KiB, two-in-one), delivered with quiescence in between (LIFO pool recycles the dirty buffer) and back-to-back, from one and two sources; differential oracle against the same datagram alone on a fresh world, plus never-relay for incomplete datagrams; plus (race tier) every interleaving of the receive/parse/loop goroutines with <=2 deviations under the Go race detector.",
    TRUST, "exhaustive history enumeration with differential oracle + deviation-bounded schedule search under the race detector", "§4 C10")
chk("C11", "exploration",
    "Streams of 1-3 (thorough 1-5, plus a fixed 8-message stream) messages over 17 shapes through the REAL TCPServerTransport.receiveMessage on a simulated connection; segmentations: none, 1-byte segments, ALL single cuts and ALL pairs of cuts for short streams, all single cuts plus all pairs around line ends / body boundaries / 4096-multiples for long ones; and the single cuts end to end through a full proxy. The delivered message list must equal the sent list for every segmentation.",
    TRUST + " A short read equals an additional cut.", "exhaustive enumeration of segmentations on the real receive loop", "§4 C11")
chk("C12", "model_checking",
    "Explicit-state BFS by replay (depth 6 / 2 connections; thorough depth 7 / 3 connections): request and 180/200/second-200 events of two transactions per connection in every order, crossed with 40 flavours (received on/off x Via sent-by same/different/host-table name/unknown name/true port x rport x UDP/TCP backends): every provisional and first final response is written on the request's connection, on no other, without dialling; plus (race tier) schedules of the per-connection receive goroutines.",
    TRUST, "explicit-state BFS over event histories on the real code + schedule search", "§4 C12")
chk("C15", "model_checking",
    "Explicit-state BFS by replay on the VIRTUAL clock (dialogTimeout 10 s via YAML, via DEFAULT_DIALOG_TIMEOUT and via the real main()): establishing responses with Expires none/5/30/2^31-1, probes of 4 consecutive in-dialog requests, BYE answered 200/481/503, NOTIFY active/terminated/terminated;reason, clock steps, unrelated traffic with huge Expires; pinned before the earliest, load-balanced after the latest promised expiry or after termination; table invariant under continuous traffic; two 200-dialog long runs (one poisoned by a huge Expires).",
    TRUST + " Expiry is decided on the virtual clock only (no wall-clock oracle).", "explicit-state BFS over event/clock histories on the real code with a virtual clock", "§4 C15")
chk("C19", "model_checking",
    "Explicit-state BFS by replay TO A FIXPOINT over resolution outcomes (failure, every non-empty subset of 3-4 addresses in two orders) for one host name, udp and tcp backends, successful and failed initial resolution, and to depth 4-5 for two host names feeding one rotation; the real periodic resolver goroutine is driven by virtual-clock steps; after every step dispatches reach exactly the resolved set, the attribution index equals it, fabricated responses bind a dialog iff their source is a current backend, vanished backends are closed.",
    TRUST + " LookupIP answers are scripted (simulated DNS).", "explicit-state BFS to a fixpoint over scripted environment answers on the real resolver/rotation/proxy", "§4 C19")
chk("C20", "fault_enumeration",
    "The complete fault product as environment answers: cached inbound connection {absent, healthy, reset before send 0/1/2} x reconnectable path {fresh, stale, absent} x every dial plan of up to three outcomes over {accepted, refused, accepted-but-writes-fail} x working connection reset before send 0/1/2 x 1-3 sends, for the fail-over transport obtained from the real ClientTransportMgr, a directly built one, TCPBackend, and end to end (responses to a TCP client, requests to a TCP backend): nil iff exactly one complete delivery, success whenever a path works, no write on a failed connection, no needless dial, no hang, no crash.",
    TRUST + " A write on a reset connection fails at once (kernel-delayed RST is outside the model).", "exhaustive fault-pattern enumeration through a simulated network with scripted dial/write faults", "§4 C20")

chk("C09", "model_checking",
    "Stateless depth-first search over schedules with deviation bounding of the REAL proxy built with -race: two listens entries of one service with UDP+TCP listeners and UDP/TCP backends (one by host name), UDP and TCP clients, reactive backend doubles, and a membership change through the real resolver callback path, injected without waiting; scenarios two-clients (<=2 deviations, thorough <=3), three-clients (shared learned-route keys), tcp-backend-churn (host-name TCP backend connected, removed and replaced under traffic). Every enumerated execution is checked by a packet-log oracle (one backend of the own listener per request, response back at the sender, no crash/deadlock) AND by the Go race detector, which sees exactly the program's own synchronisation because the scheduler's hand-off is a norace spin.",
    TRUST + " Scheduling points = synchronisation operations, select, socket reads; unsynchronised accesses are reported by the race detector on every explored execution; socket operations carry the happens-before edges the Go runtime gives them on unix.",
    "deviation-bounded stateless schedule exploration (CHESS style) of the real code under the Go race detector", "§4 C09")

# passes added after the first version of a check (DESIGN.md §2.4); appended to the level text
EXTRA = {
 "C01": "Second passes: all cases of a configuration class through ONE long-lived world (aged worlds), a t-way pass over the declared reductions of the product, an environment fault on TCP departures (partial write), and the call-flow pass (12 canonical SIP flows x 14 configurations, every relayed message compared with the message of its step).",
 "C02": "Second passes: aged worlds, t-way pass over the declared reductions, configuration and body-size features, call-flow pass (exactly one copy of every response at the expected side with the Via stack the request had).",
 "C03": "Second passes: aged worlds, t-way pass over the declared reductions, multi-destination and exact-under-wildcard static entries, large requests, call-flow pass (every request of 12 canonical flows at exactly one expected destination, incl. a call that leaves by a static route). Round 7: a name list without any @ whose pattern depends on the user (three users on one host) and spiralled requests (a lower Via names the listener).",
 "C04": "Plus a timed BFS (process older than the dialog timeout), a volume run (12000-60000 unrelated requests) and the call-flow pass (in-dialog requests of every flow at the answering backend).",
 "C05": "Plus every configured backend list over a 6-URL universe (same host:port over both transports, host-name entry), a two-removers schedule scenario, and the call-flow pass (dialog-less requests walk the rotation).",
 "C06": "Plus a many-peers run (a next hop first seen after thousands of peers is still learned), the pinned-backend-gone scenario and the call-flow pass (one fresh Via, Record-Route by policy on every request of every flow).",
 "C07": "Plus a second listens entry with the opposite setting, long parameter lists, source port 65535, mixed compact / full Via lines, and the call-flow pass (every relayed request of every flow stamped with its true source). Round 7: the same transaction a moment earlier from another source port.",
 "C08": "Plus TCP cases after a valid request on the same connection, a soak run of hundreds to thousands of hostile connections through one proxy, and configurations with omitted optional keys. Round 7: extra header lines with hostile names (bytes >= 0x80, NUL, empty, 70000 bytes); size extremes dealt to the workers in sorted order.",
 "C09": "Further scenarios: shrink / shrink-first (with a stable period), named-hops, static-routes (shared static route table), connections-lost; every replayed prefix is validated against its parent's choice points.",
 "C10": "Plus a size sweep around every power of two (thorough: every length 400..4200), empty datagrams and leading-CRLF shapes, two UDP listeners receiving at once (race tier), and the call-flow pass over UDP. Round 7: different datagrams with one and the same branch.",
 "C11": "Shapes now include LF-terminated long lines and Content-Length written with leading zeros.",
 "C12": "Plus prefix-related branches, busy periods and unanswered load beyond 1024 entries, slow answers under short dialog timeouts, answers from a foreign port with joined Via, a DNS-only sent-by name, the call-flow pass, and a two-listens-entries scenario recorded as a tracked finding. Round 7: clients on a backend's host that announce the backend's listening address.",
 "C13": "Plus an address-less listener, an unresolvable first entry, ports with leading zeros, aged worlds and the declared-reduction t-way pass.",
 "C14": "Plus decode independence (a decoded value consumed / stamped the way the proxy does must not show in other decodes of the same text) and ports written with leading zeros.",
 "C15": "Plus 6xx BYE answers, Expires with a leading zero, populations of 6000-30000 dialogs, dialogs re-established while a purge is under way, and the call-flow pass. Round 7: a plan with dialogTimeout 40 s and rejected re-INVITEs, a long run that resumes after a quiet spell; the purge invariant is stated over ongoing traffic.",
 "C16": "Plus 12000-60000 further dialogs followed by a complete second enumeration (identifiers must not change over time), pairs of host spellings through a running proxy with a hosts section, and the call-flow pass (in-dialog OPTIONS / MESSAGE … at the answering backend). Round 7: an escaped colon in the user against user + password.",
 "C17": "Plus every canonical call flow with two Via values on separate lines against the same flow with the values comma-joined (step by step the same destinations). Round 7: a route set that names the listener twice.",
 "C18": "Plus lookup sequences on ONE table instance (forwards, hundreds to thousands of other hosts, backwards), inner-wildcard overlap hosts, and YAML entries with several destinations.",
 "C19": "Plus backend lists ending with a static entry of the other transport, suffix/prefix-related addresses, a transaction in flight across the last step, and one host name under both transports (tracked finding). Round 7: rotation membership also by multiplicity; one host name feeding the rotations of two listens entries (found the resolver defect fixed in 828009b) and a second entry that cannot bind; the same-name search continues past its tracked violations.",
 "C20": "Plus partial-write faults, encoded lengths around 64 KiB, and a configured backend-local-port with a bind-conflict model.",
}
# round 8 (two cooperating sites; interleaving / fault / time at a particular point)
FLOWS8 = " Round 8: every call flow again with one behaviour-neutral environment event (clock steps, dropped traffic, TCP visitors, keep-alives, resolver rounds) before each of its injections, and the concurrent flow pass: two flows at once through one proxy (other transport / second listens entry / TCP connection opened with the first message), every schedule with at most one deviation, same per-flow oracles."
ROUND8 = {
 "C01": "Content-Length written with blanks before the colon." + FLOWS8,
 "C02": "A sent-by host name that only the DNS knows." + FLOWS8,
 "C03": "A literal static-route entry written with capitals." + FLOWS8,
 "C04": "The subscriber's first NOTIFY overtaking its 200." + FLOWS8,
 "C05": FLOWS8.strip(),
 "C06": "Connection churn on a TCP listener with TCP backends (32 variants): later requests are stamped like the first." + FLOWS8,
 "C07": FLOWS8.strip(),
 "C09": "Round 8: scenario clients-hang-up (a client and a dialled TCP backend hang up while loops handle what their connections carried) and the concurrent flow pass (two call flows at once; quick: every flow next to the basic call x 4 variants with a second listens entry or a lazily opened connection; thorough: 144 pairs x 6 variants) under the race detector.",
 "C10": FLOWS8.strip(),
 "C11": "Round 8: the sender stalls for two hours of virtual time at a cut (direct and end to end), with read deadlines modelled on the virtual clock.",
 "C12": "Senders that pre-fill rport with a value." + FLOWS8,
 "C13": "Round 8: a listens entry with backend-local-address; a first Route entry whose DNS-only host name moves between the listener, another host and nothing (27 histories, requests every 5 / 12 / 25 s, judged more than a minute after a change; differential against a proxy started in that state).",
 "C14": "Round 8: sip / sips schemes written with capitals.",
 "C15": "The answer to a BYE that cannot be delivered (TCP caller gone) still dissolves the pin." + FLOWS8,
 "C16": "Round 8: upper-case compact names in the quick tier; environment events between flow steps (the concurrent pass is left to C04 / C15, same oracle).",
 "C18": "Round 8: end-to-end tables preceded by an entry whose next hop does not parse; a literal with capitals.",
 "C19": "Round 8: schedule search (<=3, thorough <=4 deviations) over a second registration for the name at the moment a changed answer is due.",
 "C20": "Round 8: write faults on the UDP path (datagram too long once the Via is added), then ordinary traffic.",
}
for _id, _x in ROUND8.items():
    EXTRA[_id] += " " + _x
# state keys and white-box clauses read private state through harness/zz_priv.go (by name, then by shape, at run time)
for _id in ("C02", "C04", "C05", "C12", "C15", "C19"):
    EXTRA[_id] += " Private state is read reflectively (by name, then by shape): a restructured table does not stop the check from building."
for _id, _x in EXTRA.items():
    CHECKS[_id]["text"] += " " + _x

ALL = ["C%02d" % i for i in range(1, 21)]
man = {
    "version": 1,
    "setup_cmd": "bin/setup",
    "hooks": {
        "guard": "verif",
        "enable": "No hook is committed to /repo: bin/check copies /repo's working tree to a scratch directory, rewrites it with /verif/instr (sync/time/net -> facades, go/chan/select/map-range -> controlled runtime) and builds it together with /verif/harness and /verif/rt using `go build -tags verif,<id>`.",
        "baseline_off_cmd": BASE,
        "source_commits": [],
        "add_only": True,
    },
    "engines": [
        {"name": "vrt", "path": "rt/vrt", "serves_properties": ALL, "kind_free_text": "controlled runtime: cooperative scheduler, virtual clock, simulated network/DNS, owned map order, choice points; stateless DFS with deviation bounding and explicit-state BFS by replay live in harness/zz_explore.go"},
        {"name": "instr", "path": "instr", "serves_properties": ALL, "kind_free_text": "type-aware source rewrite of a scratch copy of /repo (go/packages)"},
    ],
    "checks": [],
    "not_applicable": [],
    "notes": "All checks execute the real repository code (rebuilt from /repo's working tree on every invocation) inside a deterministic simulation and enumerate inputs / histories / fault patterns / schedules exhaustively within the bounds stated in each evidence file. KNOWN_FINDINGS.txt lists recorded and fixed defects.",
}
for id in ALL:
    if id in CHECKS:
        c = CHECKS[id]
        man["checks"].append({
            "property_id": id,
            "quick_cmd": f"bin/check {id} quick",
            "thorough_cmd": f"bin/check {id} thorough",
            "evidence_file": f"evidence/{id}.json",
            "replay_cmd_template": "bin/check --replay {path}",
            "engine": "vrt",
            "level_claimed": {"category": c["cat"], "text": c["text"], "design_ref": c["ref"]},
            "level_note": c["note"],
            "technique": c["tech"],
        })
    else:
        man["not_applicable"].append({"property_id": id, "reason": "check not built yet (work in progress; see DESIGN.md §4 for the planned model-checking harness)"})
json.dump(man, open(os.path.join(V, "MANIFEST.json"), "w"), indent=1)
print("MANIFEST.json:", len(man["checks"]), "checks,", len(man["not_applicable"]), "not applicable")
