// instr: build-time source rewrite of a scratch copy of ochinchina/sipproxy.
//
//	instr <srcdir> <dstdir>
//
// Loads and type-checks the package in <srcdir> and writes rewritten copies of its (non-test)
// files to <dstdir>. Nothing is written to <srcdir>. Rewrites (DESIGN.md §2.2):
//
//   - selected names of sync / time / net  -> facade packages vrt/vsync, vrt/vtime, vrt/vnet
//   - go f(a,b)                            -> vrt.Go(func(){ f0(a0,b0) }) with Go's evaluate-at-go semantics
//   - ch <- v, <-ch, v,ok := <-ch, close(ch), select, for range ch, len/cap(ch), make(chan T,n)
//   - for k, v := range m (m a map)        -> loop over vrt.MapIter(m) (owned iteration order)
//   - func main()                          -> func sipproxyMain()
//   - func NewT(...) *T                    -> wrapper that also calls vrt.Register(result)
//
// A construct the instrumenter cannot rewrite is a hard error (exit 2).
package main

import (
	"bytes"
	"fmt"
	"go/ast"
	"go/format"
	"go/token"
	"go/types"
	"os"
	"path/filepath"
	"strconv"
	"strings"

	"golang.org/x/tools/go/ast/astutil"
	"golang.org/x/tools/go/packages"
)

const modPath = "github.com/ochinchina/sipproxy"

// names of the real packages that are owned by the simulation
var override = map[string]map[string]bool{
	"sync": set("Mutex", "RWMutex", "WaitGroup", "Once", "Cond", "NewCond", "Locker"),
	"time": set("Now", "Sleep", "After", "AfterFunc", "NewTimer", "NewTicker", "Tick", "Since", "Until", "Timer", "Ticker"),
	"net": set("UDPConn", "TCPConn", "TCPListener", "ListenUDP", "ListenTCP", "Listen", "ListenPacket", "Dial", "DialTCP", "DialUDP",
		"DialTimeout", "LookupIP", "LookupHost", "LookupAddr", "LookupCNAME", "LookupSRV", "LookupPort", "ResolveUDPAddr", "ResolveTCPAddr", "ResolveIPAddr",
		"Dialer", "ListenConfig", "Resolver", "DefaultResolver", "FileConn", "FileListener", "Pipe"),
}

var facade = map[string]string{"sync": "vsync", "time": "vtime", "net": "vnet"}

func set(s ...string) map[string]bool {
	m := map[string]bool{}
	for _, x := range s {
		m[x] = true
	}
	return m
}

var info *types.Info
var fset *token.FileSet

func fatal(pos token.Pos, format string, a ...any) {
	fmt.Fprintf(os.Stderr, "HARNESS-BUILD-FAILED instr: %s: %s\n", fset.Position(pos), fmt.Sprintf(format, a...))
	os.Exit(2)
}

func main() {
	if len(os.Args) != 3 {
		fmt.Fprintln(os.Stderr, "usage: instr <srcdir> <dstdir>")
		os.Exit(2)
	}
	src, dst := os.Args[1], os.Args[2]
	cfg := &packages.Config{Mode: packages.NeedName | packages.NeedFiles | packages.NeedSyntax | packages.NeedTypes | packages.NeedTypesInfo | packages.NeedImports | packages.NeedDeps, Dir: src}
	pkgs, err := packages.Load(cfg, ".")
	if err != nil || len(pkgs) != 1 || len(pkgs[0].Errors) > 0 {
		fmt.Fprintln(os.Stderr, "HARNESS-BUILD-FAILED instr: load failed:", err)
		for _, p := range pkgs {
			for _, e := range p.Errors {
				fmt.Fprintln(os.Stderr, "  ", e)
			}
		}
		os.Exit(2)
	}
	p := pkgs[0]
	info = p.TypesInfo
	fset = p.Fset
	for _, file := range p.Syntax {
		name := filepath.Base(fset.Position(file.Pos()).Filename)
		rewriteFile(file)
		var buf bytes.Buffer
		if err := format.Node(&buf, fset, file); err != nil {
			fmt.Fprintln(os.Stderr, "HARNESS-BUILD-FAILED instr: format:", name, err)
			os.Exit(2)
		}
		if err := os.WriteFile(filepath.Join(dst, name), buf.Bytes(), 0644); err != nil {
			fmt.Fprintln(os.Stderr, "HARNESS-BUILD-FAILED instr:", err)
			os.Exit(2)
		}
	}
}

func vrtSel(name string) ast.Expr {
	return &ast.SelectorExpr{X: ast.NewIdent("vrt"), Sel: ast.NewIdent(name)}
}

var tmpN int

func tmp() *ast.Ident { tmpN++; return ast.NewIdent(fmt.Sprintf("vrt_t%d", tmpN)) }

func isLit(e ast.Expr) bool {
	switch x := e.(type) {
	case *ast.BasicLit:
		return true
	case *ast.Ident:
		return x.Name == "nil" || x.Name == "true" || x.Name == "false"
	}
	return false
}

func typeOf(e ast.Expr) types.Type {
	tv, ok := info.Types[e]
	if !ok {
		return nil
	}
	return tv.Type
}

func isMap(e ast.Expr) bool {
	t := typeOf(e)
	if t == nil {
		return false
	}
	_, m := t.Underlying().(*types.Map)
	return m
}

func isChan(e ast.Expr) bool {
	t := typeOf(e)
	if t == nil {
		return false
	}
	_, m := t.Underlying().(*types.Chan)
	return m
}

func isBuiltin(id *ast.Ident, name string) bool {
	if id.Name != name {
		return false
	}
	_, ok := info.Uses[id].(*types.Builtin)
	return ok
}

func blank(e ast.Expr) bool {
	if e == nil {
		return true
	}
	id, ok := e.(*ast.Ident)
	return ok && id.Name == "_"
}

func rewriteFile(file *ast.File) {
	usedVrt := false
	usedFacade := map[string]bool{}
	remaining := map[string]bool{} // real packages still referenced after the rewrite

	// pass 0: selector redirection sync/time/net -> facades
	ast.Inspect(file, func(n ast.Node) bool {
		se, ok := n.(*ast.SelectorExpr)
		if !ok {
			return true
		}
		id, ok := se.X.(*ast.Ident)
		if !ok {
			return true
		}
		pn, ok := info.Uses[id].(*types.PkgName)
		if !ok {
			return true
		}
		path := pn.Imported().Path()
		names, owned := override[path]
		if !owned {
			return true
		}
		if names[se.Sel.Name] {
			se.X = ast.NewIdent(facade[path])
			usedFacade[path] = true
		} else {
			remaining[path] = true
		}
		return true
	})

	// len(ch)/cap(ch): decided on the original nodes
	chanArg := map[*ast.CallExpr]bool{}
	ast.Inspect(file, func(n ast.Node) bool {
		if ce, ok := n.(*ast.CallExpr); ok && len(ce.Args) == 1 && isChan(ce.Args[0]) {
			chanArg[ce] = true
		}
		return true
	})

	// pass 1: statements and expressions. Decisions that need type information are taken in
	// pre-order (on the original nodes); all replacements happen in post-order, when the
	// children of a node have already been rewritten.
	rangeKind := map[*ast.RangeStmt]string{}
	labelPre := map[*ast.LabeledStmt][]ast.Stmt{}
	astutil.Apply(file, func(c *astutil.Cursor) bool {
		switch n := c.Node().(type) {
		case *ast.FuncDecl:
			if n.Recv == nil && n.Name.Name == "main" {
				n.Name = ast.NewIdent("sipproxyMain")
			}
		case *ast.RangeStmt:
			if isMap(n.X) {
				rangeKind[n] = "map"
			} else if isChan(n.X) {
				rangeKind[n] = "chan"
			}
		}
		return true
	}, func(c *astutil.Cursor) bool {
		switch n := c.Node().(type) {
		case *ast.LabeledStmt:
			if pre, ok := labelPre[n]; ok {
				c.Replace(&ast.BlockStmt{List: append(pre, n)})
			}
		case *ast.SelectStmt:
			usedVrt = true
			pre, sw := rewriteSelect(n)
			if ls, ok := c.Parent().(*ast.LabeledStmt); ok {
				labelPre[ls] = pre
				c.Replace(sw)
			} else {
				c.Replace(&ast.BlockStmt{List: append(pre, sw)})
			}
		case *ast.RangeStmt:
			switch rangeKind[n] {
			case "map":
				usedVrt = true
				c.Replace(rewriteMapRange(n))
			case "chan":
				usedVrt = true
				c.Replace(rewriteChanRange(n))
			}
		case *ast.GoStmt:
			usedVrt = true
			c.Replace(rewriteGo(n))
		case *ast.SendStmt:
			usedVrt = true
			c.Replace(&ast.ExprStmt{X: &ast.CallExpr{Fun: vrtSel("Send"), Args: []ast.Expr{n.Chan, n.Value}}})
		case *ast.UnaryExpr:
			if n.Op == token.ARROW {
				usedVrt = true
				name := "Recv"
				switch par := c.Parent().(type) {
				case *ast.AssignStmt:
					if len(par.Lhs) == 2 && len(par.Rhs) == 1 {
						name = "Recv2"
					}
				case *ast.ValueSpec:
					if len(par.Names) == 2 && len(par.Values) == 1 {
						name = "Recv2"
					}
				}
				c.Replace(&ast.CallExpr{Fun: vrtSel(name), Args: []ast.Expr{n.X}})
			}
		case *ast.CallExpr:
			id, ok := n.Fun.(*ast.Ident)
			if !ok {
				break
			}
			switch {
			case isBuiltin(id, "make") && len(n.Args) >= 1:
				if ct, ok := n.Args[0].(*ast.ChanType); ok {
					usedVrt = true
					var capExpr ast.Expr = &ast.BasicLit{Kind: token.INT, Value: "0"}
					if len(n.Args) > 1 {
						capExpr = n.Args[1]
					}
					if ct.Dir != ast.SEND|ast.RECV {
						fatal(n.Pos(), "make of a directional channel type is not supported")
					}
					c.Replace(&ast.CallExpr{Fun: &ast.IndexExpr{X: vrtSel("MakeChan"), Index: ct.Value}, Args: []ast.Expr{capExpr}})
				} else if t := typeOf(n.Args[0]); t != nil {
					if _, isCh := t.Underlying().(*types.Chan); isCh {
						fatal(n.Pos(), "make of a named channel type is not supported")
					}
				}
			case isBuiltin(id, "close") && len(n.Args) == 1:
				usedVrt = true
				c.Replace(&ast.CallExpr{Fun: vrtSel("Close"), Args: n.Args})
			case (isBuiltin(id, "len") || isBuiltin(id, "cap")) && len(n.Args) == 1 && chanArg[n]:
				usedVrt = true
				fn := "ChanLen"
				if id.Name == "cap" {
					fn = "ChanCap"
				}
				c.Replace(&ast.CallExpr{Fun: vrtSel(fn), Args: n.Args})
			}
		}
		return true
	})

	// pass 2: constructor registration. func NewT(...) *T  =>  vrtorig_NewT + wrapper.
	var extra []ast.Decl
	for _, d := range file.Decls {
		fd, ok := d.(*ast.FuncDecl)
		if !ok || fd.Recv != nil || fd.Body == nil || !strings.HasPrefix(fd.Name.Name, "New") || fd.Type.TypeParams != nil {
			continue
		}
		if fd.Type.Results == nil || len(fd.Type.Results.List) == 0 {
			continue
		}
		first := fd.Type.Results.List[0]
		if len(first.Names) > 1 {
			continue
		}
		star, ok := first.Type.(*ast.StarExpr)
		if !ok {
			continue
		}
		if _, ok := star.X.(*ast.Ident); !ok {
			continue
		}
		nres := 0
		for _, f := range fd.Type.Results.List {
			if len(f.Names) == 0 {
				nres++
			} else {
				nres += len(f.Names)
			}
		}
		// parameters: give every parameter a name
		var args []ast.Expr
		variadic := false
		var params []*ast.Field
		for _, f := range fd.Type.Params.List {
			nf := &ast.Field{Type: f.Type}
			if _, ok := f.Type.(*ast.Ellipsis); ok {
				variadic = true
			}
			if len(f.Names) == 0 {
				t := tmp()
				nf.Names = []*ast.Ident{t}
				args = append(args, t)
			} else {
				for _, nm := range f.Names {
					if nm.Name == "_" {
						t := tmp()
						nf.Names = append(nf.Names, t)
						args = append(args, t)
					} else {
						nf.Names = append(nf.Names, ast.NewIdent(nm.Name))
						args = append(args, ast.NewIdent(nm.Name))
					}
				}
			}
			params = append(params, nf)
		}
		var results []*ast.Field
		for _, f := range fd.Type.Results.List {
			n := len(f.Names)
			if n == 0 {
				n = 1
			}
			for i := 0; i < n; i++ {
				results = append(results, &ast.Field{Type: f.Type})
			}
		}
		orig := fd.Name.Name
		fd.Name = ast.NewIdent("vrtorig_" + orig)
		call := &ast.CallExpr{Fun: ast.NewIdent("vrtorig_" + orig), Args: args}
		if variadic {
			call.Ellipsis = token.Pos(1)
		}
		var lhs []ast.Expr
		for i := 0; i < nres; i++ {
			lhs = append(lhs, ast.NewIdent(fmt.Sprintf("vrt_r%d", i)))
		}
		body := []ast.Stmt{
			&ast.AssignStmt{Lhs: lhs, Tok: token.DEFINE, Rhs: []ast.Expr{call}},
			&ast.IfStmt{Cond: &ast.BinaryExpr{X: ast.NewIdent("vrt_r0"), Op: token.NEQ, Y: ast.NewIdent("nil")},
				Body: &ast.BlockStmt{List: []ast.Stmt{&ast.ExprStmt{X: &ast.CallExpr{Fun: vrtSel("Register"), Args: []ast.Expr{ast.NewIdent("vrt_r0")}}}}}},
			&ast.ReturnStmt{Results: lhs},
		}
		extra = append(extra, &ast.FuncDecl{Name: ast.NewIdent(orig),
			Type: &ast.FuncType{Params: &ast.FieldList{List: params}, Results: &ast.FieldList{List: results}},
			Body: &ast.BlockStmt{List: body}})
		usedVrt = true
	}
	file.Decls = append(file.Decls, extra...)

	// imports
	if usedVrt {
		astutil.AddNamedImport(fset, file, "vrt", modPath+"/vrt")
	}
	for path := range usedFacade {
		astutil.AddNamedImport(fset, file, facade[path], modPath+"/vrt/"+facade[path])
	}
	for path := range override {
		if usedFacade[path] && !remaining[path] {
			// every use was redirected: the real import would be unused
			for _, imp := range file.Imports {
				ip, _ := strconv.Unquote(imp.Path.Value)
				if ip == path && (imp.Name == nil || (imp.Name.Name != "_" && imp.Name.Name != ".")) {
					if imp.Name != nil {
						astutil.DeleteNamedImport(fset, file, imp.Name.Name, path)
					} else {
						astutil.DeleteImport(fset, file, path)
					}
				}
			}
		}
	}
	for _, imp := range file.Imports {
		ip, _ := strconv.Unquote(imp.Path.Value)
		if _, owned := override[ip]; owned && imp.Name != nil && imp.Name.Name == "." {
			fatal(imp.Pos(), "dot import of %s is not supported", ip)
		}
	}
}

// go f(a, b)  =>  { f0 := f; a0 := a; b0 := b; vrt.Go(func(){ f0(a0, b0) }) }
func rewriteGo(n *ast.GoStmt) ast.Stmt {
	var stmts []ast.Stmt
	call := n.Call
	var fun ast.Expr = call.Fun
	if _, isFL := fun.(*ast.FuncLit); !isFL {
		if se, ok := fun.(*ast.SelectorExpr); ok {
			// method value or package function: bind the receiver now, as the go statement does
			if sel, ok := info.Selections[se]; ok && sel.Kind() == types.MethodVal {
				f := tmp()
				stmts = append(stmts, &ast.AssignStmt{Lhs: []ast.Expr{f}, Tok: token.DEFINE, Rhs: []ast.Expr{fun}})
				fun = f
			}
		} else if _, ok := fun.(*ast.Ident); !ok {
			f := tmp()
			stmts = append(stmts, &ast.AssignStmt{Lhs: []ast.Expr{f}, Tok: token.DEFINE, Rhs: []ast.Expr{fun}})
			fun = f
		}
	}
	var args []ast.Expr
	for _, a := range call.Args {
		if isLit(a) {
			args = append(args, a)
			continue
		}
		t := tmp()
		stmts = append(stmts, &ast.AssignStmt{Lhs: []ast.Expr{t}, Tok: token.DEFINE, Rhs: []ast.Expr{a}})
		args = append(args, t)
	}
	inner := &ast.CallExpr{Fun: fun, Args: args, Ellipsis: call.Ellipsis}
	lit := &ast.FuncLit{Type: &ast.FuncType{Params: &ast.FieldList{}}, Body: &ast.BlockStmt{List: []ast.Stmt{&ast.ExprStmt{X: inner}}}}
	stmts = append(stmts, &ast.ExprStmt{X: &ast.CallExpr{Fun: vrtSel("Go"), Args: []ast.Expr{lit}}})
	return &ast.BlockStmt{List: stmts}
}

// for k, v := range m { B }  =>  for it := vrt.MapIter(m); it.Next(); { k, v := it.K, it.V; B }
// The map expression is evaluated once; entries deleted during the loop are skipped (as in Go).
func rewriteMapRange(r *ast.RangeStmt) ast.Stmt {
	it := tmp()
	var pre []ast.Stmt
	tok := r.Tok
	if tok == token.ILLEGAL {
		tok = token.DEFINE
	}
	var lhs, rhs []ast.Expr
	if !blank(r.Key) {
		lhs = append(lhs, r.Key)
		rhs = append(rhs, &ast.SelectorExpr{X: it, Sel: ast.NewIdent("K")})
	}
	if !blank(r.Value) {
		lhs = append(lhs, r.Value)
		rhs = append(rhs, &ast.SelectorExpr{X: it, Sel: ast.NewIdent("V")})
	}
	if len(lhs) > 0 {
		pre = append(pre, &ast.AssignStmt{Lhs: lhs, Tok: tok, Rhs: rhs})
		if tok == token.DEFINE {
			// avoid "declared and not used" when the body ignores a variable
			for _, l := range lhs {
				pre = append(pre, &ast.AssignStmt{Lhs: []ast.Expr{ast.NewIdent("_")}, Tok: token.ASSIGN, Rhs: []ast.Expr{l}})
			}
		}
	}
	body := &ast.BlockStmt{List: append(pre, r.Body.List...)}
	return &ast.ForStmt{
		Init: &ast.AssignStmt{Lhs: []ast.Expr{it}, Tok: token.DEFINE, Rhs: []ast.Expr{&ast.CallExpr{Fun: vrtSel("MapIter"), Args: []ast.Expr{r.X}}}},
		Cond: &ast.CallExpr{Fun: &ast.SelectorExpr{X: it, Sel: ast.NewIdent("Next")}},
		Body: body,
	}
}

// for v := range ch { B }  =>  for it := vrt.ChanIter(ch); it.Next(); { v := it.V; B }
func rewriteChanRange(r *ast.RangeStmt) ast.Stmt {
	it := tmp()
	var pre []ast.Stmt
	tok := r.Tok
	if tok == token.ILLEGAL {
		tok = token.DEFINE
	}
	if !blank(r.Key) {
		pre = append(pre, &ast.AssignStmt{Lhs: []ast.Expr{r.Key}, Tok: tok, Rhs: []ast.Expr{&ast.SelectorExpr{X: it, Sel: ast.NewIdent("V")}}})
		if tok == token.DEFINE {
			pre = append(pre, &ast.AssignStmt{Lhs: []ast.Expr{ast.NewIdent("_")}, Tok: token.ASSIGN, Rhs: []ast.Expr{r.Key}})
		}
	}
	body := &ast.BlockStmt{List: append(pre, r.Body.List...)}
	return &ast.ForStmt{
		Init: &ast.AssignStmt{Lhs: []ast.Expr{it}, Tok: token.DEFINE, Rhs: []ast.Expr{&ast.CallExpr{Fun: vrtSel("ChanIter"), Args: []ast.Expr{r.X}}}},
		Cond: &ast.CallExpr{Fun: &ast.SelectorExpr{X: it, Sel: ast.NewIdent("Next")}},
		Body: body,
	}
}

// select { case v := <-a: A; case b <- x: B; default: D }
// =>  ca := a; cb := b; vx := x
//
//	switch vrt.Select(hasDefault, vrt.RecvCase(ca), vrt.SendCase(cb)) {
//	case 0: v := vrt.SelRecv(ca); A
//	case 1: vrt.SelSend(cb, vx); B
//	default: D }
func rewriteSelect(s *ast.SelectStmt) ([]ast.Stmt, ast.Stmt) {
	var pre []ast.Stmt
	var cases []ast.Expr
	var clauses []ast.Stmt
	hasDefault := "false"
	idx := 0
	// the children were rewritten already: a receive is vrt.Recv(ch) / vrt.Recv2(ch), a send is vrt.Send(ch, v)
	vrtCall := func(e ast.Expr) (string, []ast.Expr) {
		ce, ok := ast.Unparen(e).(*ast.CallExpr)
		if !ok {
			return "", nil
		}
		se, ok := ce.Fun.(*ast.SelectorExpr)
		if !ok {
			return "", nil
		}
		if id, ok := se.X.(*ast.Ident); !ok || id.Name != "vrt" {
			return "", nil
		}
		return se.Sel.Name, ce.Args
	}
	for _, cl := range s.Body.List {
		cc := cl.(*ast.CommClause)
		if cc.Comm == nil {
			hasDefault = "true"
			clauses = append(clauses, &ast.CaseClause{List: nil, Body: cc.Body})
			continue
		}
		ch := tmp()
		var body []ast.Stmt
		switch comm := cc.Comm.(type) {
		case *ast.ExprStmt:
			name, args := vrtCall(comm.X)
			switch name {
			case "Send":
				v := tmp()
				pre = append(pre, &ast.AssignStmt{Lhs: []ast.Expr{ch}, Tok: token.DEFINE, Rhs: []ast.Expr{args[0]}})
				pre = append(pre, &ast.AssignStmt{Lhs: []ast.Expr{v}, Tok: token.DEFINE, Rhs: []ast.Expr{args[1]}})
				cases = append(cases, &ast.CallExpr{Fun: vrtSel("SendCase"), Args: []ast.Expr{ch}})
				body = append(body, &ast.ExprStmt{X: &ast.CallExpr{Fun: vrtSel("SelSend"), Args: []ast.Expr{ch, v}}})
			case "Recv":
				pre = append(pre, &ast.AssignStmt{Lhs: []ast.Expr{ch}, Tok: token.DEFINE, Rhs: []ast.Expr{args[0]}})
				cases = append(cases, &ast.CallExpr{Fun: vrtSel("RecvCase"), Args: []ast.Expr{ch}})
				body = append(body, &ast.ExprStmt{X: &ast.CallExpr{Fun: vrtSel("SelRecv"), Args: []ast.Expr{ch}}})
			default:
				fatal(comm.Pos(), "unsupported select case")
			}
		case *ast.AssignStmt:
			name, args := vrtCall(comm.Rhs[0])
			if name != "Recv" && name != "Recv2" {
				fatal(comm.Pos(), "unsupported select case")
			}
			pre = append(pre, &ast.AssignStmt{Lhs: []ast.Expr{ch}, Tok: token.DEFINE, Rhs: []ast.Expr{args[0]}})
			cases = append(cases, &ast.CallExpr{Fun: vrtSel("RecvCase"), Args: []ast.Expr{ch}})
			fn := "SelRecv"
			if len(comm.Lhs) == 2 {
				fn = "SelRecv2"
			}
			body = append(body, &ast.AssignStmt{Lhs: comm.Lhs, Tok: comm.Tok, Rhs: []ast.Expr{&ast.CallExpr{Fun: vrtSel(fn), Args: []ast.Expr{ch}}}})
			if comm.Tok == token.DEFINE {
				for _, l := range comm.Lhs {
					if !blank(l) {
						body = append(body, &ast.AssignStmt{Lhs: []ast.Expr{ast.NewIdent("_")}, Tok: token.ASSIGN, Rhs: []ast.Expr{l}})
					}
				}
			}
		default:
			fatal(cc.Pos(), "unsupported select case")
		}
		body = append(body, cc.Body...)
		clauses = append(clauses, &ast.CaseClause{List: []ast.Expr{&ast.BasicLit{Kind: token.INT, Value: strconv.Itoa(idx)}}, Body: body})
		idx++
	}
	args := append([]ast.Expr{ast.NewIdent(hasDefault)}, cases...)
	sw := &ast.SwitchStmt{Tag: &ast.CallExpr{Fun: vrtSel("Select"), Args: args}, Body: &ast.BlockStmt{List: clauses}}
	return pre, sw
}
