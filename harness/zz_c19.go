//go:build verif && (c19 || all)

package main

import (
	"encoding/json"
	"fmt"
	"net"
	"os"
	"sort"
	"strings"

	"github.com/ochinchina/sipproxy/vrt"
	"github.com/ochinchina/sipproxy/vrt/vnet"
)

// C19 — the backend rotation follows name resolution, with bounded failure tolerance
// (DESIGN.md §4 C19). Resolution outcomes are scripted answers of the simulated LookupIP; the
// real periodic goroutine of the real DynamicHostResolver is driven by clock steps of one period.

type c19Ev struct {
	Host int   `json:"host"`
	Fail bool  `json:"fail,omitempty"`
	Set  []int `json:"set,omitempty"` // indices into the host's address universe, in answer order
}

func (e c19Ev) String() string {
	if e.Fail {
		return fmt.Sprintf("h%d:fail", e.Host)
	}
	return fmt.Sprintf("h%d:%v", e.Host, e.Set)
}

type c19Case struct {
	Proto   string  `json:"proto"`
	NHosts  int     `json:"nhosts"`
	NAddr   int     `json:"naddr"`
	Initial string  `json:"initial"` // ok | fail
	Hist    []c19Ev `json:"history"`
	Tail    string  `json:"tail,omitempty"` // two-rotations: a second listens entry lists the same host-name backends; static-other: the list ends with a static entry of the other transport on another port; same-name: every host name is listed a second time with the other transport (same port)
}

const c19TailAddr = "127.0.9.9:7100"

var c19Names = []string{"be-a.example.net", "be-b.example.net"}

// c19Addr: the address universe of a host name. The second address is a textual SUFFIX of the first
// and the third has the first as a textual PREFIX (address sets are compared as strings somewhere).
func c19Addr(host, i int) string {
	switch i {
	case 1:
		return fmt.Sprintf("27.0.%d.1", 11+host)
	case 2:
		return fmt.Sprintf("127.0.%d.12", 11+host)
	}
	return fmt.Sprintf("127.0.%d.%d", 11+host, i+1)
}

type c19Ref struct {
	cur   []c19Ev // current scripted outcome per host
	set   [][]string
	fails []int
	tail  bool
}

func (r *c19Ref) period() {
	for h := range r.cur {
		o := r.cur[h]
		if o.Fail {
			r.fails[h]++
			if r.fails[h] > 3 && len(r.set[h]) > 0 {
				r.set[h] = nil
				r.fails[h] = 0
			}
			continue
		}
		r.fails[h] = 0
		var s []string
		for _, i := range o.Set {
			s = append(s, c19Addr(h, i))
		}
		r.set[h] = s
	}
}

func (r *c19Ref) expected() []string {
	var all []string
	if r.tail {
		all = append(all, c19TailAddr)
	}
	for _, s := range r.set {
		for _, a := range s {
			all = append(all, a+":7000")
		}
	}
	sort.Strings(all)
	return all
}

func c19Script(h int, o c19Ev) {
	if o.Fail {
		vnet.SetHost(c19Names[h], true)
		return
	}
	var ips []string
	for _, i := range o.Set {
		ips = append(ips, c19Addr(h, i))
	}
	vnet.SetHost(c19Names[h], false, ips...)
}

func c19Exec(cs c19Case) (string, string, string) {
	// the DNS answers must be scripted before the proxy starts (initial resolution at startup)
	var bes []string
	for h := 0; h < cs.NHosts; h++ {
		bes = append(bes, fmt.Sprintf("%s://%s:7000", cs.Proto, c19Names[h]))
	}
	other := map[string]string{"udp": "tcp", "tcp": "udp"}[cs.Proto]
	if cs.Tail == "static-other" {
		bes = append(bes, other+"://"+c19TailAddr)
	}
	if cs.Tail == "same-name" {
		for h := 0; h < cs.NHosts; h++ {
			bes = append(bes, fmt.Sprintf("%s://%s:7000", other, c19Names[h]))
		}
	}
	cfg := RCfg{Name: "svc.example.com", DialogTimeout: 1200, Listens: []RListen{{Addr: "127.0.0.1", UDP: 5060, TCP: 5062, Backends: bes}}}
	nrot := 1
	if cs.Tail == "two-rotations" || cs.Tail == "two-rotations-second-cannot-bind" {
		// a second listens entry with the same host-name backends: its own rotation, fed by the same names
		cfg.Listens = append(cfg.Listens, RListen{Addr: "127.0.0.1", UDP: 5070, Backends: bes})
		nrot = 2
	}
	binding := nrot // rotations that can open backend sockets
	if cs.Tail == "two-rotations-second-cannot-bind" {
		// ... whose backend sockets cannot be opened: its backend-local-port is held by another process of the
		// host, so every bind fails and the second rotation stays empty - which is no business of the first
		cfg.Listens[1].BackendLocalPort = 7777
		binding = 1
	}
	ref := &c19Ref{tail: cs.Tail == "static-other", cur: make([]c19Ev, cs.NHosts), set: make([][]string, cs.NHosts), fails: make([]int, cs.NHosts)}
	for h := 0; h < cs.NHosts; h++ {
		if cs.Initial == "fail" {
			ref.cur[h] = c19Ev{Host: h, Fail: true}
		} else {
			ref.cur[h] = c19Ev{Host: h, Set: []int{0}}
		}
	}
	preStart = func() {
		for h := 0; h < cs.NHosts; h++ {
			c19Script(h, ref.cur[h])
		}
		if cs.Tail == "two-rotations-second-cannot-bind" {
			if _, err := vnet.ListenUDP("udp", &net.UDPAddr{Port: 7777}); err != nil {
				panic("harness: " + err.Error())
			}
		}
	}
	w := StartRelayWorld(SimOpts{}, cfg)
	preStart = nil
	defer w.Close()
	// peers at every address of the universe
	for h := 0; h < cs.NHosts; h++ {
		for i := 0; i < cs.NAddr; i++ {
			a := c19Addr(h, i) + ":7000"
			w.udp[a] = w.S.UDPPeer(a)
			w.tcp[a] = w.S.TCPListen(a)
		}
	}
	w.udp[c19TailAddr] = w.S.UDPPeer(c19TailAddr)
	w.tcp[c19TailAddr] = w.S.TCPListen(c19TailAddr)
	// startup: the initial resolution (and the first pass of the periodic goroutine) used the initial outcome
	if cs.Initial == "ok" {
		for h := range ref.set {
			ref.set[h] = []string{c19Addr(h, 0)}
		}
	} else {
		// ResolveHost at startup and the first periodic pass both failed
		for h := range ref.fails {
			ref.fails[h] = 1
		}
	}
	seq := 0
	ua, lst := "127.0.0.9:5060", "127.0.0.1:5060"
	lsts := []string{"127.0.0.1:5060", "127.0.0.1:5070"}
	dispatch := func(lst string) []string {
		seq++
		m := MsgSpec{Method: "OPTIONS", RURI: "sip:bob@svc.example.com", Vias: []string{fmt.Sprintf("SIP/2.0/UDP %s;branch=z9hG4bKd%d", ua, seq)}, From: "<sip:a@ua.example.net>;tag=1", To: "<sip:bob@svc.example.com>", CallID: fmt.Sprintf("d%d", seq), CSeq: "1 OPTIONS"}.Build()
		w.Observe()
		w.SendUDP(ua, lst, m.Render())
		var to []string
		for _, p := range w.Observe().Pkts {
			to = append(to, p.To)
		}
		return to
	}
	checkRot := func(desc string, exp []string, r int) (string, string) {
		lst := lsts[r]
		// (1) the endpoints that receive dispatches
		got := map[string]bool{}
		for k := 0; k < 2*len(exp)+1; k++ {
			to := dispatch(lst)
			if len(exp) == 0 {
				if len(to) != 0 {
					return "dispatch-with-empty-rotation", fmt.Sprintf("%s: no address is resolved but a request went to %v", desc, to)
				}
				continue
			}
			if len(to) != 1 {
				return "dispatch-not-exactly-one", fmt.Sprintf("%s: %v (expected rotation %v)", desc, to, exp)
			}
			got[to[0]] = true
		}
		var gl []string
		for a := range got {
			gl = append(gl, a)
		}
		sort.Strings(gl)
		if strings.Join(gl, ",") != strings.Join(exp, ",") {
			return "rotation-differs-from-resolution", fmt.Sprintf("%s: resolved addresses %v (consecutive failures %v), but dispatches reach %v", desc, exp, ref.fails, gl)
		}
		// (1b) every resolved address is in the rotation exactly once per configured transport
		perAddr := 1
		if cs.Tail == "same-name" {
			perAddr = 2
		}
		cnt := map[string]int{}
		rot, rotOK := wbRotation(w.S.RoundRobins()[r])
		for _, a := range rot.Members {
			cnt[a]++
		}
		for _, a := range exp {
			if rotOK && cnt[a] != perAddr {
				return "rotation-member-multiplicity", fmt.Sprintf("%s: %s is in the rotation %d times (expected %d): rotation %s", desc, a, cnt[a], perAddr, c19Rot(w, r))
			}
		}
		return "", ""
	}
	check := func(desc string) (string, string) {
		if vd := w.S.Verdict(); vd != "" {
			return "health", desc + ": " + vd + "\n" + w.S.CrashDetail()
		}
		exp := ref.expected()
		if n := len(w.S.RoundRobins()); n != nrot {
			return "harness-rotation-count", fmt.Sprintf("%s: %d rotations exist, %d expected", desc, n, nrot)
		}
		for r := 0; r < nrot; r++ {
			expR := exp
			if r >= binding {
				expR = nil
			}
			if cl, d := checkRot(desc, expR, r); cl != "" {
				if nrot > 1 {
					d = fmt.Sprintf("rotation of listens entry %d: %s", r+1, d)
				}
				return cl, d
			}
		}
		lst := lsts[0]
		// (2) the proxy's attribution index
		p := w.S.Proxies()[0]
		pk, pkOK := wbProxyBackends(p)
		if pkOK && strings.Join(pk, ",") != strings.Join(exp, ",") {
			return "attribution-index-differs", fmt.Sprintf("%s: resolved addresses %v, the proxy recognises %v as backend sources", desc, exp, pk)
		}
		// (3) behavioural attribution: a response from address x pins a dialog iff x is a current backend
		if len(exp) >= 2 {
			for h := 0; h < cs.NHosts; h++ {
				for i := 0; i < cs.NAddr; i++ {
					x := c19Addr(h, i) + ":7000"
					seq++
					cid := fmt.Sprintf("attr%d", seq)
					r := MsgSpec{Status: 200, Reason: "OK", Vias: []string{"SIP/2.0/UDP 127.0.0.1:5060;branch=z9hG4bKunknown" + fmt.Sprint(seq), "SIP/2.0/UDP " + ua + ";branch=z9hG4bKua" + fmt.Sprint(seq)},
						From: "<sip:a@ua.example.net>;tag=fa", To: "<sip:bob@svc.example.com>;tag=ta", CallID: cid, CSeq: "1 INVITE"}.Build()
					w.SendUDP(x, lst, r.Render())
					w.Observe()
					pinned := true
					distinct := map[string]bool{}
					// one whole cycle of the rotation as held (at least len(exp)+1 probes): an unbound dialog then
					// reaches every address of the rotation
					rot0, _ := wbRotation(w.S.RoundRobins()[0])
					nprobe := maxInt(len(exp)+1, len(rot0.Members))
					for k := 0; k < nprobe; k++ {
						seq++
						m := MsgSpec{Method: "INFO", RURI: "sip:bob@svc.example.com", Vias: []string{fmt.Sprintf("SIP/2.0/UDP %s;branch=z9hG4bKi%d", ua, seq)}, From: "<sip:a@ua.example.net>;tag=fa", To: "<sip:bob@svc.example.com>;tag=ta", CallID: cid, CSeq: fmt.Sprintf("%d INFO", seq)}.Build()
						w.SendUDP(ua, lst, m.Render())
						obs := w.Observe()
						if len(obs.Pkts) != 1 {
							return "dispatch-not-exactly-one", fmt.Sprintf("%s: in-dialog probe: %s", desc, obs.Summary())
						}
						distinct[obs.Pkts[0].To] = true
						if obs.Pkts[0].To != x {
							pinned = false
						}
					}
					isBackend := false
					for _, e := range exp {
						if e == x {
							isBackend = true
						}
					}
					if isBackend && !pinned {
						return "response-from-backend-not-attributed", fmt.Sprintf("%s: %s is a resolved backend, but a response from it did not bind the dialog to it (probes went to %v)", desc, x, distinct)
					}
					if !isBackend && len(distinct) < 2 {
						return "response-from-non-backend-attributed", fmt.Sprintf("%s: %s is not a resolved backend (resolved: %v), but a response from it bound the dialog (all probes went to %v; rotation %s)", desc, x, exp, distinct, c19Rot(w, 0))
					}
				}
			}
		}
		// (4) vanished backends are closed: one open backend socket per current UDP backend
		if cs.Proto == "udp" {
			open := 0
			for _, k := range vnet.UDPSockets() {
				if strings.HasPrefix(k, "0.0.0.0:") && k != "0.0.0.0:7777" { // 7777: the harness's own socket that blocks the second entry
					open++
				}
			}
			if cs.Tail == "static-other" {
				open++ // the static tail entry is a TCP backend: no socket of its own
			}
			if open != len(exp)*binding {
				return "backend-sockets-not-closed", fmt.Sprintf("%s: %d backends resolved but %d backend sockets are open", desc, len(exp), open)
			}
		} else {
			for _, c := range vnet.Conns() {
				if c.Dialled && !c.IsDriver() && !c.IsClosed() {
					still := false
					for _, e := range exp {
						if c.RemoteString() == e {
							still = true
						}
					}
					if !still {
						return "backend-connection-not-closed", fmt.Sprintf("%s: connection to vanished backend %s is still open (resolved: %v)", desc, c.RemoteString(), exp)
					}
				}
			}
		}
		return "", ""
	}
	desc := fmt.Sprintf("after startup (initial resolution %s)", cs.Initial)
	for i, ev := range cs.Hist {
		desc = fmt.Sprintf("step %d %v of %v (%s backends, %d host names, initial %s)", i, ev, cs.Hist, cs.Proto, cs.NHosts, cs.Initial)
		// the LAST step happens with a transaction in flight (UDP backends): a request was handed to some backend
		// X and X has answered 100; after the step X's late 180 and 200 arrive (wherever they are relayed to is
		// not this property's matter: what counts is the state afterwards)
		var pendRel *WMsg
		pendTo := ""
		if i == len(cs.Hist)-1 && cs.Proto == "udp" {
			seq++
			m := MsgSpec{Method: "INVITE", RURI: "sip:bob@svc.example.com", Vias: []string{fmt.Sprintf("SIP/2.0/UDP %s;branch=z9hG4bKpend%d", ua, seq)}, From: "<sip:a@ua.example.net>;tag=pf", To: "<sip:bob@svc.example.com>", CallID: fmt.Sprintf("pend%d", seq), CSeq: "1 INVITE"}.Build()
			w.Observe()
			w.SendUDP(ua, lst, m.Render())
			if obs := w.Observe(); len(obs.Pkts) == 1 {
				pendTo = obs.Pkts[0].To
				pendRel, _ = ReadWire(obs.Pkts[0].Data)
				if pendRel != nil {
					w.SendUDP(pendTo, lst, ResponseTo(pendRel, 100, "").Render())
					w.Observe()
				}
			}
		}
		ref.cur[ev.Host] = ev
		c19Script(ev.Host, ev)
		w.S.W.Advance(2e9) // one resolution period
		w.S.Run()
		ref.period()
		if pendRel != nil {
			w.SendUDP(pendTo, lst, ResponseTo(pendRel, 180, "pt").Render())
			w.SendUDP(pendTo, lst, ResponseTo(pendRel, 200, "pt").Render())
			w.Observe()
		}
	}
	// state key (taken before the probes, which advance the rotation): resolver entries, rotation, scripted outcome
	var b strings.Builder
	for h := 0; h < cs.NHosts; h++ {
		addrs, f, registered, ok := wbResolverEntry(dynamicHostResolver, c19Names[h])
		if !ok {
			fmt.Fprintf(&b, "h%d:wb:%s/cur=%v|", h, wbDump(dynamicHostResolver), ref.cur[h])
			continue
		}
		if !registered {
			// the name is not (or no longer) registered with the resolver: part of the state, judged by the probes
			fmt.Fprintf(&b, "h%d:unregistered/cur=%v|", h, ref.cur[h])
			continue
		}
		if len(addrs) == 0 {
			f = 0 // the failure count only matters while addresses are held
		}
		if addrs == nil {
			addrs = []string{}
		}
		fmt.Fprintf(&b, "h%d:%v/%d/cur=%v|", h, addrs, f, ref.cur[h])
	}
	for _, rr := range w.S.RoundRobins() {
		if rot, ok := wbRotation(rr); ok {
			fmt.Fprintf(&b, "rr=%v/%d", rot.Members, rot.Index%maxInt(len(rot.Members), 1))
		} else {
			b.WriteString("wb:" + wbDump(rr))
		}
	}
	// the oracle is evaluated on the state reached by the last step (earlier prefixes were
	// checked when they were explored)
	if cl, d := check(desc); cl != "" {
		return b.String(), cl, d
	}
	return b.String(), "", ""
}

// c19Rot describes the rotation as the proxy holds it (transport and address of every member).
func c19Rot(w *RelayWorld, r int) string {
	var l []string
	rot, _ := wbRotation(w.S.RoundRobins()[r])
	for i, a := range rot.Members {
		l = append(l, rot.Types[i]+"@"+a)
	}
	return fmt.Sprint(l)
}

func maxInt(a, b int) int {
	if a > b {
		return a
	}
	return b
}

func c19Outcomes(host, naddr int, ordered bool) []c19Ev {
	evs := []c19Ev{{Host: host, Fail: true}}
	for mask := 1; mask < 1<<naddr; mask++ {
		var s []int
		for i := 0; i < naddr; i++ {
			if mask&(1<<i) != 0 {
				s = append(s, i)
			}
		}
		evs = append(evs, c19Ev{Host: host, Set: s})
		if ordered && len(s) >= 2 {
			r := make([]int, len(s))
			for i := range s {
				r[len(s)-1-i] = s[i]
			}
			evs = append(evs, c19Ev{Host: host, Set: r})
		}
	}
	return evs
}

func c19Run(c *Ctx) {
	naddr := 3
	if c.Thorough() {
		naddr = 4
	}
	type plan struct {
		proto   string
		nhosts  int
		naddr   int
		initial string
		depth   int
		tail    string
	}
	var plans []plan
	for _, pr := range []string{"udp", "tcp"} {
		for _, in := range []string{"ok", "fail"} {
			plans = append(plans, plan{pr, 1, naddr, in, -1, ""})
		}
	}
	d2 := 4
	if c.Thorough() {
		d2 = 5
	}
	plans = append(plans, plan{"udp", 2, 2, "ok", d2, ""}, plan{"tcp", 2, 2, "fail", d2, ""})
	// mixed lists: host-name entries followed by a static entry of the other transport on another port
	plans = append(plans, plan{"udp", 1, naddr, "ok", -1, "static-other"}, plan{"tcp", 1, naddr, "ok", d2, "static-other"}, plan{"udp", 2, 2, "ok", d2 - 1, "static-other"})
	// one host name listed under BOTH transports with the same port: the address-keyed tables of the
	// rotation cannot hold two backends with one host:port (tracked finding, see KNOWN_FINDINGS.txt)
	plans = append(plans, plan{"udp", 1, naddr, "ok", d2, "same-name"}, plan{"tcp", 1, naddr, "ok", d2 - 1, "same-name"})
	// one host name feeding the rotations of two listens entries
	plans = append(plans, plan{"udp", 1, naddr, "ok", d2, "two-rotations"}, plan{"tcp", 1, naddr, "fail", d2 - 1, "two-rotations"})
	plans = append(plans, plan{"udp", 1, naddr, "ok", d2 - 1, "two-rotations-second-cannot-bind"})
	for _, pl := range plans {
		pl := pl
		var evs []c19Ev
		for h := 0; h < pl.nhosts; h++ {
			evs = append(evs, c19Outcomes(h, pl.naddr, pl.nhosts == 1)...)
		}
		st, tr, done := BFSReplay(c, pl.depth, evs, true, func(h []c19Ev) (string, bool) {
			cs := c19Case{pl.proto, pl.nhosts, pl.naddr, pl.initial, h, pl.tail}
			key, cl, detail := c19Exec(cs)
			c.Res.Executions++
			c.Res.Evaluations++
			if len(h) > 1 {
				c.Res.Nontrivial++
			}
			if cl != "" && pl.tail == "same-name" {
				// its own clause names: never collapsed with a violation found under another configuration
				// and the search goes on from the violating state, so that every manifestation of the tracked
				// defect is reported (and a new one is not masked by the first)
				c.Violate("both-transports-"+cl+"|same-name", "both-transports-"+cl, detail, cs)
				return key, true
			}
			if cl != "" {
				var ts []string
				for _, e := range h {
					if e.Fail {
						ts = append(ts, "fail")
					} else {
						ts = append(ts, fmt.Sprintf("ok%d", len(e.Set)))
					}
				}
				c.Violate(cl+"|"+pl.proto+"|"+strings.Join(ts, ">"), cl, detail, cs)
				return "", false
			}
			c.Outcome(key)
			if len(h) == 3 {
				c.Sample(cs)
			}
			return key, true
		})
		c.Res.States += st
		c.Res.Transitions += tr
		if !done {
			c.Cap("BFS stopped by the internal deadline before its fixpoint")
		}
	}
}

// ---- a registration that overlaps a resolution (schedules) ----
//
// A running proxy has a rotation fed by a host name. The name's answer changes and one resolver
// period elapses; at that very moment a second rotation registers for the same name (what startProxy
// does for every listens entry - at start-up, which can easily last longer than one resolver period
// when lookups are slow). All interleavings of the registration with the periodic resolution and its
// notifications with at most `bound` deviations are explored; afterwards two more periods pass with
// the answer unchanged. Both rotations must then hold exactly the resolved addresses, each once.

type c19LateCase struct {
	Late    string `json:"late_registration"` // shrink | grow | swap
	Choices []int  `json:"choices"`
}

const c19LateName = "late.example.net"

func c19LateExec(kind string, prefix []int) ([]vrt.Point, string, string) {
	before := []string{"127.0.11.1", "127.0.11.2"}
	after := map[string][]string{"shrink": {"127.0.11.2"}, "grow": {"127.0.11.1", "127.0.11.2", "127.0.11.3"}, "swap": {"127.0.11.2", "127.0.11.3"}}[kind]
	cfg := RCfg{Name: "svc.example.com", Listens: []RListen{{Addr: "127.0.0.1", UDP: 5060, Backends: []string{"udp://" + c19LateName + ":7000"}}}}
	preStart = func() { vnet.SetHost(c19LateName, false, before...) }
	s := StartSim(ConfigYAML(cfg), SimOpts{})
	preStart = nil
	defer s.Close()
	vnet.SetHost(c19LateName, false, after...)
	s.W.Advance(2e9) // the periodic resolution is due, and has not run yet
	s.W.SetExplore(vrt.KSched|vrt.KSelect, prefix)
	var rr2 *RoundRobinBackend
	var rerr error
	vrt.Go(func() {
		rr2, rerr = CreateRoundRobinBackend(":0", []string{"udp://" + c19LateName + ":7000"}, nil) // ":0" is what NewProxyItem passes without backend-local-address / -port
	})
	s.Run()
	trace := s.W.TraceCopy()
	s.W.SetExplore(0, nil)
	for i := 0; i < 2; i++ {
		s.W.Advance(2e9)
		s.Run()
	}
	if vd := s.Verdict(); vd != "" {
		return trace, "health", vd + "\n" + s.CrashDetail()
	}
	if rr2 == nil {
		return trace, "late-registration-failed", fmt.Sprint(rerr)
	}
	var want []string
	for _, a := range after {
		want = append(want, a+":7000")
	}
	sort.Strings(want)
	for i, rr := range append(s.RoundRobins()[:1:1], rr2) {
		rot, ok := wbRotation(rr)
		if !ok {
			return trace, "", "" // the member list cannot be read on this tree: the BFS part judges by dispatches
		}
		got := append([]string(nil), rot.Members...)
		sort.Strings(got)
		if strings.Join(got, " ") != strings.Join(want, " ") {
			which := []string{"the rotation that was running", "the rotation that registered while the resolution was due"}[i]
			return trace, "rotation-differs-from-resolution", fmt.Sprintf("the name resolved to %v, then to %v; a second rotation registered for the name at the moment the periodic resolution was due (schedule %v); two periods later %s holds %v (expected %v)", before, after, prefix, which, rot.Members, want)
		}
	}
	return trace, "", ""
}

func c19LateRun(c *Ctx) {
	// by default the periodic goroutine (the older one) runs first: letting the registration start first, the
	// resolution slip into it and the notification overtake it are three deviations
	bound := 3
	if c.Thorough() {
		bound = 4
	}
	for _, kind := range []string{"shrink", "grow", "swap"} {
		kind := kind
		n, done := ExploreChoices(c, bound, func(prefix []int) []vrt.Point {
			tr, cl, detail := c19LateExec(kind, prefix)
			c.Res.Executions++
			c.Res.Evaluations++
			c.Res.Nontrivial++
			c.Res.Transitions += int64(len(tr))
			if cl != "" {
				c.Violate(cl+"|late-registration|"+kind, cl, detail, c19LateCase{kind, prefix})
			}
			return tr
		})
		c.Res.States += n
		c.Count("late_registration_schedules", n)
		if !done {
			c.Cap("late-registration schedules stopped by the internal deadline")
		}
	}
}

func init() {
	addCheck(&Check{ID: "C19", Level: "model_checking", Collapse: true,
		Rule:   "explicit-state BFS by replay TO A FIXPOINT over resolution outcomes {failure, success with every non-empty subset of 3 (thorough 4) addresses, in two answer orders; the universe contains an address that is a textual suffix of another and one that has another as a prefix} for one host name (state = resolver addresses x consecutive failures x rotation list and cursor x scripted outcome: finite), for udp and tcp backends and for a successful / failed initial resolution; and to depth 4 (thorough 5) for two host names with disjoint address universes feeding one rotation; the same again for backend lists that end with a static entry of the OTHER transport on another port (udp host name to a fixpoint, tcp and two host names to depth 4 / 3), and for a host name listed under both transports with the same port (depth 3-4; tracked finding, the search continues past its violating states), for one host name feeding the rotations of TWO listens entries (depth 3-4), and for two such entries of which the second cannot open its backend sockets (depth 3); the real periodic goroutine is driven by clock steps of one period and the world runs to quiescence between steps; the last step of every history happens with a transaction in flight (a request handed to a backend that has answered 100; its late 180 and 200 arrive after the step); after every step: for every rotation 2k+1 dispatches must reach exactly the resolved set and every resolved address is a member exactly once per configured transport, the proxy's attribution index equals it, a fabricated response from every address of the universe binds a dialog iff the address is a current backend, sockets / connections of vanished backends are closed; plus a schedule search (all executions with <=3, thorough <=4 deviations) over a second rotation that registers for the name at the moment a changed answer (shrink / grow / swap) is due: two periods later both rotations hold exactly the resolved set; non-trivial = history longer than one outcome",
		Assume: []string{"a successful lookup never returns an empty list (as net.LookupIP)", "overlapping address sets of two host names are outside the stated domain"},
		Run:    func(c *Ctx) { c19Run(c); c19LateRun(c) },
		Replay: func(c *Ctx, raw json.RawMessage) string {
			var lc c19LateCase
			if json.Unmarshal(raw, &lc) == nil && lc.Late != "" {
				_, cl, _ := c19LateExec(lc.Late, lc.Choices)
				return cl
			}
			var cs c19Case
			json.Unmarshal(raw, &cs)
			_, cl, d := c19Exec(cs)
			if d != "" && os.Getenv("VERIF_REPLAY_DETAIL") != "" {
				fmt.Println(d)
			}
			return cl
		}})
}
