//go:build verif && (c03 || all)

package main

import (
	"bytes"
	"encoding/json"
	"fmt"
	"strings"
)

// C03 — each request goes to exactly one next hop chosen by fixed precedence (DESIGN.md §4 C03).

const c03Names = `svc.example.com, carol@pbx.example.com,[0-9]+@num\.example\.com ,urn:service:sos,tel:\+1555.*,^@atonly\.example\.com$,^noat\.example\.com$`

var c03Spec *EnumSpec

func c03Cfg(s *EnumSpec, v []int) RCfg {
	cfg := RCfg{Name: c03Names,
		Listens: []RListen{{Addr: "127.0.0.1", UDP: 5060, TCP: 5062, Backends: []string{"udp://127.0.1.1:7000", "tcp://127.0.1.2:7000"}}},
		Routes: []RRoute{{Dests: []string{"static.example.org"}, Protocol: "udp", NextHop: "1st.example.net:5080"},
			{Dests: []string{"*.wild.example.org"}, Protocol: "tcp", NextHop: "127.0.3.2:5090"},
			// an exact entry for a host the wildcard entry also matches (and whose text is no longer than the pattern)
			{Dests: []string{"a.wild.example.org"}, Protocol: "udp", NextHop: "127.0.3.4:5085"},
			// a literal entry written with capitals (the To host is spelled exactly like it)
			{Dests: []string{"Gold.Example.org"}, Protocol: "udp", NextHop: "127.0.3.3:5061"},
			// one entry with several destinations, the wildcard not first
			{Dests: []string{"multi.example.org", "*.multi.example.org", "other-multi.example.org"}, Protocol: "udp", NextHop: "127.0.2.2:5070"}},
		Hosts: [][2]string{{"proxy.example.com", "127.0.0.1"}, {"nh.example.net", "127.0.2.1"}, {"1st.example.net", "127.0.3.1"}, {"3gpp-nh.example.net", "127.0.2.1"}},
	}
	switch s.Val(v, "names") {
	case "single":
		cfg.Name = "svc.example.com"
	case "user-regex":
		// no name contains an '@', yet the verdict of the pattern depends on the user part
		cfg.Name = "svc.example.com,^(911|112)"
	case "anything":
		cfg.Name = ".+"
	}
	switch s.Val(v, "table") {
	case "default-udp":
		cfg.Routes = append(cfg.Routes, RRoute{Dests: []string{"default"}, Protocol: "udp", NextHop: "127.0.3.3"})
	case "default-tls":
		cfg.Routes = append(cfg.Routes, RRoute{Dests: []string{"default"}, Protocol: "tls", NextHop: "127.0.3.3"})
	case "empty":
		cfg.Routes = nil
	}
	switch s.Val(v, "backends") {
	case "none":
		cfg.Listens[0].Backends = nil
	case "one-tcp":
		cfg.Listens[0].Backends = []string{"tcp://127.0.1.2:7000"}
	}
	if s.Val(v, "keep") != "off" {
		cfg.KeepNextHop = s.Val(v, "keep")
	}
	return cfg
}

func c03Msg(s *EnumSpec, v []int) *WMsg {
	hop := "sip:" + map[string]string{"ip": "127.0.2.1", "name": "nh.example.net", "digit-name": "3gpp-nh.example.net"}[s.Val(v, "hophost")]
	if p := s.Val(v, "hopport"); p != "absent" {
		hop += ":" + p
	}
	if t := s.Val(v, "hoptransport"); t != "absent" {
		hop += ";transport=" + t
	}
	if s.Val(v, "hoplr") == "lr" {
		hop += ";lr"
	}
	lport := "5060"
	if s.Val(v, "arrival") == "tcp" {
		lport = "5062"
	}
	own := "<sip:127.0.0.1:" + lport + ";lr>"
	alias := "<sip:proxy.example.com:" + lport + ";lr>"
	var routes []string
	switch s.Val(v, "route") {
	case "own-alias":
		routes = []string{alias}
	case "own-alias+next":
		routes = []string{alias, "<" + hop + ">"}
	case "own":
		routes = []string{own}
	case "own+next":
		routes = []string{own + ", <" + hop + ">"}
	case "next":
		routes = []string{"<" + hop + ">"}
	case "next+further":
		routes = []string{"<" + hop + ">", "<sip:127.0.2.2:5070;lr>"}
	}
	to := map[string]string{"nomatch": "nomatch.example.org", "exact": "static.example.org", "wildcard": "x.wild.example.org", "exact-under-wildcard": "a.wild.example.org",
		"wildcard-second-dest": "x.multi.example.org", "exact-third-dest": "other-multi.example.org", "exact-capitals": "Gold.Example.org"}[s.Val(v, "tohost")]
	ruri := map[string]string{
		"foreign": "sip:bob@foreign.example.net", "service-host": "sip:bob@svc.example.com", "regex-only": "sip:12345@num.example.com",
		"user-at-host": "sip:carol@pbx.example.com", "wrong-user": "sip:dave@pbx.example.com", "urn": "urn:service:sos", "tel": "tel:+15551234",
		"listener": "sip:127.0.0.1:" + lport, "listener-noport": "sip:127.0.0.1", "listener-wrong-port": "sip:127.0.0.1:5099", "substring-user": "sip:xcarol@pbx.example.com",
		"service-host-nouser": "sip:svc.example.com;transport=udp",
		// a regular-expression name whose verdict depends on the user alone: same host, different users (and again)
		"regex-user-match": "sip:911@misc.example.net", "regex-user-nomatch": "sip:1234@misc.example.net", "regex-user-match-2": "sip:112@misc.example.net",
		// Request-URIs without a user part against regular-expression names: the subject is "@host"
		"nouser-regex-with-at": "sip:atonly.example.com", "nouser-regex-without-at": "sip:noat.example.com",
	}[s.Val(v, "ruri")]
	tr := strings.ToUpper(s.Val(v, "arrival"))
	var body []byte
	if s.Val(v, "body") == "2000" {
		body = bytes.Repeat([]byte("0123456789abcdef"), 125)
	}
	vias := []string{"SIP/2.0/" + tr + " 127.0.0.9:5060;branch=z9hG4bKc03"}
	if s.Val(v, "vias") == "spiral" {
		vias = append(vias, "SIP/2.0/"+tr+" 127.0.0.1:"+lport+";branch=z9hG4bKfirstpass", "SIP/2.0/UDP 127.0.0.8:5060;branch=z9hG4bKorig")
	}
	return MsgSpec{Method: "OPTIONS", RURI: ruri, Vias: vias, Routes: routes,
		From: "<sip:alice@ua.example.net>;tag=f1", To: "<sip:bob@" + to + ">", CallID: "c03", CSeq: "1 OPTIONS", Body: body}.Build()
}

func c03Eval(v []int) (string, string, bool) {
	s := c03Spec
	cfg := c03Cfg(s, v)
	w := StartRelayWorld(SimOpts{}, cfg)
	defer w.Close()
	return c03EvalIn(w, cfg, v, 0)
}

// c03EvalIn sends the case into the given world (fresh or aged) and judges what the network saw.
func c03EvalIn(w *RelayWorld, cfg RCfg, v []int, seq int) (string, string, bool) {
	s := c03Spec
	m := c03Msg(s, v)
	if seq > 0 {
		// an aged world: keep transactions apart
		for i := range m.Hdrs {
			switch m.Hdrs[i].Name {
			case "Call-ID":
				m.Hdrs[i].Value = fmt.Sprintf("c03-%d", seq)
			case "Via":
				m.Hdrs[i].Value = strings.Replace(m.Hdrs[i].Value, "z9hG4bKc03", fmt.Sprintf("z9hG4bKc03x%d", seq), 1)
			}
		}
	}
	if s.Val(v, "prelude") == "hop-learned" {
		// the next hop earlier sent a request of its own through the listener (history)
		pm := MsgSpec{Method: "OPTIONS", RURI: "sip:x@foreign.example.net", Vias: []string{"SIP/2.0/UDP 127.0.2.1:5060;branch=z9hG4bKpre"},
			From: "<sip:nh@nh.example.net>;tag=p", To: "<sip:x@nomatch.example.org>", CallID: "pre", CSeq: "1 OPTIONS"}.Build()
		w.SendUDP("127.0.2.1:5060", "127.0.0.1:5060", pm.Render())
	}
	if s.Val(v, "prelude") == "same-request-other-listener" {
		// history: the very same request (same Request-URI) was received through the OTHER listener before
		pm := m.Clone()
		for i := range pm.Hdrs {
			if pm.Hdrs[i].Name == "Call-ID" {
				pm.Hdrs[i].Value = "c03-earlier"
			}
		}
		if s.Val(v, "arrival") == "tcp" {
			w.SendUDP("127.0.0.8:5060", "127.0.0.1:5060", pm.Render())
		} else {
			w.SendTCP(w.Client("c0", "127.0.0.8", "127.0.0.1:5062"), pm.Render())
		}
	}
	w.Observe()
	lport := 5060
	if s.Val(v, "arrival") == "tcp" {
		lport = 5062
		w.SendTCP(w.Client("c1", "127.0.0.9", "127.0.0.1:5062"), m.Render())
	} else {
		w.SendUDP("127.0.0.9:5060", "127.0.0.1:5060", m.Render())
	}
	obs := w.Observe()
	d := cfg.refDecide(m, 0, lport)
	if d.NoModel != "" {
		return "", "", false
	}
	desc := func(exp string) string {
		return fmt.Sprintf("request %s\nconfig name=%q keep=%q routes=%v backends=%v\nexpected: %s\nobserved: %s", short(m.Render()), cfg.Name, cfg.KeepNextHop, cfg.Routes, cfg.Listens[0].Backends, exp, obs.Summary())
	}
	if vd := w.S.Verdict(); vd != "" {
		return "health", desc("healthy proxy") + "\n" + vd + "\n" + w.S.CrashDetail(), true
	}
	switch {
	case d.Hop.Kind == "drop":
		if len(obs.Pkts)+len(obs.Dials) != 0 {
			return "dropped-request-sent", desc("nothing (request matches no rule)"), true
		}
		return "", "", false
	case d.Hop.Kind == "backend":
		want := map[string]string{}
		for _, b := range cfg.Listens[0].Backends {
			p := strings.SplitN(b, "://", 2)
			want[p[1]] = p[0]
		}
		if len(want) == 0 {
			if len(obs.Pkts)+len(obs.Dials) != 0 {
				return "no-backend-sent", desc("nothing (no backend configured)"), true
			}
			return "", "", true
		}
		if len(obs.Pkts) != 1 {
			return "backend-exactly-one", desc("exactly one packet to one backend"), true
		}
		if proto, ok := want[obs.Pkts[0].To]; !ok || proto != obs.Pkts[0].Proto {
			return "backend-wrong-destination", desc(fmt.Sprintf("one packet to one of %v", want)), true
		}
		for _, dl := range obs.Dials {
			if dl != obs.Pkts[0].To {
				return "backend-stray-dial", desc("no connection attempt to any other address"), true
			}
		}
		return "", "", true
	case !d.Hop.Supported:
		if len(obs.Pkts)+len(obs.Dials) != 0 {
			return "unsupported-transport-sent", desc(fmt.Sprintf("nothing (next hop %s:%d over unsupported transport %q)", d.Hop.Host, d.Hop.Port, d.Hop.Transport)), true
		}
		return "", "", true
	default:
		exp := fmt.Sprintf("exactly one packet over %s to %s (%s hop %s:%d)", d.Hop.Transport, d.Hop.Dest, d.Hop.Kind, d.Hop.Host, d.Hop.Port)
		if len(obs.Pkts) != 1 {
			return d.Hop.Kind + "-exactly-one", desc(exp), true
		}
		p := obs.Pkts[0]
		if p.To != d.Hop.Dest {
			return d.Hop.Kind + "-wrong-destination", desc(exp), true
		}
		if p.Proto != d.Hop.Transport {
			return d.Hop.Kind + "-wrong-transport", desc(exp), true
		}
		for _, dl := range obs.Dials {
			if dl != d.Hop.Dest {
				return d.Hop.Kind + "-stray-dial", desc(exp), true
			}
		}
		return "", "", true
	}
}

type c03Aged struct {
	w   *RelayWorld
	cfg RCfg
	n   int
}

func c03AgedSpec() *AgedSpec {
	s := c03Spec
	return &AgedSpec{Spec: s,
		Group: func(v []int) string {
			if v[s.idx("prelude")] != 0 {
				return ""
			}
			return fmt.Sprintf("names=%s,table=%s,backends=%s,keep=%s", s.Val(v, "names"), s.Val(v, "table"), s.Val(v, "backends"), s.Val(v, "keep"))
		},
		Open:  func(v []int) any { cfg := c03Cfg(s, v); return &c03Aged{w: StartRelayWorld(SimOpts{}, cfg), cfg: cfg} },
		Close: func(w any) { w.(*c03Aged).w.Close() },
		Eval: func(w any, v []int) (string, string) {
			a := w.(*c03Aged)
			a.n++
			cl, d, _ := c03EvalIn(a.w, a.cfg, v, a.n)
			return cl, d
		}}
}

func init() {
	c03Spec = &EnumSpec{
		Feats: []Feat{
			{Name: "route", Vals: []string{"none", "own", "own+next", "next", "next+further", "own-alias", "own-alias+next"}},
			{Name: "hophost", Vals: []string{"ip", "name", "digit-name"}},
			{Name: "hopport", Vals: []string{"absent", "5060", "5070"}},
			{Name: "hoptransport", Vals: []string{"absent", "udp", "tcp", "TCP", "tls", "sctp", "UDP"}, Quick: 5},
			{Name: "hoplr", Vals: []string{"lr", "none"}},
			{Name: "tohost", Vals: []string{"nomatch", "exact", "wildcard", "exact-under-wildcard", "wildcard-second-dest", "exact-third-dest", "exact-capitals"}},
			{Name: "table", Vals: []string{"no-default", "default-udp", "default-tls", "empty"}, Quick: 2},
			{Name: "ruri", Vals: []string{"foreign", "service-host", "regex-only", "regex-user-match", "regex-user-nomatch", "regex-user-match-2", "user-at-host", "wrong-user", "urn", "tel", "listener", "listener-noport", "listener-wrong-port", "nouser-regex-with-at", "nouser-regex-without-at", "substring-user", "service-host-nouser"}, Quick: 15},
			{Name: "keep", Vals: []string{"off", "true", "Yes", "0"}, Quick: 2},
			{Name: "arrival", Vals: []string{"udp", "tcp"}},
			{Name: "names", Vals: []string{"list", "user-regex", "single", "anything"}, Quick: 2},
			{Name: "backends", Vals: []string{"udp+tcp", "none", "one-tcp"}, Quick: 2},
			{Name: "prelude", Vals: []string{"none", "hop-learned", "same-request-other-listener"}},
			{Name: "body", Vals: []string{"none", "2000"}},
			// a spiral: the request has been through this listener before (a downstream element retargeted it and sent
			// it back), so one of the lower Via entries names the listener itself; it is routed like any other request
			{Name: "vias", Vals: []string{"first-pass", "spiral"}},
		},
		Eval: c03Eval,
	}
	s := c03Spec
	s.Valid = func(v []int) bool {
		r := s.Val(v, "route")
		hasNext := r == "own+next" || r == "next" || r == "next+further" || r == "own-alias+next"
		if s.Val(v, "prelude") == "hop-learned" && !hasNext {
			return false
		}
		if !hasNext {
			// hop features are irrelevant without a next-hop Route entry
			for _, f := range []string{"hophost", "hopport", "hoptransport", "hoplr"} {
				if v[s.idx(f)] != 0 {
					return false
				}
			}
		}
		return true
	}
	s.Reduce = func(v []int) bool {
		r := s.Val(v, "route")
		hasNext := r == "own+next" || r == "next" || r == "next+further" || r == "own-alias+next"
		// the large body is crossed with the deciding features, not with spellings and preludes
		if v[s.idx("vias")] != 0 && (v[s.idx("body")] != 0 || v[s.idx("prelude")] != 0 || v[s.idx("hoplr")] != 0 || v[s.idx("hopport")] > 1 || v[s.idx("hophost")] != 0 || v[s.idx("hoptransport")] > 2) {
			return true
		}
		if v[s.idx("body")] != 0 && (v[s.idx("prelude")] != 0 || v[s.idx("names")] != 0 || v[s.idx("hoplr")] != 0 || v[s.idx("hopport")] > 1 || s.Val(v, "keep") != "off") {
			return true
		}
		if !hasNext {
			if s.Val(v, "keep") != "off" && s.Val(v, "keep") != "true" {
				return true
			}
		} else {
			// with a next-hop Route entry the lower-precedence rules are exercised on a reduced set
			if v[s.idx("names")] != 0 || v[s.idx("backends")] != 0 {
				return true
			}
			if ru := s.Val(v, "ruri"); ru != "foreign" && ru != "service-host" && ru != "listener" {
				return true
			}
			if tb := s.Val(v, "table"); tb != "no-default" && tb != "default-udp" {
				return true
			}
		}
		return false
	}
	addCheck(&Check{Flows: []flowOracle{flowExactlyOnce(true)}, ID: "C03", Level: "exploration",
		Rule:   "complete product of the decision-table features (Route shape x next-hop URI host/port/transport/lr x To host (no match, exact, wildcard, exact under a wildcard, second / third destination of a multi-destination entry, a literal entry written with capitals) x static table x Request-URI class x keep-next-hop x arrival transport x service-name list (incl. a list without any @ whose pattern depends on the user, against three users on one host) x {first pass, spiral: a lower Via names the listener itself} x backends x history prelude {none, next hop learned, the same request received earlier through the other listener} x body {none, 2000 bytes}), each case on a fresh world started through the real startProxy, and a second pass in which all cases of one configuration are fed one after the other into ONE long-lived world (history independence of the decision); the oracle inspects the set of ALL packets and connection attempts the simulated network saw until quiescence; non-trivial = the request is not simply dropped",
		Assume: []string{"service-name patterns are matched with Go's regexp in both the code and the reference (trusted)", "hosts are IPv4 literals or host-table names (stated domain)"},
		Run: func(c *Ctx) {
			c03Spec.Run(c)
			c03AgedSpec().Run(c)
		},
		Replay: func(c *Ctx, raw json.RawMessage) string {
			if cl, ok := c03AgedSpec().Replay(raw); ok {
				return cl
			}
			return c03Spec.Replay(raw)
		},
	})
}
