//go:build verif && (c18 || all)

package main

import (
	"encoding/json"
	"fmt"
	"sort"
	"strings"

	"github.com/ochinchina/sipproxy/vrt"
)

// C18 — static route lookup: fixed precedence and a stable answer (DESIGN.md §4 C18).

var c18Patterns = []string{"a.example.com", "example.com", "*.example.com", "a.example.*", "*", "a*m", "default",
	"aXexample.com", "*.org", "b.example.org", "a.*.com", "*example.com", "x.o*g", "a*a",
	// a literal written with capitals (looked up with exactly that spelling only: whether another letter case matches is a don't-care)
	"Gold.Example.com"}
var c18Hosts = []string{"a.example.com", "b.example.com", "example.com", "aXexample.com", "a.example.org", "b.example.org",
	"x.org", "am", "a.b.com", "default", "a.example.comX", "zzz", "Xa.example.com", "a-example.com", "x.org.org", "a.example.com.example.com",
	// hosts in which the literal pieces on both sides of an inner '*' would have to overlap
	"a.com", "a", "x.og", "aa", "Gold.Example.com"}

// refWild: '*' stands for any character sequence, every other character for itself.
func refWild(pat, s string) bool {
	if pat == "" {
		return s == ""
	}
	if pat[0] == '*' {
		for i := 0; i <= len(s); i++ {
			if refWild(pat[1:], s[i:]) {
				return true
			}
		}
		return false
	}
	return s != "" && pat[0] == s[0] && refWild(pat[1:], s[1:])
}

// refRoute: the set of acceptable answers (indices into table), or nil when not routable.
func refRoute(table []string, host string) []int {
	for i, p := range table {
		if p == host {
			return []int{i}
		}
	}
	var w []int
	for i, p := range table {
		if p != "default" && strings.Contains(p, "*") && refWild(p, host) {
			w = append(w, i)
		}
	}
	if len(w) > 0 {
		return w
	}
	for i, p := range table {
		if p == "default" {
			return []int{i}
		}
	}
	return nil
}

type c18Case struct {
	Table []string `json:"table"`
	Host  string   `json:"host"`
	Mode  string   `json:"mode"`
}

// c18Lookup runs FindRoute(host) on a fresh table under every map iteration order and returns
// the distinct answers ("" = not routable) and the number of executions.
func c18Lookup(c *Ctx, table []string, host string) (map[string]bool, int64) {
	answers := map[string]bool{}
	bounded := &Ctx{Deadline: c.Deadline, NWorkers: 1, Res: newResult()}
	n, _ := ExploreChoices(bounded, -1, func(prefix []int) []vrt.Point {
		w := vrt.NewWorld(prefix, vrt.KMap)
		defer w.Close()
		w.MapMode = 2
		pcr := NewPreConfigRoute()
		for i, p := range table {
			pcr.AddRouteItem("udp", p, fmt.Sprintf("nh%d.example.net:%d", i, 6000+i))
		}
		_, h, port, err := pcr.FindRoute(host)
		if err != nil {
			answers[""] = true
		} else {
			answers[fmt.Sprintf("%s:%d", h, port)] = true
		}
		tr := w.TraceCopy()
		return tr
	})
	return answers, n
}

// c18Eval returns the violated clause ("" if none) for one (table, host).
func c18Eval(c *Ctx, table []string, host string) (cl string, detail string, n int64) {
	if cr := guard(func() { cl, detail, n = c18EvalInner(c, table, host) }); cr != "" {
		return "panic", fmt.Sprintf("table %v host %q: %s", table, host, cr), 1
	}
	return
}

func c18EvalInner(c *Ctx, table []string, host string) (string, string, int64) {
	answers, n := c18Lookup(c, table, host)
	want := refRoute(table, host)
	ok := map[string]bool{}
	for _, i := range want {
		ok[fmt.Sprintf("nh%d.example.net:%d", i, 6000+i)] = true
	}
	if want == nil {
		ok[""] = true
	}
	var got []string
	for a := range answers {
		got = append(got, a)
	}
	sort.Strings(got)
	for _, a := range got {
		if !ok[a] {
			var w []string
			for _, i := range want {
				w = append(w, table[i])
			}
			return "precedence", fmt.Sprintf("table %v host %q: answered %q; acceptable entries: %v", table, host, a, w), n
		}
	}
	if len(got) > 1 {
		return "unstable", fmt.Sprintf("table %v host %q: answer depends on map iteration order: %v", table, host, got), n
	}
	return "", "", n
}

func c18Minimise(c *Ctx, table []string, host, clause string) []string {
	cur := append([]string(nil), table...)
	for i := 0; i < len(cur); {
		t := append(append([]string(nil), cur[:i]...), cur[i+1:]...)
		if cl, _, _ := c18Eval(c, t, host); cl == clause {
			cur = t
		} else {
			i++
		}
	}
	return cur
}

// c18Sequence: all hosts on one table instance, forwards then backwards; every answer must be
// acceptable and equal to the first answer given for that host.
func c18Sequence(table []string) (cl string, detail string) { return c18SequenceVol(table, 0) }

// c18SequenceVol: with vol > 0, that many further distinct hosts are looked up between the forward and
// the backward pass (a long-lived process sees many destinations), and the first 64 of them again at the end.
func c18SequenceVol(table []string, vol int) (cl string, detail string) {
	if cr := guard(func() {
		pcr := NewPreConfigRoute()
		for i, p := range table {
			pcr.AddRouteItem("udp", p, fmt.Sprintf("nh%d.example.net:%d", i, 6000+i))
		}
		first := map[string]string{}
		order := append([]string(nil), c18Hosts...)
		for i := 0; i < vol; i++ {
			order = append(order, []string{fmt.Sprintf("n%d.example.com", i), fmt.Sprintf("n%d.org", i), fmt.Sprintf("n%d", i), fmt.Sprintf("a.n%d.example.com.example.com", i), fmt.Sprintf("x.n%dg", i)}[i%5])
		}
		for i := len(c18Hosts) - 1; i >= 0; i-- {
			order = append(order, c18Hosts[i])
		}
		for i := 0; i < vol && i < 64; i++ {
			order = append(order, order[len(c18Hosts)+i])
		}
		for _, h := range order {
			_, nh, port, err := pcr.FindRoute(h)
			ans := ""
			if err == nil {
				ans = fmt.Sprintf("%s:%d", nh, port)
			}
			ok := false
			want := refRoute(table, h)
			if want == nil && ans == "" {
				ok = true
			}
			for _, i := range want {
				if ans == fmt.Sprintf("nh%d.example.net:%d", i, 6000+i) {
					ok = true
				}
			}
			if !ok {
				cl, detail = "precedence", fmt.Sprintf("table %v host %q (in a sequence of lookups on one table): answered %q", table, h, ans)
				return
			}
			if prev, seen := first[h]; seen && prev != ans {
				cl, detail = "unstable-across-lookups", fmt.Sprintf("table %v: host %q answered %q first and %q after other hosts had been looked up", table, h, prev, ans)
				return
			}
			first[h] = ans
		}
	}); cr != "" {
		return "panic", fmt.Sprintf("table %v: %s", table, cr)
	}
	return
}

func c18MinimiseSeq(table []string) []string {
	cur := append([]string(nil), table...)
	for i := 0; i < len(cur); {
		t := append(append([]string(nil), cur[:i]...), cur[i+1:]...)
		if cl, _ := c18Sequence(t); cl != "" {
			cur = t
		} else {
			i++
		}
	}
	return cur
}

func c18Tables(maxN int) [][]string {
	var out [][]string
	var rec func(start int, cur []string)
	rec = func(start int, cur []string) {
		out = append(out, append([]string(nil), cur...))
		if len(cur) == maxN {
			return
		}
		for i := start; i < len(c18Patterns); i++ {
			rec(i+1, append(cur, c18Patterns[i]))
		}
	}
	rec(0, nil)
	return out
}

func c18Run(c *Ctx) {
	maxN := 4
	if c.Thorough() {
		maxN = 5
	}
	tables := c18Tables(maxN)
	var idx int64
	for _, t := range tables {
		for _, h := range c18Hosts {
			idx++
			if !c.Mine(idx) {
				continue
			}
			if c.Expired() {
				return
			}
			cl, detail, n := c18Eval(c, t, h)
			c.Res.Evaluations++
			c.Res.Executions += n
			if len(refRoute(t, h)) > 0 {
				c.Res.Nontrivial++
			}
			if n > 1 {
				c.Count("lookups_with_several_map_orders", 1)
			}
			c.Outcome(fmt.Sprintf("matches=%d", len(refRoute(t, h))))
			if idx%5000 == 1 {
				c.Sample(c18Case{t, h, "direct"})
			}
			if cl != "" {
				min := c18Minimise(c, t, h, cl)
				c.Violate(cl+"|"+strings.Join(min, ","), cl, detail, c18Case{t, h, "direct"})
			}
		}
	}
	// one table INSTANCE, many lookups: the answer for a host must not depend on which other hosts
	// were looked up before (canonical map order; every host looked up, then again in reverse order)
	idx = 0
	for _, t := range tables {
		idx++
		if !c.Mine(idx) || c.Expired() {
			continue
		}
		cl, detail := c18Sequence(t)
		c.Res.Evaluations++
		c.Res.Executions += int64(2 * len(c18Hosts))
		c.Res.Nontrivial++
		if cl != "" {
			c.Violate(cl+"|"+strings.Join(c18MinimiseSeq(t), ","), cl, detail, c18Case{t, "", "sequence"})
		}
		if len(t) <= 2 {
			// volume: many distinct destinations on one table instance
			vol := 700
			if c.Thorough() {
				vol = 6000
			}
			cl, detail := c18SequenceVol(t, vol)
			c.Res.Evaluations++
			c.Res.Executions += int64(2*len(c18Hosts) + vol + 64)
			if cl != "" {
				c.Violate(cl+"|volume|"+strings.Join(t, ","), cl, detail, c18Case{t, fmt.Sprint(vol), "sequence-volume"})
			}
		}
	}
	// next-hop port rule, crossed with the protocol spelling
	if c.Worker == 0 {
		for _, proto := range []string{"udp", "tcp", "tls", "TLS", "UDP"} {
			for _, nh := range []string{"nh.example.net", "nh.example.net:5070", "10.0.0.1", "10.0.0.1:5060", "10.0.0.1:1"} {
				pcr := NewPreConfigRoute()
				pcr.AddRouteItem(proto, "x.example.com", nh)
				p, h, port, err := pcr.FindRoute("x.example.com")
				c.Res.Evaluations++
				c.Res.Nontrivial++
				wantHost, wantPort := nh, 5060
				if strings.EqualFold(proto, "tls") {
					wantPort = 5061
				}
				if i := strings.LastIndex(nh, ":"); i >= 0 {
					wantHost = nh[:i]
					fmt.Sscanf(nh[i+1:], "%d", &wantPort)
				}
				if err != nil || h != wantHost || port != wantPort || p != proto {
					c.Violate("port-rule|"+strings.ToLower(proto)+"|"+fmt.Sprint(strings.Contains(nh, ":")), "port-rule",
						fmt.Sprintf("protocol %q next hop %q: got (%q,%q,%d,%v) want (%q,%q,%d)", proto, nh, p, h, port, err, proto, wantHost, wantPort),
						c18Case{[]string{proto, nh}, "x.example.com", "port"})
				}
			}
		}
	}
	c18EndToEnd(c)
}

// c18EndToEnd: the same lookup through a running proxy: a request whose To host is h must leave
// towards the next hop of the expected entry (tables of up to 2 entries, canonical map order).
func c18EndToEnd(c *Ctx) {
	c18EndToEndMode(c, "e2e")
	c18EndToEndMode(c, "e2e-grouped")
	c18EndToEndMode(c, "e2e-bad-entry-first")
}

// grouped: all patterns of the table except `default` are the destinations of ONE route entry (in
// table order and in reverse order), `default` is an entry of its own
// e2e-bad-entry-first: one route entry per pattern, preceded by an entry the proxy cannot use (its
// next hop does not parse): the remaining entries are consulted as if it were not there
func c18EndToEndMode(c *Ctx, mode string) {
	grouped, bad := mode == "e2e-grouped", mode == "e2e-bad-entry-first"
	tables := c18Tables(2)
	if grouped {
		tables = c18Tables(3)
	}
	var idx int64
	for _, t0 := range tables {
		idx++
		if !c.Mine(idx) || c.Expired() {
			continue
		}
		t := t0
		if grouped {
			if len(t0) < 2 {
				continue
			}
			if idx%2 == 1 {
				t = nil
				for i := len(t0) - 1; i >= 0; i-- {
					t = append(t, t0[i])
				}
			}
		}
		hopOf := func(i int) string { return fmt.Sprintf("127.0.1.%d:%d", i+1, 6000+i) }
		var y strings.Builder
		y.WriteString("proxies:\n- name: svc.example.com\n  listens:\n  - address: 127.0.0.1\n    udp-port: 5060\n    backends:\n    - udp://127.0.0.1:7990\n")
		if len(t) > 0 {
			y.WriteString("  route:\n")
		}
		if grouped {
			var ds []string
			for _, p := range t {
				if p != "default" {
					ds = append(ds, "\""+p+"\"")
				}
			}
			if len(ds) > 0 {
				fmt.Fprintf(&y, "  - dests: [%s]\n    protocol: udp\n    nexthop: 127.0.1.1:6000\n", strings.Join(ds, ", "))
			}
			for _, p := range t {
				if p == "default" {
					y.WriteString("  - dests: [\"default\"]\n    protocol: udp\n    nexthop: 127.0.1.2:6001\n")
				}
			}
			hopOf = func(i int) string {
				if t[i] == "default" {
					return "127.0.1.2:6001"
				}
				return "127.0.1.1:6000"
			}
		} else {
			if bad && len(t) > 0 {
				y.WriteString("  - dests: [\"v6.unusable.invalid\"]\n    protocol: udp\n    nexthop: \"[2001:db8::10]\"\n")
			}
			for i, p := range t {
				fmt.Fprintf(&y, "  - dests: [\"%s\"]\n    protocol: udp\n    nexthop: 127.0.1.%d:%d\n", p, i+1, 6000+i)
			}
		}
		s := StartSim(y.String(), SimOpts{})
		ua := s.UDPPeer("127.0.0.9:5060")
		for hi, h := range c18Hosts {
			if h == "" {
				continue
			}
			m := MsgSpec{Method: "OPTIONS", RURI: "sip:u@foreign.example.net", Vias: []string{fmt.Sprintf("SIP/2.0/UDP 127.0.0.9:5060;branch=z9hG4bKe%d", hi)},
				From: "<sip:a@a.example.net>;tag=1", To: "<sip:u@" + h + ">", CallID: fmt.Sprintf("c%d", hi), CSeq: "1 OPTIONS"}.Build()
			s.Emitted()
			ua.Send("127.0.0.1:5060", m.Render())
			s.Run()
			out := s.Emitted()
			c.Res.Evaluations++
			c.Res.Executions++
			want := refRoute(t, h)
			ok := false
			got := "nothing"
			switch {
			case len(out) == 0:
				ok = want == nil
			case len(out) == 1:
				got = out[0].To
				for _, i := range want {
					if out[0].To == hopOf(i) {
						ok = true
					}
				}
			default:
				got = fmt.Sprintf("%d packets", len(out))
			}
			if want != nil {
				c.Res.Nontrivial++
			}
			if v := s.Verdict(); v != "" {
				ok, got = false, v
			}
			if !ok {
				c.Violate(mode+"|"+strings.Join(t, ","), "e2e-precedence", fmt.Sprintf("table %v (%s) To host %q: request left towards %s", t, map[bool]string{true: "all patterns but default are destinations of one route entry", false: "one route entry per pattern"}[grouped]+map[bool]string{true: ", preceded by an entry whose next hop does not parse", false: ""}[bad], h, got), c18Case{t, h, mode})
			}
		}
		s.Close()
	}
}

func init() {
	addCheck(&Check{ID: "C18", Level: "exploration",
		Rule:   "all route tables of <=4 (thorough <=5) entries over a 15-pattern universe (incl. equal-length overlapping wildcards, inner wildcards and a literal with capitals) x 21 hosts (incl. hosts in which a pattern's tail occurs twice and hosts in which the literal pieces around an inner wildcard would have to overlap), each lookup executed under every map iteration order (all permutations, explorer choice); non-trivial = at least one entry matches; plus, per table, all hosts looked up forwards and backwards on ONE table instance (the answer must not depend on earlier lookups; for tables of <=2 entries also with 700 - thorough 6000 - further distinct hosts looked up in between), the port rule table and end-to-end lookups by To host through a proxy configured from YAML, with one route entry per pattern and with all patterns of a table as the destinations of ONE entry (both orders)",
		Assume: []string{"Go's regexp package is trusted for nothing: the reference matcher is an independent recursive wildcard matcher"},
		Run:    c18Run,
		Replay: func(c *Ctx, raw json.RawMessage) string {
			var cs c18Case
			json.Unmarshal(raw, &cs)
			if cs.Mode == "sequence" {
				cl, _ := c18Sequence(cs.Table)
				return cl
			}
			if cs.Mode == "sequence-volume" {
				vol := 700
				fmt.Sscanf(cs.Host, "%d", &vol)
				cl, _ := c18SequenceVol(cs.Table, vol)
				return cl
			}
			if cs.Mode == "e2e" || cs.Mode == "e2e-grouped" || cs.Mode == "e2e-bad-entry-first" {
				// re-run the end-to-end pass and look for this table
				cc := &Ctx{ID: "C18x", Tier: c.Tier, Res: newResult(), vmap: map[string]*Violation{}, Deadline: c.Deadline, NWorkers: 1}
				c18EndToEndMode(cc, cs.Mode)
				for _, v := range cc.Res.Violations {
					if v.Sig == cs.Mode+"|"+strings.Join(cs.Table, ",") {
						return v.Clause
					}
				}
				return ""
			}
			if cs.Mode != "direct" {
				return ""
			}
			cl, _, _ := c18Eval(c, cs.Table, cs.Host)
			return cl
		}})
}
