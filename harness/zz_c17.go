//go:build verif && (c17 || all)

package main

import (
	"encoding/json"
	"fmt"
	"strings"
)

// C17 — header spelling and list layout do not change what the proxy does (DESIGN.md §4 C17).
// Metamorphic: a base scenario and a variant (one or two header names respelled, or a routing
// list re-laid-out) run on identically prepared worlds must agree on every observation.

var c17Canon = map[string]string{"via": "Via", "from": "From", "to": "To", "call-id": "Call-ID", "cseq": "CSeq", "max-forwards": "Max-Forwards", "contact": "Contact",
	"content-length": "Content-Length", "content-type": "Content-Type", "expires": "Expires", "route": "Route", "record-route": "Record-Route",
	"subscription-state": "Subscription-State", "event": "Event", "supported": "Supported", "subject": "Subject", "x-ext": "X-Ext"}
var c17Compact = map[string]string{"via": "v", "from": "f", "to": "t", "call-id": "i", "contact": "m", "content-length": "l", "content-type": "c", "event": "o", "supported": "k", "subject": "s"}

func c17Spell(canon, kind string) string {
	c := c17Canon[canon]
	switch kind {
	case "compact":
		return c17Compact[canon]
	case "upper":
		return strings.ToUpper(c)
	case "lower":
		return strings.ToLower(c)
	case "alternating":
		b := []byte(strings.ToLower(c))
		for i := range b {
			if i%2 == 1 && b[i] >= 'a' && b[i] <= 'z' {
				b[i] -= 32
			}
		}
		return string(b)
	case "compact-upper":
		return strings.ToUpper(c17Compact[canon])
	}
	return c
}

var c17Kinds = []string{"canonical", "compact", "upper", "lower", "alternating", "compact-upper"}

type c17Step struct {
	From    string // source address of the injection (udp) or "tcp:<name>" for a client connection
	To      string
	Msg     *WMsg
	Subject bool
	Advance int64 // seconds to advance the clock before this step
}

type c17Obs struct {
	Dest []string
	Emit [][]byte
}

type c17Scenario struct {
	Name  string
	Cfg   RCfg
	Steps func() []c17Step
}

// c17Run executes a scenario; mut transforms the subject message.
func c17Run(sc c17Scenario, mut func(m *WMsg) *WMsg) ([]c17Obs, string) {
	w := StartRelayWorld(SimOpts{}, sc.Cfg)
	defer w.Close()
	var out []c17Obs
	for _, st := range sc.Steps() {
		m := st.Msg
		if st.Subject && mut != nil {
			m = mut(m.Clone())
		}
		if st.Advance > 0 {
			w.S.W.Advance(st.Advance * 1e9)
		}
		w.Observe()
		if strings.HasPrefix(st.From, "tcp:") {
			w.SendTCP(w.Client(st.From, "127.0.0.9", st.To), m.Render())
		} else {
			w.SendUDP(st.From, st.To, m.Render())
		}
		obs := w.Observe()
		var o c17Obs
		for _, p := range obs.Pkts {
			o.Dest = append(o.Dest, p.Proto+">"+p.To)
			if st.Subject {
				o.Emit = append(o.Emit, p.Data)
			}
		}
		out = append(out, o)
	}
	return out, w.S.Verdict()
}

// c17View: what must be invariant in an emission.
func c17View(data []byte) string {
	m, err := ReadWire(data)
	if err != nil {
		return "unreadable: " + err.Error()
	}
	var b strings.Builder
	b.WriteString(m.Start + "\n")
	vs, err := m.ViaStack()
	if err != nil {
		b.WriteString("via: undecodable\n")
	}
	for _, v := range vs {
		// the proxy's own fresh branch is a wildcard
		if br, ok := findPar(v.Pars, "branch"); ok && strings.HasPrefix(br.V, "z9hG4bK") && strings.HasPrefix(v.Host, "127.0.0.1") && len(v.Pars) == 1 {
			v.Pars = []Par{{"branch", "*", true}}
		}
		b.WriteString("via: " + v.String() + "\n")
	}
	for _, fam := range []string{"route", "record-route"} {
		l, err := m.NameAddrList(fam)
		if err != nil {
			b.WriteString(fam + ": undecodable\n")
		}
		for _, e := range l {
			b.WriteString(fam + ": " + e.String() + "\n")
		}
	}
	ncl := 0
	for _, h := range m.Hdrs {
		cn := canonName(h.Name)
		switch cn {
		case "via", "route", "record-route":
		case "content-length":
			ncl++
			b.WriteString("content-length: " + h.Value + "\n")
		default:
			b.WriteString(cn + ": " + h.Value + "\n")
		}
	}
	fmt.Fprintf(&b, "content-length-fields: %d\nbody: %q\n", ncl, m.Body)
	return b.String()
}

func c17Compare(base, vr []c17Obs) (string, string) {
	for i := range base {
		if i >= len(vr) {
			return "steps", "variant run ended early"
		}
		if strings.Join(base[i].Dest, " ") != strings.Join(vr[i].Dest, " ") {
			return "destination", fmt.Sprintf("step %d: base run sent [%s], variant run sent [%s]", i, strings.Join(base[i].Dest, " "), strings.Join(vr[i].Dest, " "))
		}
		for k := range base[i].Emit {
			a, b := c17View(base[i].Emit[k]), c17View(vr[i].Emit[k])
			if a != b {
				la, lb := strings.Split(a, "\n"), strings.Split(b, "\n")
				for j := 0; j < len(la) && j < len(lb); j++ {
					if la[j] != lb[j] {
						cl := "content"
						switch {
						case strings.HasPrefix(la[j], "via:") || strings.HasPrefix(lb[j], "via:"):
							cl = "via-stack"
						case strings.HasPrefix(la[j], "route:") || strings.HasPrefix(lb[j], "route:"):
							cl = "route-list"
						case strings.HasPrefix(la[j], "record-route:") || strings.HasPrefix(lb[j], "record-route:"):
							cl = "record-route-list"
						case strings.HasPrefix(la[j], "content-length"):
							cl = "content-length"
						case strings.HasPrefix(la[j], "body"):
							cl = "body"
						}
						return cl, fmt.Sprintf("step %d: relayed content differs:\n base:    %s\n variant: %s\nbase emission %s\nvariant emission %s", i, la[j], lb[j], short(base[i].Emit[k]), short(vr[i].Emit[k]))
					}
				}
				return "content", fmt.Sprintf("step %d: relayed content differs in length", i)
			}
		}
	}
	return "", ""
}

func c17Scenarios() []c17Scenario {
	cfg := RCfg{Name: "svc.example.com", DialogTimeout: 10,
		Listens: []RListen{{Addr: "127.0.0.1", UDP: 5060, TCP: 5062, Backends: []string{"udp://127.0.1.1:7000", "udp://127.0.1.2:7000", "udp://127.0.1.3:7000"}, MustRR: true}},
		Routes:  []RRoute{{Dests: []string{"static.example.org"}, Protocol: "udp", NextHop: "127.0.3.1:5080"}},
		Hosts:   [][2]string{{"proxy.example.com", "127.0.0.1"}}}
	ua := "127.0.0.9:5060"
	lst := "127.0.0.1:5060"
	vias3 := []string{"SIP/2.0/UDP 127.0.0.9:5060;branch=z9hG4bKa;rport;x=o'neil, SIP/2.0/TCP up.example.net:5070;branch=z9hG4bKb", "SIP/2.0/UDP 10.2.2.2;branch=z9hG4bKc"}
	rrs := []string{"<sip:o'hara@10.8.0.1;lr>, Up <sip:up.example.net:5070;lr>;x=1"}
	body := []byte("v=0\r\ns=-\r\n")
	extra := []WHdr{{"Contact", "<sip:alice@127.0.0.9:5060>"}, {"Content-Type", "application/sdp"}, {"Supported", "100rel"}, {"Subject", "hello"}, {"X-Ext", "1"}, {"Event", "presence"}}
	req := func(method, ruri string, cseq string, toTag string, routes []string) *WMsg {
		to := "<sip:bob@svc.example.com>"
		if toTag != "" {
			to += ";tag=" + toTag
		}
		return MsgSpec{Method: method, RURI: ruri, Vias: vias3, Routes: routes, RRs: rrs, From: "\"A\" <sip:alice@ua.example.net>;tag=f1", To: to, CallID: "c17@host", CSeq: cseq + " " + method,
			Extra: extra, Body: body}.Build()
	}
	invite := func() *WMsg { return req("INVITE", "sip:bob@svc.example.com", "1", "", nil) }
	// the 200 a backend sends: built from what the proxy relays for invite() (proxy Via on top)
	resp200 := func(extra ...WHdr) *WMsg {
		m := MsgSpec{Status: 200, Reason: "OK", Vias: append([]string{"SIP/2.0/UDP 127.0.0.1:5060;branch=z9hG4bKproxy"}, vias3...), RRs: rrs,
			From: "\"A\" <sip:alice@ua.example.net>;tag=f1", To: "<sip:bob@svc.example.com>;tag=t1", CallID: "c17@host", CSeq: "1 INVITE", Extra: append([]WHdr{{"Contact", "<sip:bob@127.0.1.2:7000>"}}, extra...), Body: body}.Build()
		return m
	}
	info := func(n int) *WMsg { return req("INFO", "sip:bob@svc.example.com", fmt.Sprint(n), "t1", nil) }
	sub := func() *WMsg {
		return MsgSpec{Method: "SUBSCRIBE", RURI: "sip:alice@ua.example.net", Vias: []string{"SIP/2.0/UDP 127.0.1.2:7000;branch=z9hG4bKsub"}, Routes: []string{"<sip:127.0.0.9:5060;lr>"},
			From: "<sip:bob@svc.example.com>;tag=bs", To: "<sip:alice@ua.example.net>", CallID: "sub17", CSeq: "1 SUBSCRIBE", Extra: []WHdr{{"Event", "presence"}, {"Expires", "3600"}}}.Build()
	}
	return []c17Scenario{
		{"request-to-backend", cfg, func() []c17Step { return []c17Step{{ua, lst, invite(), true, 0}} }},
		{"request-to-backend-tcp", cfg, func() []c17Step {
			return []c17Step{{"tcp:a", "127.0.0.1:5062", invite(), true, 0}, {"tcp:a", "127.0.0.1:5062", info(2), false, 0}}
		}},
		{"request-by-route", cfg, func() []c17Step {
			return []c17Step{{ua, lst, req("OPTIONS", "sip:x@foreign.example.net", "1", "", []string{"<sip:proxy.example.com:5060;lr>, <sip:o'brien@127.0.2.1:5070;lr>", "<sip:127.0.2.2;lr>;p=1, \"N\" <sip:10.3.3.3;lr>"}), true, 0}}
		}},
		// a route set that begins with TWO entries for this listener (a dialog set up by a spiralled request)
		{"request-by-route-own-twice", cfg, func() []c17Step {
			return []c17Step{{ua, lst, req("OPTIONS", "sip:x@foreign.example.net", "1", "", []string{"<sip:proxy.example.com:5060;lr>, <sip:127.0.0.1:5060;lr>, <sip:o'brien@127.0.2.1:5070;lr>", "<sip:127.0.2.2;lr>;p=1"}), true, 0}}
		}},
		{"request-by-static-route", cfg, func() []c17Step {
			m := req("OPTIONS", "sip:x@foreign.example.net", "1", "", nil)
			for i := range m.Hdrs {
				if m.Hdrs[i].Name == "To" {
					m.Hdrs[i].Value = "<sip:x@static.example.org>"
				}
			}
			return []c17Step{{ua, lst, m, true, 0}}
		}},
		{"response-by-via", cfg, func() []c17Step { return []c17Step{{"127.0.1.2:7000", lst, resp200(), true, 0}} }},
		// a TCP client's request is relayed by Route to a UDP next hop; the next hop's response (subject)
		// returns on the client's connection
		{"response-to-tcp-client", cfg, func() []c17Step {
			rq := MsgSpec{Method: "OPTIONS", RURI: "sip:x@foreign.example.net", Vias: []string{"SIP/2.0/TCP 127.0.0.9:5060;branch=z9hG4bKtc", "SIP/2.0/UDP 10.2.2.2;branch=z9hG4bKc"}, Routes: []string{"<sip:127.0.2.1:5070;lr>"},
				From: "\"A\" <sip:alice@ua.example.net>;tag=f1", To: "<sip:x@foreign.example.net>", CallID: "c17tcp@host", CSeq: "7 OPTIONS"}.Build()
			rs := MsgSpec{Status: 200, Reason: "OK", Vias: []string{"SIP/2.0/UDP 127.0.0.1:5060;branch=z9hG4bKproxy", "SIP/2.0/TCP 127.0.0.9:5060;branch=z9hG4bKtc;received=127.0.0.9", "SIP/2.0/UDP 10.2.2.2;branch=z9hG4bKc"},
				From: "\"A\" <sip:alice@ua.example.net>;tag=f1", To: "<sip:x@foreign.example.net>;tag=tt", CallID: "c17tcp@host", CSeq: "7 OPTIONS", Extra: []WHdr{{"Contact", "<sip:x@127.0.2.1:5070>"}}}.Build()
			return []c17Step{{"tcp:a", "127.0.0.1:5062", rq, false, 0}, {"127.0.2.1:5070", lst, rs, true, 0}}
		}},
		// the establishing response is the subject: the pin it creates is probed by three in-dialog requests
		{"pin-by-response", cfg, func() []c17Step {
			return []c17Step{{ua, lst, invite(), false, 0}, {"127.0.1.2:7000", lst, resp200(), true, 0}, {ua, lst, info(2), false, 0}, {ua, lst, info(3), false, 0}, {ua, lst, info(4), false, 0}}
		}},
		// an in-dialog request is the subject
		{"in-dialog-request", cfg, func() []c17Step {
			return []c17Step{{ua, lst, invite(), false, 0}, {"127.0.1.2:7000", lst, resp200(), false, 0}, {ua, lst, info(2), false, 0}, {ua, lst, info(3), true, 0}, {ua, lst, info(4), false, 0}}
		}},
		// Expires of the establishing response extends the pin beyond dialogTimeout (10 s)
		{"pin-lifetime-by-expires", cfg, func() []c17Step {
			return []c17Step{{ua, lst, invite(), false, 0}, {"127.0.1.2:7000", lst, resp200(WHdr{"Expires", "100"}), true, 0}, {ua, lst, info(2), false, 50}, {ua, lst, info(3), false, 0}, {ua, lst, info(4), false, 0}}
		}},
		// NOTIFY with Subscription-State: terminated dissolves the pin
		{"notify-terminated", cfg, func() []c17Step {
			n := req("NOTIFY", "sip:bob@svc.example.com", "5", "t1", nil)
			n.Hdrs = append(n.Hdrs[:len(n.Hdrs)-1], WHdr{"Subscription-State", "terminated"}, n.Hdrs[len(n.Hdrs)-1])
			return []c17Step{{ua, lst, invite(), false, 0}, {"127.0.1.2:7000", lst, resp200(), false, 0}, {ua, lst, n, true, 0}, {ua, lst, info(6), false, 0}, {ua, lst, info(7), false, 0}, {ua, lst, info(8), false, 0}}
		}},
		// SUBSCRIBE issued by a backend; its response (subject) pins the dialog to that backend
		{"subscribe-response-pins", cfg, func() []c17Step {
			r := MsgSpec{Status: 200, Reason: "OK", Vias: []string{"SIP/2.0/UDP 127.0.0.1:5060;branch=z9hG4bKp", "SIP/2.0/UDP 127.0.1.2:7000;branch=z9hG4bKsub"},
				From: "<sip:bob@svc.example.com>;tag=bs", To: "<sip:alice@ua.example.net>;tag=as", CallID: "sub17", CSeq: "1 SUBSCRIBE", Extra: []WHdr{{"Expires", "3600"}}}.Build()
			nt := func(n int) *WMsg {
				return MsgSpec{Method: "NOTIFY", RURI: "sip:bob@svc.example.com", Vias: []string{fmt.Sprintf("SIP/2.0/UDP 127.0.0.9:5060;branch=z9hG4bKn%d", n)},
					From: "<sip:alice@ua.example.net>;tag=as", To: "<sip:bob@svc.example.com>;tag=bs", CallID: "sub17", CSeq: fmt.Sprintf("%d NOTIFY", n), Extra: []WHdr{{"Event", "presence"}, {"Subscription-State", "active"}}}.Build()
			}
			return []c17Step{{"127.0.1.2:7000", lst, sub(), false, 0}, {ua, lst, r, true, 0}, {ua, lst, nt(1), false, 0}, {ua, lst, nt(2), false, 0}, {ua, lst, nt(3), false, 0}}
		}},
	}
}

type c17Variant struct {
	Scenario string   `json:"scenario"`
	Kind     string   `json:"kind"` // spell | layout
	Headers  []string `json:"headers,omitempty"`
	Spelling []string `json:"spellings,omitempty"`
	Line     int      `json:"line,omitempty"` // spell-line: which line of the repeated header (0-based)
	Family   string   `json:"family,omitempty"`
	Mask     int      `json:"mask,omitempty"`
	Sep      string   `json:"sep,omitempty"`
}

func (vt c17Variant) apply(m *WMsg) *WMsg {
	if vt.Kind == "spell-line" {
		k := 0
		for i := range m.Hdrs {
			if canonName(m.Hdrs[i].Name) == vt.Headers[0] {
				if k == vt.Line {
					m.Hdrs[i].Name = c17Spell(vt.Headers[0], vt.Spelling[0])
				}
				k++
			}
		}
		return m
	}
	if vt.Kind == "spell" {
		for k, h := range vt.Headers {
			for i := range m.Hdrs {
				if canonName(m.Hdrs[i].Name) == h {
					m.Hdrs[i].Name = c17Spell(h, vt.Spelling[k])
				}
			}
		}
		return m
	}
	// layout: re-compose the entries of one family, in place of its first line
	var entries []string
	first := -1
	var rest []WHdr
	name := ""
	for i, h := range m.Hdrs {
		if canonName(h.Name) == vt.Family {
			if first < 0 {
				first = len(rest)
				name = h.Name
			}
			for _, e := range SplitTop(h.Value, ',') {
				entries = append(entries, trimBlanks(e))
			}
			_ = i
			continue
		}
		rest = append(rest, h)
	}
	if first < 0 {
		return m
	}
	var lines []WHdr
	cur := entries[0]
	for i := 1; i < len(entries); i++ {
		if vt.Mask&(1<<(i-1)) != 0 {
			lines = append(lines, WHdr{name, cur})
			cur = entries[i]
		} else {
			cur += vt.Sep + entries[i]
		}
	}
	lines = append(lines, WHdr{name, cur})
	m.Hdrs = append(append(append([]WHdr(nil), rest[:first]...), lines...), rest[first:]...)
	return m
}

func c17Variants(sc c17Scenario, thorough bool) []c17Variant {
	var subject *WMsg
	for _, st := range sc.Steps() {
		if st.Subject {
			subject = st.Msg
		}
	}
	var out []c17Variant
	var names []string
	seen := map[string]bool{}
	for _, h := range subject.Hdrs {
		cn := canonName(h.Name)
		if _, ok := c17Canon[cn]; ok && !seen[cn] {
			seen[cn] = true
			names = append(names, cn)
		}
	}
	spellings := func(cn string) []string {
		var ks []string
		for _, k := range c17Kinds[1:] {
			if strings.HasPrefix(k, "compact") && c17Compact[cn] == "" {
				continue
			}
			ks = append(ks, k)
		}
		return ks
	}
	for _, cn := range names {
		for _, k := range spellings(cn) {
			out = append(out, c17Variant{Scenario: sc.Name, Kind: "spell", Headers: []string{cn}, Spelling: []string{k}})
		}
	}
	if thorough {
		for i, a := range names {
			for _, b := range names[i+1:] {
				for _, ka := range spellings(a) {
					for _, kb := range spellings(b) {
						out = append(out, c17Variant{Scenario: sc.Name, Kind: "spell", Headers: []string{a, b}, Spelling: []string{ka, kb}})
					}
				}
			}
		}
	}
	// independent respelling: only ONE line of a header that occupies several lines
	for _, fam := range []string{"via", "route", "record-route"} {
		lines := len(subject.All(fam))
		if lines < 2 {
			continue
		}
		for k := 0; k < lines; k++ {
			for _, sp := range spellings(fam) {
				out = append(out, c17Variant{Scenario: sc.Name, Kind: "spell-line", Headers: []string{fam}, Spelling: []string{sp}, Line: k})
			}
		}
	}
	for _, fam := range []string{"via", "route", "record-route"} {
		n := 0
		for _, val := range subject.All(fam) {
			n += len(SplitTop(val, ','))
		}
		if n < 2 {
			continue
		}
		for mask := 0; mask < 1<<(n-1); mask++ {
			for _, sep := range []string{",", ", "} {
				out = append(out, c17Variant{Scenario: sc.Name, Kind: "layout", Family: fam, Mask: mask, Sep: sep})
			}
		}
	}
	return out
}

func c17EvalVariant(sc c17Scenario, base []c17Obs, vt c17Variant) (string, string) {
	vr, vd := c17Run(sc, vt.apply)
	if vd != "" {
		return "health", vd
	}
	return c17Compare(base, vr)
}

func c17RunAll(c *Ctx) {
	var idx int64
	for _, sc := range c17Scenarios() {
		base, vd := c17Run(sc, nil)
		if vd != "" {
			c.Violate("health|"+sc.Name, "health", "base run of "+sc.Name+": "+vd, c17Variant{Scenario: sc.Name})
			continue
		}
		if c.Worker == 0 {
			var ds []string
			for _, o := range base {
				ds = append(ds, "["+strings.Join(o.Dest, " ")+"]")
			}
			c.Res.Notes = append(c.Res.Notes, "base run of "+sc.Name+": "+strings.Join(ds, " "))
		}
		// vacuity guard: the subject of every scenario must be relayed in the base run
		relayed := false
		for _, o := range base {
			if len(o.Emit) > 0 {
				relayed = true
			}
		}
		if !relayed {
			c.Res.Notes = append(c.Res.Notes, "scenario "+sc.Name+": subject not relayed in the base run")
		}
		for _, vt := range c17Variants(sc, c.Thorough()) {
			idx++
			if !c.Mine(idx) {
				continue
			}
			if c.Expired() {
				return
			}
			cl, detail := c17EvalVariant(sc, base, vt)
			c.Res.Evaluations++
			c.Res.Executions++
			if relayed {
				c.Res.Nontrivial++
			}
			if idx%97 == 1 {
				c.Sample(vt)
			}
			c.Outcome(sc.Name)
			if cl != "" {
				sig := cl + "|" + sc.Name + "|"
				if vt.Kind == "spell-line" {
					sp := vt.Spelling[0]
					if sp == "upper" || sp == "lower" || sp == "alternating" {
						sp = "case"
					}
					sig += fmt.Sprintf("one-line:%s=%s", vt.Headers[0], sp)
				} else if vt.Kind == "spell" {
					// minimise a pair to a single respelling when one alone suffices
					if len(vt.Headers) == 2 {
						for k := 0; k < 2; k++ {
							one := c17Variant{Scenario: sc.Name, Kind: "spell", Headers: []string{vt.Headers[k]}, Spelling: []string{vt.Spelling[k]}}
							if cl1, d1 := c17EvalVariant(sc, base, one); cl1 != "" {
								vt, cl, detail = one, cl1, d1
								break
							}
						}
						sig = cl + "|" + sc.Name + "|"
					}
					var parts []string
					for k := range vt.Headers {
						sp := vt.Spelling[k]
						if sp == "upper" || sp == "lower" || sp == "alternating" {
							sp = "case"
						}
						parts = append(parts, vt.Headers[k]+"="+sp)
					}
					sig += strings.Join(parts, ",")
				} else {
					sig += "layout:" + vt.Family
				}
				c.Violate(sig, cl, fmt.Sprintf("scenario %s, variant %+v\n%s", sc.Name, vt, detail), vt)
			}
		}
	}
}

func init() {
	addCheck(&Check{ID: "C17", Level: "exploration",
		Rule: "metamorphic: every canonical call flow (zz_flows.go) with two Via values on separate lines against the same flow with the values comma-joined (step by step the same destinations); and 12 scenarios (request to backend over UDP and TCP, by Route, by a Route set that names the listener twice, by static route, response by Via, pin by INVITE response, in-dialog request, pin lifetime by Expires, NOTIFY terminated, SUBSCRIBE response pinning) x every variant of the subject message with ONE header name respelled (compact where it exists, upper, lower, alternating case, upper-case compact; all headers incl. Content-Length, CSeq, Call-ID, Expires, Subscription-State, Record-Route; thorough: every PAIR of simultaneous respellings), with only ONE line of a multi-line Via/Route/Record-Route respelled (independent respelling) and every re-layout (all compositions, with/without blank after comma) of the Via / Route / Record-Route lists; base and variant run on identically prepared worlds and must agree on every destination of every step (incl. the follow-up in-dialog probes = pinning decision), decoded Via/Route/Record-Route stacks, remaining fields modulo the respelled names, single Content-Length and body; non-trivial = subject relayed in the base run",
		Run: func(c *Ctx) {
			c17RunAll(c)
			RunFlowLayoutPairs(c)
		},
		Replay: func(c *Ctx, raw json.RawMessage) string {
			if cl, ok := ReplayFlow(raw); ok {
				return cl
			}
			var vt c17Variant
			json.Unmarshal(raw, &vt)
			for _, sc := range c17Scenarios() {
				if sc.Name == vt.Scenario {
					base, _ := c17Run(sc, nil)
					cl, _ := c17EvalVariant(sc, base, vt)
					return cl
				}
			}
			return "harness: unknown scenario"
		}})
}
