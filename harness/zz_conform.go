//go:build verif

package main

// Wire conformance, simulation side (DESIGN.md §2.8): canonical traces are executed in the
// deterministic simulation and dumped (stimuli + what the simulated network saw); /verif/conform
// replays them against the pristine binary over real loopback sockets.

import (
	"encoding/base64"
	"encoding/json"
	"fmt"
	"os"
	"strings"

	"github.com/ochinchina/sipproxy/vrt/vnet"
)

type cfEmission struct {
	Proto string `json:"proto"`
	To    string `json:"to"`
	Data  string `json:"data"`
}

type cfStep struct {
	Kind    string       `json:"kind"`
	From    string       `json:"from"`
	To      string       `json:"to"`
	Conn    string       `json:"conn,omitempty"`
	Data    string       `json:"data,omitempty"`
	Expect  []cfEmission `json:"expect"`
	Barrier bool         `json:"barrier,omitempty"`
}

type cfTrace struct {
	Name  string   `json:"name"`
	YAML  string   `json:"yaml"`
	Peers []string `json:"peers"`
	Steps []cfStep `json:"steps"`
}

type cfScript struct {
	name  string
	cfg   RCfg
	steps []cfStep // stimuli only
}

func cfReq(method, ruri, via string, extra ...WHdr) []byte {
	sp := MsgSpec{Method: method, RURI: ruri, Vias: []string{via}, From: "\"A\" <sip:alice@ua.example.net>;tag=f1", To: "<sip:bob@svc.example.com>", CallID: "conf-" + method + "@host", CSeq: "1 " + method,
		Extra: []WHdr{{"Contact", "<sip:alice@127.0.0.9>"}, {"X-Pct", "100%s %41"}}, Body: []byte("v=0\r\ns=-\r\n")}
	m := sp.Build()
	// extra headers that steer routing go before From
	var hs []WHdr
	for _, h := range m.Hdrs {
		if h.Name == "From" {
			hs = append(hs, extra...)
		}
		hs = append(hs, h)
	}
	m.Hdrs = hs
	return m.Render()
}

func cfScripts() []cfScript {
	b64 := func(b []byte) string { return base64.StdEncoding.EncodeToString(b) }
	base := RCfg{Name: "svc.example.com", DialogTimeout: 600,
		Listens: []RListen{{Addr: "127.0.0.1", UDP: 5060, TCP: 5062, Backends: []string{"udp://127.0.1.1:7000", "udp://127.0.1.2:7000"}}},
		Routes:  []RRoute{{Dests: []string{"static.example.org"}, Protocol: "tcp", NextHop: "127.0.3.2:5090"}},
		Hosts:   [][2]string{{"proxy.example.com", "127.0.0.1"}, {"nh.example.net", "127.0.2.1"}}}
	udpVia := "SIP/2.0/UDP 10.99.0.1:5099;branch=z9hG4bKua1;rport"
	tcpVia := "SIP/2.0/TCP 10.99.0.1:5099;branch=z9hG4bKua2"
	ua, lst, lstTCP := "127.0.0.9:5060", "127.0.0.1:5060", "127.0.0.1:5062"
	var out []cfScript
	// T1: UDP request to a backend (received/rport stamped), response back to the true source
	resp := func(code int, topVia string, vias ...string) []byte {
		return MsgSpec{Status: code, Reason: "OK", Vias: append([]string{topVia}, vias...), From: "\"A\" <sip:alice@ua.example.net>;tag=f1", To: "<sip:bob@svc.example.com>;tag=t1", CallID: "conf-INVITE@host", CSeq: "1 INVITE"}.Build().Render()
	}
	out = append(out, cfScript{"udp-request-and-response", base, []cfStep{
		{Kind: "udp", From: ua, To: lst, Data: b64(cfReq("INVITE", "sip:bob@svc.example.com", udpVia))},
		{Kind: "udp", From: "127.0.1.2:7000", To: lst, Data: b64(resp(200, "SIP/2.0/UDP 127.0.0.1:5060;branch=z9hG4bKfromproxy", "SIP/2.0/UDP 10.99.0.1:5099;branch=z9hG4bKua1;rport=5060;received=127.0.0.9"))},
		{Kind: "udp", From: ua, To: lst, Data: b64(cfReq("INFO", "sip:bob@svc.example.com", "SIP/2.0/UDP 10.99.0.1:5099;branch=z9hG4bKua3", WHdr{"X-Dialog", "1"}))},
	}})
	// T2: Route relay: own entry by alias consumed, next hop stripped, rest kept; Record-Route present
	out = append(out, cfScript{"route-relay", base, []cfStep{
		{Kind: "udp", From: ua, To: lst, Data: b64(cfReq("OPTIONS", "sip:x@foreign.example.net", udpVia,
			WHdr{"Route", "<sip:proxy.example.com:5060;lr>, <sip:nh.example.net:5070;lr>;p=1"}, WHdr{"Route", "\"N\" <sip:10.3.3.3;lr;foo>"}, WHdr{"Record-Route", "<sip:10.8.0.1;lr>"}))},
	}})
	// T3: static route over TCP (the proxy dials), two requests reuse the connection
	st := func(n int) []byte {
		m := MsgSpec{Method: "MESSAGE", RURI: "sip:y@other.example.net", Vias: []string{fmt.Sprintf("SIP/2.0/UDP 10.99.0.1:5099;branch=z9hG4bKst%d", n)}, From: "<sip:a@ua.example.net>;tag=s", To: "<sip:y@static.example.org>", CallID: fmt.Sprintf("conf-static-%d", n), CSeq: "1 MESSAGE", Body: []byte("hello")}.Build()
		return m.Render()
	}
	out = append(out, cfScript{"static-route-tcp", base, []cfStep{
		{Kind: "udp", From: ua, To: lst, Data: b64(st(1))},
		{Kind: "udp", From: ua, To: lst, Data: b64(st(2))},
	}})
	// T4: TCP client, responses return on its connection; a second connection stays silent
	out = append(out, cfScript{"tcp-client-affinity", base, []cfStep{
		{Kind: "tcp-open", From: "127.0.0.9:0", To: lstTCP, Conn: "a"},
		{Kind: "tcp-open", From: "127.0.0.9:0", To: lstTCP, Conn: "b"},
		{Kind: "tcp-write", Conn: "a", Data: b64(cfReq("INVITE", "sip:bob@svc.example.com", tcpVia))},
		{Kind: "udp", From: "127.0.1.2:7000", To: lst, Data: b64(resp(180, "SIP/2.0/UDP 127.0.0.1:5060;branch=z9hG4bKfromproxy", "SIP/2.0/TCP 10.99.0.1:5099;branch=z9hG4bKua2;received=127.0.0.9"))},
		{Kind: "udp", From: "127.0.1.2:7000", To: lst, Data: b64(resp(200, "SIP/2.0/UDP 127.0.0.1:5060;branch=z9hG4bKfromproxy", "SIP/2.0/TCP 10.99.0.1:5099;branch=z9hG4bKua2;received=127.0.0.9"))},
	}})
	// T5: TCP stream with keep-alives, segmentation and a 5000-byte header line
	long := cfReq("OPTIONS", "sip:bob@svc.example.com", "SIP/2.0/TCP 10.99.0.1:5099;branch=z9hG4bKlong", WHdr{"X-Long", strings.Repeat("abcdefghij", 500)})
	stream := append([]byte("\r\n\r\n"), cfReq("INFO", "sip:bob@svc.example.com", tcpVia)...)
	stream = append(stream, []byte("\r\n")...)
	stream = append(stream, long...)
	out = append(out, cfScript{"tcp-framing", base, []cfStep{
		{Kind: "tcp-open", From: "127.0.0.9:0", To: lstTCP, Conn: "a"},
		{Kind: "tcp-write", Conn: "a", Data: b64(stream[:3])},
		{Kind: "tcp-write", Conn: "a", Data: b64(stream[3:200])},
		{Kind: "tcp-write", Conn: "a", Data: b64(stream[200:4300])},
		{Kind: "tcp-write", Conn: "a", Data: b64(stream[4300:])},
	}})
	// T6: truncated datagram (nothing), unsupported transport (nothing), then a barrier request
	trunc := cfReq("INVITE", "sip:bob@svc.example.com", udpVia)
	out = append(out, cfScript{"drops-behind-barrier", base, []cfStep{
		{Kind: "udp", From: ua, To: lst, Data: b64(trunc[:len(trunc)-5])},
		{Kind: "udp", From: ua, To: lst, Data: b64(cfReq("OPTIONS", "sip:x@foreign.example.net", udpVia, WHdr{"Route", "<sip:127.0.2.1:5070;transport=tls;lr>"}))},
		{Kind: "udp", From: ua, To: lst, Data: b64(cfReq("OPTIONS", "sip:nobody@foreign.example.net", udpVia)), Barrier: false},
		{Kind: "udp", From: ua, To: lst, Data: b64(cfReq("OPTIONS", "sip:bob@svc.example.com", "SIP/2.0/UDP 10.99.0.1:5099;branch=z9hG4bKbarrier")), Barrier: true},
	}})
	// T7: no-received listener, must-record-route, keep-next-hop-route
	alt := base
	alt.KeepNextHop = "true"
	alt.Listens = []RListen{{Addr: "127.0.0.1", UDP: 5060, TCP: 5062, Backends: []string{"udp://127.0.1.1:7000"}, NoReceived: "true", MustRR: true}}
	out = append(out, cfScript{"config-flags", alt, []cfStep{
		{Kind: "udp", From: ua, To: lst, Data: b64(cfReq("OPTIONS", "sip:bob@svc.example.com", udpVia))},
		{Kind: "udp", From: "127.0.2.1:5070", To: lst, Data: b64(cfReq("OPTIONS", "sip:x@foreign.example.net", "SIP/2.0/UDP 127.0.2.1:5070;branch=z9hG4bKlearn"))},
		{Kind: "udp", From: ua, To: lst, Data: b64(cfReq("OPTIONS", "sip:x@foreign.example.net", udpVia, WHdr{"Route", "<sip:127.0.2.1:5070;lr>, <sip:10.3.3.3;lr>"}))},
	}})
	return out
}

func cfPeers() []string {
	return []string{"127.0.1.1:7000", "127.0.1.2:7000", "127.0.2.1:5060", "127.0.2.1:5070", "127.0.3.2:5090", "127.0.0.9:5060"}
}

func conformDump(path string) int {
	var traces []cfTrace
	for _, sc := range cfScripts() {
		w := StartRelayWorld(SimOpts{}, sc.cfg)
		conns := map[string]*vnet.TCPConn{}
		tr := cfTrace{Name: sc.name, YAML: ConfigYAML(sc.cfg), Peers: cfPeers()}
		for _, st := range sc.steps {
			data, _ := base64.StdEncoding.DecodeString(st.Data)
			w.Observe()
			switch st.Kind {
			case "udp":
				w.SendUDP(st.From, st.To, data)
			case "tcp-open":
				c, err := w.S.TCPDial(st.From, st.To)
				if err != nil {
					fmt.Fprintln(os.Stderr, "conform-dump:", err)
					return 2
				}
				conns[st.Conn] = c
				w.S.Run()
			case "tcp-write":
				w.SendTCP(conns[st.Conn], data)
			}
			obs := w.Observe()
			st.Expect = []cfEmission{}
			for _, p := range obs.Pkts {
				to := p.To
				if p.Proto == "tcp" {
					for name, c := range conns {
						if c.Peer().ID() == p.Conn {
							to = "conn:" + name
						}
					}
					// a TCP write may carry several messages or a part of one: the peer re-frames by Content-Length;
					// the proxy writes exactly one message per write
				}
				st.Expect = append(st.Expect, cfEmission{p.Proto, to, base64.StdEncoding.EncodeToString(p.Data)})
			}
			tr.Steps = append(tr.Steps, st)
		}
		if v := w.S.Verdict(); v != "" {
			fmt.Fprintln(os.Stderr, "conform-dump: unhealthy world in", sc.name, v)
			w.Close()
			return 2
		}
		w.Close()
		traces = append(traces, tr)
	}
	b, _ := json.MarshalIndent(traces, "", " ")
	if err := os.WriteFile(path, b, 0644); err != nil {
		fmt.Fprintln(os.Stderr, err)
		return 2
	}
	fmt.Printf("conform-dump: %d traces written to %s\n", len(traces), path)
	return 0
}
