//go:build verif && (c14 || all)

package main

import (
	"encoding/json"
	"fmt"
	"strconv"
	"strings"
)

// C14 — decoded headers are re-encoded without loss or distortion (DESIGN.md §4 C14).
// Every derivation of a bounded grammar per type, called directly on the Parse*/String pairs.

var c14Specs = map[string]*EnumSpec{}

// ---- SIP / SIPS URI ----

func c14URIText(s *EnumSpec, v []int) string {
	t := s.Val(v, "scheme") + ":"
	if u := s.Val(v, "user"); u != "none" {
		t += u + "@"
	}
	t += map[string]string{"name": "host.example.com", "ipv4": "10.1.2.3", "ipv6": "[2001:db8::1]", "dash-name": "a-b.example.com"}[s.Val(v, "host")]
	if p := s.Val(v, "port"); p != "none" {
		t += ":" + p
	}
	t += joinNonAbsent(s, v, ";", "p1", "p2", "p3", "p4")
	hs := ""
	for _, n := range []string{"h1", "h2"} {
		if x := s.Val(v, n); x != "absent" {
			if hs == "" {
				hs = "?" + x
			} else {
				hs += "&" + x
			}
		}
	}
	return t + hs
}

func c14EvalURI(v []int) (string, string, bool) {
	s := c14Specs["uri"]
	text := c14URIText(s, v)
	want := ParseAURI(text)
	if want.String() != text {
		return "harness-reader", fmt.Sprintf("independent reader does not reproduce %q (%q)", text, want.String()), false
	}
	u, err := ParseSipURI(text)
	if err != nil {
		return "uri-decode-error", fmt.Sprintf("%q: %v", text, err), true
	}
	enc := u.String()
	if got := ParseAURI(enc); got.String() != want.String() {
		return "uri-roundtrip", fmt.Sprintf("%q re-encoded as %q", text, enc), true
	}
	if u2, err := ParseSipURI(enc); err != nil || u2.String() != enc {
		return "uri-idempotence", fmt.Sprintf("%q -> %q -> second pass differs", text, enc), true
	}
	port := 5060
	transport := "udp"
	if p, ok := findPar(want.Pars, "transport"); ok {
		transport = p.V
	}
	if transport == "tls" {
		port = 5061
	}
	if want.Port != "" {
		port, _ = strconv.Atoi(want.Port)
	}
	if u.Host != want.Host || u.User != want.User || u.Password != want.Pass || u.GetPort() != port || u.GetTransport() != transport || u.Scheme != want.Scheme {
		return "uri-accessors", fmt.Sprintf("%q decoded as scheme=%q user=%q password=%q host=%q port=%d transport=%q; the text denotes scheme=%q user=%q password=%q host=%q port=%d transport=%q",
			text, u.Scheme, u.User, u.Password, u.Host, u.GetPort(), u.GetTransport(), want.Scheme, want.User, want.Pass, want.Host, port, transport), true
	}
	return "", "", true
}

// ---- Via ----

func c14ViaText(s *EnumSpec, v []int) string {
	e := s.Val(v, "proto") + " " + map[string]string{"ipv4": "10.1.2.3", "name": "host.example.com", "ipv6": "[2001:db8::1]"}[s.Val(v, "host")]
	if p := s.Val(v, "port"); p != "none" {
		e += ":" + p
	}
	e += joinNonAbsent(s, v, ";", "p1", "p2", "p3", "p4")
	sep := ","
	if s.Val(v, "sep") == "comma-blank" {
		sep = ", "
	}
	switch s.Val(v, "more") {
	case "plain":
		e += sep + "SIP/2.0/UDP 10.9.9.9"
	case "params":
		e += sep + "SIP/2.0/TCP h2.example.com:5070;branch=z9hG4bKy;rport" + sep + "SIP/2.0/UDP 10.9.9.8:5060;received=10.0.0.1"
	case "four":
		e += sep + "SIP/2.0/UDP a.example.com" + sep + "SIP/2.0/UDP b.example.com:1" + sep + "SIP/2.0/UDP c.example.com;ttl=2" + sep + "SIP/2.0/UDP d.example.com:65535;x"
	}
	return e
}

func viaListStr(l []AVia) string {
	var o []string
	for _, e := range l {
		o = append(o, e.String())
	}
	return strings.Join(o, " | ")
}

func c14EvalVia(v []int) (string, string, bool) {
	s := c14Specs["via"]
	text := c14ViaText(s, v)
	wm := &WMsg{Hdrs: []WHdr{{"Via", text}}}
	want, err := wm.ViaStack()
	if err != nil {
		return "harness-reader", fmt.Sprintf("independent reader cannot decode %q: %v", text, err), false
	}
	via, err := ParseVia(text)
	if err != nil {
		return "via-decode-error", fmt.Sprintf("%q: %v", text, err), true
	}
	enc := via.String()
	got, err := (&WMsg{Hdrs: []WHdr{{"Via", enc}}}).ViaStack()
	if err != nil || viaListStr(got) != viaListStr(want) {
		return "via-roundtrip", fmt.Sprintf("%q re-encoded as %q", text, enc), true
	}
	if v2, err := ParseVia(enc); err != nil || v2.String() != enc {
		return "via-idempotence", fmt.Sprintf("%q -> %q -> second pass differs", text, enc), true
	}
	if via.Size() != len(want) {
		return "via-accessors", fmt.Sprintf("%q: %d entries decoded, %d denoted", text, via.Size(), len(want)), true
	}
	p0, _ := via.GetParam(0)
	w0 := want[0]
	port := 5060
	if strings.EqualFold(w0.Transport, "TLS") {
		port = 5061
	}
	if w0.Port != "" {
		port, _ = strconv.Atoi(w0.Port)
	}
	problems := ""
	if p0.Host != w0.Host || p0.GetPort() != port || p0.Transport != w0.Transport {
		problems += fmt.Sprintf(" host/port/transport=%q/%d/%q want %q/%d/%q;", p0.Host, p0.GetPort(), p0.Transport, w0.Host, port, w0.Transport)
	}
	for _, name := range []string{"branch", "received"} {
		gotv, gerr := p0.GetParam(name)
		wp, ok := findPar(w0.Pars, name)
		if ok != (gerr == nil) || (ok && gotv != wp.V) {
			problems += fmt.Sprintf(" %s=%q(present=%v) want %q(present=%v);", name, gotv, gerr == nil, wp.V, ok)
		}
	}
	rp, rerr := p0.GetRPort()
	wantNum := false
	if wp, ok := findPar(w0.Pars, "rport"); ok && wp.HasV {
		if n, err := strconv.Atoi(wp.V); err == nil {
			wantNum = true
			if rerr != nil || rp != n {
				problems += fmt.Sprintf(" rport=%d(err=%v) want %d;", rp, rerr, n)
			}
		}
	}
	if !wantNum && rerr == nil {
		problems += fmt.Sprintf(" rport=%d although the text carries no numeric rport;", rp)
	}
	if ok1, ok2 := p0.HasParam("rport"), false; true {
		_, ok2 = findPar(w0.Pars, "rport")
		if ok1 != ok2 {
			problems += fmt.Sprintf(" HasParam(rport)=%v want %v;", ok1, ok2)
		}
	}
	if problems != "" {
		return "via-accessors", fmt.Sprintf("%q:%s", text, problems), true
	}
	// decode independence: what the proxy does to one decoded value (stamp the sender's address on
	// the top entry, set a branch, consume the top entry) must not show in any other decode of the same text
	d1, e1 := ParseVia(text)
	d2, e2 := ParseVia(text)
	if e1 == nil && e2 == nil {
		// the very first decode of this text is consumed as well
		via.PopViaParam()
		if t0, err := d1.GetParam(0); err == nil {
			t0.SetParam("rport", "4444")
			t0.SetReceived("192.0.2.77")
			t0.SetBranch("z9hG4bKindependence")
		}
		d1.PopViaParam()
		d3, e3 := ParseVia(text)
		if e3 != nil || d2.String() != enc || d3.String() != enc {
			e3s := "<error>"
			if e3 == nil {
				e3s = d3.String()
			}
			return "via-decodes-share-state", fmt.Sprintf("%q decodes to %q; after another decode of the same text was stamped (rport, received, branch) and its top entry consumed, an earlier decode encodes as %q and a later decode as %q", text, enc, d2.String(), e3s), true
		}
	}
	return "", "", true
}

// ---- From / To ----

func c14NAText(s *EnumSpec, v []int) string {
	uri := map[string]string{"sip-user": "sip:alice@host.example.com", "sip-port-param": "sips:host.example.com:5070;transport=tcp", "tel": "tel:+15551234",
		"urn": "urn:service:sos", "tel-param": "tel:+15551234;phone-context=example.com", "sip-hdr": "sip:alice@10.1.2.3?subject=x",
		"sip-upper": "SIP:alice@Host.example.com:5070", "sips-mixed": "Sips:alice@host.example.com"}[s.Val(v, "uri")]
	t := ""
	if s.Val(v, "form") == "name-addr" {
		t = map[string]string{"none": "", "token": "Alice ", "token-noblank": "Alice", "quoted": "\"Alice B\" ", "quoted-pct": "\"50%s %41 %\" ", "two-tokens": "Alice Smith "}[s.Val(v, "display")]
		t += "<" + uri + ">"
	} else {
		t = uri
	}
	return t + joinNonAbsent(s, v, ";", "hp1", "hp2", "hp3")
}

func c14EvalNA(kind string) func(v []int) (string, string, bool) {
	return func(v []int) (string, string, bool) {
		s := c14Specs[kind]
		text := c14NAText(s, v)
		want, err := ParseANameAddr(text)
		if err != nil {
			return "harness-reader", fmt.Sprintf("independent reader cannot decode %q: %v", text, err), false
		}
		var enc, tag, addr string
		var tagErr, aerr error
		if kind == "from" {
			f, err := ParseFromSpec(text)
			if err != nil {
				return kind + "-decode-error", fmt.Sprintf("%q: %v", text, err), true
			}
			enc = f.String()
			tag, tagErr = f.GetTag()
			var a *AddrSpec
			a, aerr = f.GetAddrSpec()
			if aerr == nil {
				addr = a.String()
			}
		} else {
			t, err := ParseTo(text)
			if err != nil {
				return kind + "-decode-error", fmt.Sprintf("%q: %v", text, err), true
			}
			enc = t.String()
			tag, tagErr = t.GetTag()
			var a *AddrSpec
			a, aerr = t.GetAddrSpec()
			if aerr == nil {
				addr = a.String()
			}
		}
		got, err := ParseANameAddr(enc)
		if err != nil || got.String() != want.String() {
			return kind + "-roundtrip", fmt.Sprintf("%q re-encoded as %q", text, enc), true
		}
		var enc2 string
		if kind == "from" {
			if f2, err := ParseFromSpec(enc); err == nil {
				enc2 = f2.String()
			}
		} else if t2, err := ParseTo(enc); err == nil {
			enc2 = t2.String()
		}
		if enc2 != enc {
			return kind + "-idempotence", fmt.Sprintf("%q -> %q -> %q", text, enc, enc2), true
		}
		wp, ok := findPar(want.Pars, "tag")
		if ok != (tagErr == nil) || (ok && tag != wp.V) {
			return kind + "-accessors", fmt.Sprintf("%q: tag decoded as %q (present=%v), the text denotes %q (present=%v)", text, tag, tagErr == nil, wp.V, ok), true
		}
		if aerr != nil || ParseAURI(addr).String() != want.URI.String() {
			return kind + "-accessors", fmt.Sprintf("%q: address decoded as %q (err=%v), the text denotes %q", text, addr, aerr, want.URI.String()), true
		}
		return "", "", true
	}
}

// ---- Route / Record-Route ----

var c14RouteEntries = map[string]string{
	"bare": "<sip:10.1.2.3:5070;lr>", "display": "Next <sip:host.example.com;lr>", "quoted": "\"Quoted Name\" <sip:10.1.2.4:5070;lr>",
	"uripars": "<sip:10.1.2.4;transport=udp;foo;lr>", "hdrpars": "<sip:10.1.2.3:5070;lr>;hp=1;flag", "userpct": "<sip:u%41@10.1.2.4:5060;lr;x=%41>",
	"lr-first": "<sip:10.1.2.3;lr;transport=UDP>", "hdrpct": "<sip:10.1.2.3;lr>;k=%41%s", "urihdr": "<sip:10.1.2.3;lr?a=b&c=%20d>", "sips-pw": "<sips:u:pw@host.example.com:5061;lr>",
}

func c14EvalRoute(kind string) func(v []int) (string, string, bool) {
	return func(v []int) (string, string, bool) {
		s := c14Specs[kind]
		var es []string
		for _, n := range []string{"e1", "e2", "e3"} {
			if x := s.Val(v, n); x != "absent" {
				es = append(es, c14RouteEntries[x])
			}
		}
		sep := ","
		if s.Val(v, "sep") == "comma-blank" {
			sep = ", "
		}
		text := strings.Join(es, sep)
		want, err := (&WMsg{Hdrs: []WHdr{{"Route", text}}}).NameAddrList("route")
		if err != nil {
			return "harness-reader", fmt.Sprintf("independent reader cannot decode %q: %v", text, err), false
		}
		var enc, enc2 string
		var firstDecode *Route
		if kind == "route" {
			r, err := ParseRoute(text)
			if err != nil {
				return kind + "-decode-error", fmt.Sprintf("%q: %v", text, err), true
			}
			firstDecode = r
			enc = r.String()
			if r2, err := ParseRoute(enc); err == nil {
				enc2 = r2.String()
			}
		} else {
			r, err := ParseRecordRoute(text)
			if err != nil {
				return kind + "-decode-error", fmt.Sprintf("%q: %v", text, err), true
			}
			enc = r.String()
			if r2, err := ParseRecordRoute(enc); err == nil {
				enc2 = r2.String()
			}
		}
		got, err := (&WMsg{Hdrs: []WHdr{{"Route", enc}}}).NameAddrList("route")
		if err != nil || naList14(got) != naList14(want) {
			return kind + "-roundtrip", fmt.Sprintf("%q re-encoded as %q", text, enc), true
		}
		if enc2 != enc {
			return kind + "-idempotence", fmt.Sprintf("%q -> %q -> %q", text, enc, enc2), true
		}
		if kind == "route" {
			// decode independence: consuming entries of one decoded value must not show in another decode of the same text
			r1, e1 := ParseRoute(text)
			r2, e2 := ParseRoute(text)
			if e1 == nil && e2 == nil {
				// consume from the very first decode of this text as well as from a later one
				firstDecode.PopRouteParam()
				firstDecode.PopRouteParam()
				r1.PopRouteParam()
				r1.PopRouteParam()
				r3, e3 := ParseRoute(text)
				if e3 != nil || r2.String() != enc || r3.String() != enc {
					e3s := "<error>"
					if e3 == nil {
						e3s = r3.String()
					}
					return "route-decodes-share-state", fmt.Sprintf("%q decodes to %q; after entries of another decode of the same text were consumed, an earlier decode encodes as %q and a later decode as %q", text, enc, r2.String(), e3s), true
				}
			}
		}
		return "", "", true
	}
}

func naList14(l []ANameAddr) string {
	var s []string
	for _, e := range l {
		s = append(s, e.String())
	}
	return strings.Join(s, " | ")
}

// ---- Request-URI (addr-spec) and CSeq ----

func c14EvalAddr(v []int) (string, string, bool) {
	s := c14Specs["addrspec"]
	text := s.Val(v, "uri")
	a, err := ParseAddrSpec(text)
	if err != nil {
		return "addrspec-decode-error", fmt.Sprintf("%q: %v", text, err), true
	}
	var sb strings.Builder
	a.Write(&sb)
	if a.String() != text || sb.String() != text {
		return "addrspec-roundtrip", fmt.Sprintf("%q re-encoded as %q (String) / %q (Write)", text, a.String(), sb.String()), true
	}
	// a scheme written with capitals: whether the decoder regards it as a SIP URI is a don't-care (schemes are
	// case-insensitive); that it is re-encoded as written is not
	lower := strings.ToLower(text)
	if (strings.HasPrefix(lower, "sip:") || strings.HasPrefix(lower, "sips:")) && !(strings.HasPrefix(text, "sip:") || strings.HasPrefix(text, "sips:")) {
		return "", "", true
	}
	if a.IsSIPURI() != (strings.HasPrefix(text, "sip:") || strings.HasPrefix(text, "sips:")) {
		return "addrspec-accessors", fmt.Sprintf("%q: IsSIPURI=%v", text, a.IsSIPURI()), true
	}
	return "", "", true
}

func c14EvalCSeq(v []int) (string, string, bool) {
	s := c14Specs["cseq"]
	seq, method := s.Val(v, "seq"), s.Val(v, "method")
	text := seq + " " + method
	if s.Val(v, "blanks") == "extra" {
		text = seq + "  \t" + method
	}
	cs, err := ParseCSeq(text)
	if err != nil {
		return "cseq-decode-error", fmt.Sprintf("%q: %v", text, err), true
	}
	n, _ := strconv.Atoi(seq)
	if cs.Seq != n || cs.Method != method || cs.String() != seq+" "+method {
		return "cseq-roundtrip", fmt.Sprintf("%q decoded as (%d,%q), re-encoded as %q", text, cs.Seq, cs.Method, cs.String()), true
	}
	return "", "", true
}

func init() {
	par := []string{"absent", "lr", "foo", "x=1", "transport=tcp", "y=%41", "maddr=10.0.0.1", "transport=tls"}
	c14Specs["uri"] = &EnumSpec{Feats: []Feat{
		{Name: "scheme", Vals: []string{"sip", "sips"}},
		{Name: "user", Vals: []string{"none", "u", "u:pw", "%41u", "u;x", "u?x"}},
		{Name: "host", Vals: []string{"name", "ipv4", "ipv6", "dash-name"}},
		{Name: "port", Vals: []string{"none", "5060", "5070", "05070", "65535"}},
		{Name: "p1", Vals: par}, {Name: "p2", Vals: par}, {Name: "p3", Vals: par, Quick: 4}, {Name: "p4", Vals: par[:5], Quick: 1},
		{Name: "h1", Vals: []string{"absent", "a=b", "c=%20d", "e="}}, {Name: "h2", Vals: []string{"absent", "a=b", "c=%20d", "e="}, Quick: 2},
	}, Eval: c14EvalURI, Sample: 20000, Seqs: [][]string{{"p1", "p2", "p3", "p4"}, {"h1", "h2"}}}
	c14Specs["uri"].Valid = func(v []int) bool {
		s := c14Specs["uri"]
		return trailingAbsent(s, v, "p1", "p2", "p3", "p4") && trailingAbsent(s, v, "h1", "h2")
	}
	vpar := []string{"absent", "branch=z9hG4bKx", "rport", "rport=5", "received=1.2.3.4", "ttl=1", "p=%41", "rport=x"}
	c14Specs["via"] = &EnumSpec{Feats: []Feat{
		{Name: "proto", Vals: []string{"SIP/2.0/UDP", "SIP/2.0/TCP", "SIP/2.0/TLS", "SIP/2.0/udp", "X/9/SCTP"}},
		{Name: "host", Vals: []string{"ipv4", "name", "ipv6"}},
		{Name: "port", Vals: []string{"none", "5060", "5070", "05070", "65535"}},
		{Name: "p1", Vals: vpar}, {Name: "p2", Vals: vpar}, {Name: "p3", Vals: vpar, Quick: 4}, {Name: "p4", Vals: vpar[:5], Quick: 1},
		{Name: "more", Vals: []string{"none", "plain", "params", "four"}},
		{Name: "sep", Vals: []string{"comma", "comma-blank"}},
	}, Eval: c14EvalVia, Sample: 20000, Seqs: [][]string{{"p1", "p2", "p3", "p4"}}}
	c14Specs["via"].Valid = func(v []int) bool {
		s := c14Specs["via"]
		if v[s.idx("more")] == 0 && v[s.idx("sep")] != 0 {
			return false
		}
		return trailingAbsent(s, v, "p1", "p2", "p3", "p4")
	}
	hp := []string{"absent", "tag=t1", "tag=%41", "x", "y=z", "tag=a-b"}
	for _, kind := range []string{"from", "to"} {
		kind := kind
		c14Specs[kind] = &EnumSpec{Feats: []Feat{
			{Name: "form", Vals: []string{"name-addr", "addr-spec"}},
			{Name: "display", Vals: []string{"none", "token", "token-noblank", "quoted", "quoted-pct", "two-tokens"}},
			{Name: "uri", Vals: []string{"sip-user", "sip-port-param", "tel", "urn", "tel-param", "sip-hdr", "sip-upper", "sips-mixed"}},
			{Name: "hp1", Vals: hp}, {Name: "hp2", Vals: hp}, {Name: "hp3", Vals: hp},
		}, Eval: c14EvalNA(kind), Sample: 5000, Seqs: [][]string{{"hp1", "hp2", "hp3"}}}
		c14Specs[kind].Valid = func(v []int) bool {
			s := c14Specs[kind]
			if s.Val(v, "form") == "addr-spec" {
				if v[s.idx("display")] != 0 {
					return false
				}
				// in the addr-spec form ';' and '?' belong to the header, not the URI (RFC 3261 §20.10)
				if u := s.Val(v, "uri"); u == "sip-port-param" || u == "tel-param" || u == "sip-hdr" {
					return false
				}
			}
			return trailingAbsent(s, v, "hp1", "hp2", "hp3")
		}
	}
	re := []string{"absent", "bare", "display", "quoted", "uripars", "hdrpars", "userpct", "lr-first", "hdrpct", "urihdr", "sips-pw"}
	for _, kind := range []string{"route", "record-route"} {
		kind := kind
		c14Specs[kind] = &EnumSpec{Feats: []Feat{{Name: "e1", Vals: re}, {Name: "e2", Vals: re}, {Name: "e3", Vals: re}, {Name: "sep", Vals: []string{"comma", "comma-blank"}}},
			Eval: c14EvalRoute(kind), Sample: 500, Seqs: [][]string{{"e1", "e2", "e3"}}}
		c14Specs[kind].Valid = func(v []int) bool {
			s := c14Specs[kind]
			if v[s.idx("e1")] == 0 {
				return false
			}
			if v[s.idx("e2")] == 0 && (v[s.idx("e3")] != 0 || v[s.idx("sep")] != 0) {
				return false
			}
			return true
		}
	}
	c14Specs["addrspec"] = &EnumSpec{Feats: []Feat{{Name: "uri", Vals: []string{"sip:bob@host.example.com", "tel:+15551234", "tel:+1555;phone-context=%41.example.com", "urn:service:sos",
		"urn:service:sos.%66ire", "sips:bob:pw@10.1.2.3:5061;transport=tcp;lr?x=y", "sip:host.example.com;user=phone;foo", "http://example.com/%7Euser?q=%s", "sip:%61lice@host.example.com",
		"SIP:bob@Host.example.com:5070;transport=TCP", "Sip:bob@host.example.com", "SIPS:bob:pw@10.1.2.3"}}},
		Eval: c14EvalAddr, Sample: 3}
	c14Specs["cseq"] = &EnumSpec{Feats: []Feat{{Name: "seq", Vals: []string{"1", "0", "4294967295", "2147483647"}}, {Name: "method", Vals: []string{"INVITE", "ACK", "X-m3th0d!", "invite"}},
		{Name: "blanks", Vals: []string{"single", "extra"}}}, Eval: c14EvalCSeq, Sample: 10}

	order := []string{"uri", "via", "from", "to", "route", "record-route", "addrspec", "cseq"}
	// a panic in a Parse*/String call is a violation of its own (in production it kills the goroutine)
	for _, k := range order {
		inner := c14Specs[k].Eval
		kind := k
		c14Specs[k].Eval = func(v []int) (cl, detail string, nt bool) {
			if cr := guard(func() { cl, detail, nt = inner(v) }); cr != "" {
				return kind + "-panic", cr, true
			}
			return
		}
	}
	addCheck(&Check{ID: "C14", Level: "exploration",
		Rule:   "every derivation of a bounded grammar per decoded type (SIP/SIPS URI: user x host x port x all parameter sequences of length 0-3 (thorough 0-4) x header sequences 0-2; Via: sent-protocol x host x port x parameter sequences 0-3 (thorough 0-4) x 1-5 entries; From/To: form x display name x URI x header-parameter sequences 0-3; Route/Record-Route lists of 1-3 entries; Request-URI forms incl. sip / sips schemes written with capitals; CSeq), called directly on Parse*/String; laws: decode->encode equals the generator's abstract value component-wise (independent reader), encode-decode-encode idempotent, accessors equal the components the text denotes; non-trivial = decodable value",
		Assume: []string{"IPv6 references and user parts containing ';' or '?' are generated as the property says and tracked in KNOWN_FINDINGS.txt"},
		Run: func(c *Ctx) {
			for _, k := range order {
				c14Specs[k].Run(c)
				c.Count("cases_"+k, 0)
			}
		},
		Replay: func(c *Ctx, raw json.RawMessage) string {
			// the clause prefix tells the grammar
			var cs struct {
				Vals map[string]string `json:"values"`
			}
			json.Unmarshal(raw, &cs)
			for _, k := range order {
				match := true
				for name := range cs.Vals {
					found := false
					for _, f := range c14Specs[k].Feats {
						if f.Name == name {
							found = true
						}
					}
					if !found {
						match = false
					}
				}
				if match && len(cs.Vals) == len(c14Specs[k].Feats) {
					if cl := c14Specs[k].Replay(raw); cl != "" {
						return cl
					}
				}
			}
			return ""
		},
	})
}
