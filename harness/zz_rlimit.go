//go:build verif

package main

import "syscall"

func setMemLimit(bytes int64) {
	lim := syscall.Rlimit{Cur: uint64(bytes), Max: uint64(bytes)}
	syscall.Setrlimit(syscall.RLIMIT_AS, &lim)
}
