//go:build verif && (c04 || all)

package main

import (
	"encoding/json"
	"fmt"
	"sort"
	"strings"
)

// C04 — in-dialog requests stick to the backend that answered the dialog (DESIGN.md §4 C04).

type c04Ev struct {
	Kind   string `json:"kind"` // inv | resp | req | sub | subresp | opt
	D      int    `json:"d"`
	Code   int    `json:"code,omitempty"`
	Method string `json:"method,omitempty"`
	Swap   bool   `json:"swap,omitempty"`
	Exp    bool   `json:"expires,omitempty"`
	Sec    int    `json:"sec,omitempty"` // tick: seconds the virtual clock advances
	N      int    `json:"n,omitempty"`   // opt: repeat count (0 = once)
}

func (e c04Ev) String() string {
	switch e.Kind {
	case "inv":
		return fmt.Sprintf("inv%d", e.D)
	case "resp":
		return fmt.Sprintf("resp%d(%d)", e.D, e.Code)
	case "req":
		s := fmt.Sprintf("%s%d", e.Method, e.D)
		if e.Swap {
			s += "~"
		}
		return s
	case "tick":
		return fmt.Sprintf("tick(%ds)", e.Sec)
	case "opt":
		if e.N > 1 {
			return fmt.Sprintf("opt x%d", e.N)
		}
		return "opt"
	case "sub":
		return "backend-subscribe"
	case "subresp":
		return "subscribe-answered"
	}
	return e.Kind
}

func (e c04Ev) typ() string {
	switch e.Kind {
	case "req":
		if e.Swap {
			return e.Method + "~"
		}
		return e.Method
	case "resp":
		return fmt.Sprintf("resp%d", e.Code)
	case "notify-early":
		return "notify-before-the-subscription-is-answered"
	case "notify-sub":
		if e.Method != "" {
			return "backend-dialog-" + e.Method
		}
		return "backend-dialog-NOTIFY"
	}
	return e.Kind
}

type c04Flavor struct {
	Name   string
	Proto  string
	Names  string
	RURI   string
	From   func(d int) string // caller address (without tag)
	To     func(d int) string
	FTag   func(d int) string
	TTag   func(d int) string
	CallID func(d int) string
}

func c04Flavors() []c04Flavor {
	return []c04Flavor{
		{"plain-udp", "udp", "svc.example.com", "sip:bob@svc.example.com",
			func(d int) string { return fmt.Sprintf("<sip:alice%d@ua.example.net>", d) }, func(d int) string { return "<sip:bob@svc.example.com>" },
			func(d int) string { return fmt.Sprintf("f%d", d) }, func(d int) string { return fmt.Sprintf("t%d", d) }, func(d int) string { return fmt.Sprintf("call%d@ua", d) }},
		{"dash-equal-uris-udp", "udp", "svc.example.com", "sip:same@svc.example.com",
			func(d int) string { return "\"X\" <sip:same@svc.example.com>" }, func(d int) string { return "<sip:same@svc.example.com;user=phone>" },
			func(d int) string { return fmt.Sprintf("a-%d", d) }, func(d int) string { return fmt.Sprintf("a-%d-b", d) }, func(d int) string { return fmt.Sprintf("c-%d", d) }},
		{"tel-urn-udp", "udp", "svc.example.com, urn:service:sos", "urn:service:sos",
			func(d int) string { return fmt.Sprintf("<tel:+1555000%d>", d) }, func(d int) string { return "<urn:service:sos>" },
			func(d int) string { return fmt.Sprintf("f%d", d) }, func(d int) string { return fmt.Sprintf("t%d", d) }, func(d int) string { return fmt.Sprintf("sos%d", d) }},
		{"case-variant-uris-udp", "udp", "svc.example.com", "sip:helpdesk@svc.example.com",
			func(d int) string { return "<sip:Helpdesk@SVC.Example.COM>" }, func(d int) string { return "<sip:helpdesk@svc.example.com>" },
			func(d int) string { return fmt.Sprintf("f%d", d) }, func(d int) string { return fmt.Sprintf("t%d", d) }, func(d int) string { return fmt.Sprintf("case%d@ua", d) }},
		{"plain-tcp", "tcp", "svc.example.com", "sip:bob@svc.example.com",
			func(d int) string { return fmt.Sprintf("<sip:alice%d@ua.example.net>", d) }, func(d int) string { return "<sip:bob@svc.example.com>" },
			func(d int) string { return fmt.Sprintf("f%d", d) }, func(d int) string { return fmt.Sprintf("t%d", d) }, func(d int) string { return fmt.Sprintf("call%d@ua", d) }},
	}
}

type c04Case struct {
	Flavor string  `json:"flavor"`
	Hist   []c04Ev `json:"history"`
}

var c04Backends = []string{"127.0.1.1:7000", "127.0.1.2:7000", "127.0.1.3:7000"}

func c04Exec(fl c04Flavor, hist []c04Ev) (string, string, string) {
	var bes []string
	for _, b := range c04Backends {
		bes = append(bes, fl.Proto+"://"+b)
	}
	cfg := RCfg{Name: fl.Names, DialogTimeout: 1200, Listens: []RListen{{Addr: "127.0.0.1", UDP: 5060, TCP: 5062, Backends: bes}}}
	w := StartRelayWorld(SimOpts{}, cfg)
	defer w.Close()
	isBackend := map[string]bool{}
	for _, b := range c04Backends {
		isBackend[b] = true
	}
	type dlg struct {
		invited  bool
		backend  string // backend that got the INVITE
		relayed  *WMsg
		pinned   string // reference pin
		pinnedAt int64  // virtual time of the first response that pinned it
		answered map[int]bool
	}
	const lifetime = int64(1200e9)
	ds := []*dlg{{answered: map[int]bool{}}, {answered: map[int]bool{}}}
	subBackend, subPinned := "", ""
	subEarly := false
	var subRelayed *WMsg
	seq := 0
	branch := func() string { seq++; return fmt.Sprintf("z9hG4bKq%d", seq) }
	ua := "127.0.0.9:5060"
	lst := "127.0.0.1:5060"
	// sendToBackendSide delivers a message from a backend to the proxy
	fromBackend := func(b string, m *WMsg) {
		if fl.Proto == "tcp" {
			acc := w.acc[b]
			if len(acc) > 0 {
				w.SendTCP(acc[len(acc)-1], m.Render())
				return
			}
			w.SendTCP(w.Client("be"+b, strings.Split(b, ":")[0], "127.0.0.1:5062"), m.Render())
			return
		}
		w.SendUDP(b, lst, m.Render())
	}
	expectOne := func(desc string, obs Obs, want string) (string, string) {
		var to []string
		for _, p := range obs.Pkts {
			to = append(to, p.To)
		}
		if want == "" {
			if len(to) != 1 || !isBackend[to[0]] {
				return "unpinned-request-not-to-exactly-one-backend", fmt.Sprintf("%s: expected exactly one registered backend, packets went to %v", desc, to)
			}
			return "", ""
		}
		if len(to) != 1 || to[0] != want {
			return "in-dialog-request-not-to-answering-backend", fmt.Sprintf("%s: the dialog was answered by %s, packets went to %v", desc, want, to)
		}
		return "", ""
	}
	for i, ev := range hist {
		desc := fmt.Sprintf("step %d %v of %v (%s)", i, ev, hist, fl.Name)
		w.Observe()
		switch ev.Kind {
		case "tick":
			w.S.W.Advance(int64(ev.Sec) * 1e9)
			w.S.Run()
		case "opt":
			for k := 0; k < ev.N || k == 0; k++ {
				m := MsgSpec{Method: "OPTIONS", RURI: fl.RURI, Vias: []string{"SIP/2.0/UDP " + ua + ";branch=" + branch()}, From: "<sip:other@ua.example.net>;tag=o", To: "<sip:bob@svc.example.com>", CallID: fmt.Sprintf("opt%d", seq), CSeq: "1 OPTIONS"}.Build()
				w.SendUDP(ua, lst, m.Render())
				if cl, d := expectOne(desc, w.Observe(), ""); cl != "" {
					return "", cl, d
				}
			}
		case "inv":
			d := ds[ev.D]
			if d.invited {
				return "", "invalid", ""
			}
			d.invited = true
			cseq := "1 INVITE"
			if fl.Name == "tel-urn-udp" {
				cseq = "0 INVITE" // sequence numbers start wherever the caller likes, 0 included
			}
			m := MsgSpec{Method: "INVITE", RURI: fl.RURI, Vias: []string{"SIP/2.0/UDP " + ua + ";branch=" + branch()}, From: fl.From(ev.D) + ";tag=" + fl.FTag(ev.D), To: fl.To(ev.D), CallID: fl.CallID(ev.D), CSeq: cseq}.Build()
			w.SendUDP(ua, lst, m.Render())
			obs := w.Observe()
			if cl, dd := expectOne(desc, obs, ""); cl != "" {
				return "", cl, dd
			}
			d.backend = obs.Pkts[0].To
			d.relayed, _ = ReadWire(obs.Pkts[0].Data)
		case "resp":
			d := ds[ev.D]
			if !d.invited || d.answered[ev.Code] || d.relayed == nil {
				return "", "invalid", ""
			}
			d.answered[ev.Code] = true
			var extra []WHdr
			if ev.Exp {
				extra = append(extra, WHdr{"Expires", "3600"})
			}
			r := ResponseTo(d.relayed, ev.Code, fl.TTag(ev.D), extra...)
			fromBackend(d.backend, r)
			obs := w.Observe()
			if len(obs.Pkts) != 1 || obs.Pkts[0].To != ua {
				return "", "response-not-relayed", fmt.Sprintf("%s: %s", desc, obs.Summary())
			}
			if d.pinned == "" {
				d.pinnedAt = w.S.W.NowNS
			}
			d.pinned = d.backend
		case "req":
			d := ds[ev.D]
			if d.pinned == "" {
				return "", "invalid", ""
			}
			// C15 owns what happens once the lifetime has elapsed: from then on this dialog is a don't-care here
			expired := w.S.W.NowNS-d.pinnedAt >= lifetime-2e9
			from, to := fl.From(ev.D)+";tag="+fl.FTag(ev.D), fl.To(ev.D)+";tag="+fl.TTag(ev.D)
			if ev.Swap {
				from, to = to, from
			}
			var extra []WHdr
			switch ev.Method {
			case "NOTIFY":
				extra = []WHdr{{"Event", "dialog"}, {"Subscription-State", "active;expires=60"}}
			case "SUBSCRIBE":
				extra = []WHdr{{"Event", "dialog"}, {"Expires", "600"}}
			}
			m := MsgSpec{Method: ev.Method, RURI: fl.RURI, Vias: []string{"SIP/2.0/UDP " + ua + ";branch=" + branch()}, From: from, To: to, CallID: fl.CallID(ev.D), CSeq: fmt.Sprintf("%d %s", 10+seq, ev.Method), Extra: extra}.Build()
			w.SendUDP(ua, lst, m.Render())
			if obs := w.Observe(); !expired {
				if cl, dd := expectOne(desc, obs, d.pinned); cl != "" {
					return "", cl, dd
				}
			}
		case "sub":
			if subBackend != "" {
				return "", "invalid", ""
			}
			subBackend = c04Backends[1]
			m := MsgSpec{Method: "SUBSCRIBE", RURI: "sip:alice@ua.example.net", Vias: []string{"SIP/2.0/" + strings.ToUpper(fl.Proto) + " " + subBackend + ";branch=" + branch()}, Routes: []string{"<sip:" + ua + ";lr>"},
				From: "<sip:bob@svc.example.com>;tag=bs-1", To: "<sip:alice@ua.example.net>", CallID: "sub-1@be", CSeq: "1 SUBSCRIBE", Extra: []WHdr{{"Event", "presence"}, {"Expires", "3600"}}}.Build()
			fromBackend(subBackend, m)
			obs := w.Observe()
			if len(obs.Pkts) != 1 || obs.Pkts[0].To != ua {
				return "", "backend-subscribe-not-relayed", fmt.Sprintf("%s: %s", desc, obs.Summary())
			}
			subRelayed, _ = ReadWire(obs.Pkts[0].Data)
		case "subresp":
			if subBackend == "" || subPinned != "" || subRelayed == nil {
				return "", "invalid", ""
			}
			vs, _ := subRelayed.ViaStack()
			if len(vs) < 2 {
				// the proxy did not insert itself: the answer would bypass it; nothing to check
				return "", "invalid", ""
			}
			r := ResponseTo(subRelayed, 200, "as-1", WHdr{"Expires", "3600"})
			w.SendUDP(ua, lst, r.Render())
			obs := w.Observe()
			// the backend is reached at its listening address or over the connection it opened itself to send the
			// SUBSCRIBE (which of the two exists depends on whether the rotation had already dialled this backend)
			own := ""
			if c, ok := w.cli["be"+subBackend]; ok {
				own = c.LocalString()
			}
			if len(obs.Pkts) != 1 || (obs.Pkts[0].To != subBackend && obs.Pkts[0].To != own) {
				return "", "subscribe-response-not-relayed-to-backend", fmt.Sprintf("%s: %s", desc, obs.Summary())
			}
			subPinned = subBackend
		case "notify-sub", "notify-early":
			// notify-early: the subscriber's first NOTIFY overtakes its 200: the subscription has not been
			// answered yet, so the request belongs to no known dialog and is load-balanced (once only)
			if ev.Kind == "notify-early" && (subBackend == "" || subPinned != "" || subRelayed == nil || subEarly) {
				return "", "invalid", ""
			}
			if ev.Kind == "notify-sub" && subPinned == "" {
				return "", "invalid", ""
			}
			if ev.Kind == "notify-early" {
				subEarly = true
			}
			from, to := "<sip:alice@ua.example.net>;tag=as-1", "<sip:bob@svc.example.com>;tag=bs-1"
			method := "NOTIFY"
			if ev.Method != "" {
				method = ev.Method
			}
			m := MsgSpec{Method: method, RURI: "sip:bob@svc.example.com", Vias: []string{"SIP/2.0/UDP " + ua + ";branch=" + branch()}, From: from, To: to, CallID: "sub-1@be", CSeq: fmt.Sprintf("%d %s", 10+seq, method),
				Extra: []WHdr{{"Event", "presence"}, {"Subscription-State", "active"}}}.Build()
			w.SendUDP(ua, lst, m.Render())
			if cl, dd := expectOne(desc, w.Observe(), subPinned); cl != "" {
				return "", cl, dd
			}
		}
		if vd := w.S.Verdict(); vd != "" {
			return "", "health", desc + ": " + vd
		}
	}
	// state key
	var b strings.Builder
	for i, d := range ds {
		var codes []int
		for c := range d.answered {
			codes = append(codes, c)
		}
		sort.Ints(codes)
		fmt.Fprintf(&b, "d%d:%v,%s,%s,%v|", i, d.invited, d.backend, d.pinned, codes)
		if w.S.W.NowNS > 2e9 {
			fmt.Fprintf(&b, "at%d|", d.pinnedAt/1e9)
		}
	}
	p := w.S.Proxies()[0]
	pins, sweep, ok1 := wbDialogTable(p)
	rot, ok2 := wbRotation(w.S.RoundRobins()[0])
	if !ok1 || !ok2 {
		fmt.Fprintf(&b, "now=%d|sub:%s,%s|wb:", w.S.W.NowNS/1e9, subBackend, subPinned)
		b.WriteString(wbDump(p) + wbDump(w.S.RoundRobins()[0]))
		return b.String(), "", ""
	}
	if w.S.W.NowNS > 2e9 {
		fmt.Fprintf(&b, "now=%d,sweep=%d|", w.S.W.NowNS/1e9, sweep.UnixNano()/1e9)
	}
	fmt.Fprintf(&b, "sub:%s,%s,%v|", subBackend, subPinned, subEarly)
	var keys []string
	for _, pin := range pins {
		if strings.Contains(pin.Key, "z9hG4bK") {
			continue // client-transaction entries: not consulted in this alphabet (responses come from configured backend addresses)
		}
		keys = append(keys, pin.Key+"="+pin.Backend)
	}
	sort.Strings(keys)
	b.WriteString(strings.Join(keys, ";"))
	fmt.Fprintf(&b, "|rr=%d", rot.Index)
	return b.String(), "", ""
}

func c04Events(thorough bool) []c04Ev {
	evs := []c04Ev{{Kind: "opt"}, {Kind: "inv", D: 0}, {Kind: "inv", D: 1}}
	for d := 0; d < 2; d++ {
		evs = append(evs, c04Ev{Kind: "resp", D: d, Code: 200}, c04Ev{Kind: "resp", D: d, Code: 180, Exp: true}, c04Ev{Kind: "resp", D: d, Code: 486})
	}
	for d := 0; d < 2; d++ {
		for _, m := range []string{"ACK", "BYE", "INFO", "UPDATE", "INVITE", "NOTIFY", "SUBSCRIBE", "PRACK"} {
			evs = append(evs, c04Ev{Kind: "req", D: d, Method: m}, c04Ev{Kind: "req", D: d, Method: m, Swap: true})
		}
	}
	// "whatever its method": methods that usually travel outside dialogs, and an extension token
	for _, m := range []string{"OPTIONS", "MESSAGE", "REFER", "PUBLISH", "X-CUSTOM"} {
		evs = append(evs, c04Ev{Kind: "req", D: 0, Method: m}, c04Ev{Kind: "req", D: 1, Method: m, Swap: true})
	}
	evs = append(evs, c04Ev{Kind: "sub"}, c04Ev{Kind: "subresp"}, c04Ev{Kind: "notify-sub"}, c04Ev{Kind: "notify-sub", Method: "SUBSCRIBE"}, c04Ev{Kind: "notify-early"})
	return evs
}

func c04Run(c *Ctx) {
	depth := 6
	if c.Thorough() {
		depth = 8
	}
	evs := c04Events(c.Thorough())
	type plan struct {
		fl    c04Flavor
		evs   []c04Ev
		depth int
	}
	var plans []plan
	for _, fl := range c04Flavors() {
		plans = append(plans, plan{fl, evs, depth})
	}
	// a process that has been up for longer than the dialog timeout (1200 s): clock steps of 700 s
	// between the events of one dialog; every purge instant falls inside some dialog's lifetime
	timed := []c04Ev{{Kind: "tick", Sec: 700}, {Kind: "opt"}, {Kind: "inv", D: 0}, {Kind: "resp", D: 0, Code: 200}, {Kind: "req", D: 0, Method: "INFO"}, {Kind: "req", D: 0, Method: "BYE", Swap: true},
		{Kind: "inv", D: 1}, {Kind: "resp", D: 1, Code: 200}, {Kind: "req", D: 1, Method: "INFO"}}
	for _, fl := range c04Flavors() {
		if fl.Name == "plain-udp" || (c.Thorough() && fl.Name == "plain-tcp") {
			plans = append(plans, plan{fl, timed, depth + 2})
		}
	}
	// volume: one dialog, then 12000 (thorough 60000) unrelated requests, then in-dialog requests
	if c.Worker == 5%c.NWorkers {
		n := 12000
		if c.Thorough() {
			n = 60000
		}
		fl := c04Flavors()[0]
		h := []c04Ev{{Kind: "inv", D: 0}, {Kind: "resp", D: 0, Code: 200}, {Kind: "req", D: 0, Method: "ACK"}, {Kind: "opt", N: n}, {Kind: "req", D: 0, Method: "INFO"}, {Kind: "req", D: 0, Method: "BYE", Swap: true}}
		_, cl, detail := c04Exec(fl, h)
		c.Res.Executions++
		c.Res.Evaluations++
		c.Res.Nontrivial++
		c.Res.Transitions += int64(n + 5)
		if cl != "" && cl != "invalid" {
			c.Violate(cl+"|volume|"+h[len(h)-1].typ(), cl, fmt.Sprintf("after %d unrelated requests: %s", n, clip(detail, 1500)), c04Case{fl.Name, h})
		}
	}
	for _, pl := range plans {
		fl, evs, depth := pl.fl, pl.evs, pl.depth
		st, tr, done := BFSReplay(c, depth, evs, true, func(h []c04Ev) (string, bool) {
			key, cl, detail := c04Exec(fl, h)
			c.Res.Executions++
			if cl == "invalid" {
				return "", false
			}
			c.Res.Evaluations++
			if len(h) > 2 {
				c.Res.Nontrivial++
			}
			if cl != "" {
				var ts []string
				for _, e := range h {
					ts = append(ts, e.typ())
				}
				// signature: clause + the failing (last) event type; the shortest history is the replay
				c.Violate(cl+"|"+h[len(h)-1].typ()+"|"+fmt.Sprint(len(h)), cl, detail, c04Case{fl.Name, h})
				return "", false
			}
			c.Outcome(fl.Name + ":" + key)
			if len(h) == depth-2 {
				c.Sample(c04Case{fl.Name, h})
			}
			return key, true
		})
		c.Res.States += st
		c.Res.Transitions += tr
		if !done {
			c.Cap("history BFS stopped by the internal deadline")
		}
	}
}

func init() {
	addCheck(&Check{Flows: []flowOracle{flowPinned}, ID: "C04", Level: "model_checking",
		Rule:   "explicit-state BFS by replay over histories (depth 6, thorough 8) of two INVITE dialogs plus one backend-issued SUBSCRIBE dialog over three backends: events {unrelated OPTIONS, initial INVITE d, 180(with Expires)/200/486 with to-tag from the chosen backend's configured address, in-dialog ACK/BYE/INFO/UPDATE/re-INVITE/NOTIFY/refresh SUBSCRIBE/PRACK in both directions (From/To swapped) and OPTIONS/MESSAGE/REFER/PUBLISH/an extension method in one direction per dialog, SUBSCRIBE issued by a backend, its 200 from the peer, NOTIFY / refresh SUBSCRIBE of that dialog, the first NOTIFY overtaking that 200}; five identifier flavours (plain, tags with '-' and equal From/To URIs with decorations, tel:/urn: parties with the INVITE numbered CSeq 0, From/To URIs that differ only in letter case, TCP backends); plus a timed BFS (depth 8, thorough 10) over {clock step 700 s, unrelated OPTIONS, INVITE/200 and in-dialog requests of two dialogs} with dialogTimeout 1200 s (a process older than the timeout: every purge instant falls inside some dialog's lifetime; a dialog is a don't-care once its lifetime has elapsed); plus a volume run (one dialog, 12000 - thorough 60000 - unrelated requests, then in-dialog requests); state = reference pins + per-dialog progress + dialog table (dialog entries) + rotation cursor; non-trivial = history longer than two events",
		Assume: []string{"no clock steps and no BYE answers / terminated NOTIFYs (C15 owns lifetime and early termination)", "client-transaction entries of the pin table are left out of the state key: they are consulted only for responses from unknown source addresses, which this alphabet does not produce"},
		Run:    c04Run, Collapse: false,
		Finalize: func(c *Ctx, m *Result) {
			// collapse by (clause, event type): keep the shortest history
			best := map[string]*Violation{}
			for _, v := range m.Violations {
				parts := strings.Split(v.Sig, "|")
				if len(parts) != 3 {
					best[v.Sig] = v
					continue
				}
				k := parts[0] + "|" + parts[1]
				if b, ok := best[k]; !ok || len(v.Case) < len(b.Case) {
					if ok {
						v.Count += b.Count
					}
					v.Sig = k
					best[k] = v
				} else {
					b.Count += v.Count
				}
			}
			m.Violations = nil
			for _, v := range best {
				m.Violations = append(m.Violations, v)
			}
		},
		Replay: func(c *Ctx, raw json.RawMessage) string {
			var cs c04Case
			json.Unmarshal(raw, &cs)
			for _, fl := range c04Flavors() {
				if fl.Name == cs.Flavor {
					_, cl, _ := c04Exec(fl, cs.Hist)
					return cl
				}
			}
			return "harness: unknown flavour"
		}})
}
