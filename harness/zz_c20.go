//go:build verif && (c20 || all)

package main

import (
	"bytes"
	"encoding/json"
	"fmt"
	"net"
	"strconv"
	"strings"

	"github.com/ochinchina/sipproxy/vrt"
	"github.com/ochinchina/sipproxy/vrt/vnet"
)

// C20 — sending survives connection faults without loss or duplication (DESIGN.md §4 C20).
// The complete fault product as environment answers of the simulated network.

type c20Case struct {
	Target    string `json:"target"`    // mgr | failover-direct | backend | e2e-response | e2e-request
	Primary   string `json:"primary"`   // absent | healthy | fails@0 | fails@1 | fails@2
	Secondary string `json:"secondary"` // absent | fresh | stale
	Plan      []int  `json:"dial_plan"` // outcomes of successive dials: 0 accept, 1 refuse, 2 accept but writes fail
	SecBreak  int    `json:"sec_break"` // the peer resets the working reconnectable connection before send i (-1 never)
	NSend     int    `json:"nsend"`
	LocalPort bool   `json:"backend_local_port,omitempty"` // e2e-request: the listens entry sets backend-local-port
	Size      string `json:"size,omitempty"`               // "" small | the encoded length of every message: 65535, 65536, 65537, 70000, 200000 bytes, each with and without a body ("-nobody")
}

func (c c20Case) sig() string {
	s := fmt.Sprintf("%s|primary=%s,secondary=%s,plan=%v,break=%d,n=%d", c.Target, c.Primary, c.Secondary, c.Plan, c.SecBreak, c.NSend)
	if c.Size != "" {
		s += ",size=" + c.Size
	}
	if c.LocalPort {
		s += ",backend-local-port"
	}
	return s
}

const c20Dest = "127.0.0.9:6000"

// c20MsgSized: a message whose ENCODED length is exactly n bytes; nobody: the length is made up by a
// header value, the body is empty
func c20MsgSized(i int, size string) *Message {
	if size == "" {
		return c20Msg(i)
	}
	var n int
	fmt.Sscanf(size, "%d", &n)
	nobody := strings.HasSuffix(size, "-nobody")
	build := func(pad int) []byte {
		sp := MsgSpec{Status: 200, Reason: "OK", Vias: []string{"SIP/2.0/TCP 127.0.0.9:6000;branch=z9hG4bKf"}, From: "<sip:a@x>;tag=1", To: "<sip:b@y>;tag=2", CallID: fmt.Sprintf("c20-%d", i), CSeq: "1 INVITE"}
		if nobody {
			sp.Extra = []WHdr{{"X-Pad", strings.Repeat("h", pad)}}
		} else {
			sp.Extra = []WHdr{{"X-Pad", "p"}}
			sp.Body = []byte(strings.Repeat("b", pad))
		}
		return sp.Build().Render()
	}
	var raw []byte
	for pad := n - len(build(0)) - 8; pad <= n; pad++ {
		if pad < 0 {
			continue
		}
		if raw = build(pad); len(raw) >= n {
			break
		}
	}
	m, err := ParseMessage(bufioReader(raw))
	if err != nil {
		panic(err)
	}
	if b, _ := m.Bytes(); len(b) != n && len(b) != n+1 {
		// the Content-Length digits may make one length unreachable: the next one is as good
		_ = b
	}
	return m
}

func c20Msg(i int) *Message {
	raw := MsgSpec{Status: 200, Reason: "OK", Vias: []string{"SIP/2.0/TCP 127.0.0.9:6000;branch=z9hG4bKf"}, From: "<sip:a@x>;tag=1", To: "<sip:b@y>;tag=2", CallID: fmt.Sprintf("c20-%d", i), CSeq: "1 INVITE",
		Body: []byte(fmt.Sprintf("payload-%d-%s", i, strings.Repeat("z", 50)))}.Build().Render()
	m, err := ParseMessage(bufioReader(raw))
	if err != nil {
		panic(err)
	}
	return m
}

// c20Direct drives a client transport / backend object directly (targets mgr, failover-direct, backend).
func c20Direct(cs c20Case) (string, string) {
	w := vrt.NewWorld(nil, 0)
	defer w.Close()
	vnet.Reset()
	vnet.Fab.DriverMode = true
	dest, _ := vnet.ListenTCP("tcp", &net.TCPAddr{IP: net.ParseIP("127.0.0.9"), Port: 6000})
	vnet.Fab.DriverMode = false
	var accepted []*vnet.TCPConn // driver-side ends of connections the code dialled
	poll := func() {
		for {
			c := dest.TryAccept()
			if c == nil {
				return
			}
			accepted = append(accepted, c)
		}
	}
	// the cached inbound connection: the peer (driver) connected to a listener of the program
	var inboundDriver *vnet.TCPConn
	var inboundProg *vnet.TCPConn
	if cs.Primary != "absent" {
		pl, _ := vnet.ListenTCP("tcp", &net.TCPAddr{IP: net.ParseIP("127.0.0.1"), Port: 5062})
		vnet.Fab.DriverMode = true
		dc, err := vnet.DialTCP("tcp", &net.TCPAddr{IP: net.ParseIP("127.0.0.9")}, &net.TCPAddr{IP: net.ParseIP("127.0.0.1"), Port: 5062})
		vnet.Fab.DriverMode = false
		if err != nil {
			panic(err)
		}
		inboundDriver = dc
		inboundProg = pl.TryAccept()
	}
	var send func(m *Message) error
	switch cs.Target {
	case "mgr":
		mgr := NewClientTransportMgr(func(conn net.Conn) {})
		trans, err := mgr.GetTransport("tcp", "127.0.0.9", 6000, "127.0.0.1", "INVITE-z9hG4bKf")
		if err != nil {
			return "harness", err.Error()
		}
		if inboundProg != nil {
			trans.primary, _ = NewTCPClientTransportWithConn(inboundProg)
		}
		if cs.Secondary == "absent" {
			return "", ""
		}
		send = trans.Send
	case "failover-direct":
		var prim, sec ClientTransport
		if inboundProg != nil {
			prim, _ = NewTCPClientTransportWithConn(inboundProg)
		}
		if cs.Secondary != "absent" {
			sec, _ = NewTCPClientTransport("127.0.0.9", 6000, "127.0.0.1", func(conn net.Conn) {})
		}
		send = NewFailOverClientTransport(prim, sec).Send
	case "backend":
		if cs.Primary != "absent" || cs.Secondary == "absent" {
			return "", ""
		}
		b, _ := NewTCPBackend(":0", c20Dest, func(conn net.Conn) {})
		send = b.Send
	}
	// a stale reconnectable connection: established by an earlier send, then reset by the peer
	// (stale-partial: it will take the first 100 bytes of the next write before it breaks)
	if cs.Secondary == "stale" || cs.Secondary == "stale-partial" {
		if inboundProg != nil {
			// the warm-up must travel over the reconnectable path: hide the inbound connection for it
			inboundProg.FailWrites = 1
		}
		if err := send(c20Msg(99)); err != nil && inboundProg == nil {
			return "harness", "warm-up send failed: " + err.Error()
		}
		poll()
		if len(accepted) == 0 {
			return "", "" // combination not constructible (the warm-up was absorbed elsewhere)
		}
		accepted[len(accepted)-1].Drain()
		if cs.Secondary == "stale-partial" {
			accepted[len(accepted)-1].Peer().PartialFail = 100
		} else {
			accepted[len(accepted)-1].Reset()
		}
		if cs.Primary != "absent" {
			// the warm-up made the fail-over forget the inbound connection; not the scenario wanted
			return "", ""
		}
	}
	vnet.SetDialPlan(c20Dest, cs.Plan)
	failed := map[*vnet.TCPConn]bool{} // program-side connections on which a write has failed
	var lastCarrier *vnet.TCPConn      // program-side connection that carried the previous delivered message
	healthy := func(c *vnet.TCPConn) bool {
		return c != nil && !c.IsClosed() && !c.Peer().IsClosed() && !c.ClosedByPeer() && c.FailWrites == 0 && c.PartialFail == 0
	}
	planPos := func() int {
		n := 0
		for _, p := range vnet.Fab.PlanPositions() {
			n += p
		}
		return n
	}
	primForgotten := false
	for i := 0; i < cs.NSend; i++ {
		desc := fmt.Sprintf("send %d of %d, fault pattern %s", i, cs.NSend, cs.sig())
		if cs.Primary == fmt.Sprintf("fails@%d", i) && inboundDriver != nil {
			inboundDriver.Reset()
		}
		if cs.SecBreak == i {
			poll()
			for _, a := range accepted {
				if !a.IsClosed() {
					a.Reset()
				}
			}
		}
		before := map[*vnet.TCPConn]int{}
		for _, c := range vnet.Conns() {
			before[c] = c.NWrites
		}
		dialsBefore := vnet.Fab.Dials
		pos := planPos()
		nextDial := 0
		if len(cs.Plan) > 0 {
			k := pos
			if k >= len(cs.Plan) {
				k = len(cs.Plan) - 1
			}
			nextDial = cs.Plan[k]
		}
		workingBefore := healthy(lastCarrier)
		primaryHealthy := inboundProg != nil && !primForgotten && healthy(inboundProg)
		m := c20MsgSized(i, cs.Size)
		want, _ := m.Bytes()
		err := send(m)
		poll()
		if cr := w.CrashCopy(); len(cr) > 0 {
			return "crash", desc + ": " + cr[0]
		}
		// copies delivered, over all peer ends
		copies := 0
		var carrier *vnet.TCPConn
		ends := append([]*vnet.TCPConn{}, accepted...)
		if inboundDriver != nil {
			ends = append(ends, inboundDriver)
		}
		for _, e := range ends {
			got := e.Drain()
			if k := e.Peer().Partial; k > 0 {
				// the environment's own doing: the connection took the first k bytes of a write, then broke
				e.Peer().Partial = 0
				if len(got) >= k && k <= len(want) && bytes.Equal(got[len(got)-k:], want[:k]) {
					got = got[:len(got)-k]
				}
			}
			n := bytes.Count(got, want)
			copies += n
			if n > 0 {
				carrier = e.Peer()
			}
			if len(got) != n*len(want) {
				return "partial-or-foreign-bytes", fmt.Sprintf("%s: a peer received %d bytes that are not whole copies of the message", desc, len(got)-n*len(want))
			}
		}
		if err == nil && copies != 1 {
			return "success-without-exactly-one-delivery", fmt.Sprintf("%s: Send returned nil but the message was delivered %d times", desc, copies)
		}
		if err != nil && copies != 0 {
			return "error-although-delivered", fmt.Sprintf("%s: Send returned %v but the message was delivered %d times", desc, err, copies)
		}
		// writes during this send: on a connection that had failed before? which ones failed now?
		for _, c := range vnet.Conns() {
			if c.IsDriver() || c.NWrites == before[c] {
				continue
			}
			if failed[c] {
				return "write-on-failed-connection", fmt.Sprintf("%s: %d more write(s) on connection %s -> %s although a write on it had failed during an earlier send", desc, c.NWrites-before[c], c.LocalString(), c.RemoteString())
			}
			if c != carrier {
				failed[c] = true
				if c == inboundProg {
					primForgotten = true
				}
			}
		}
		if workingBefore && vnet.Fab.Dials > dialsBefore {
			return "dial-although-working-connection", fmt.Sprintf("%s: %d dial(s) although the connection that carried the previous message was still healthy", desc, vnet.Fab.Dials-dialsBefore)
		}
		must, why := false, ""
		switch {
		case workingBefore:
			must, why = true, "the connection that carried the previous message is still healthy"
		case primaryHealthy:
			must, why = true, "the cached inbound connection is healthy"
		case cs.Secondary != "absent" && nextDial == 0:
			must, why = true, "the cached connection failed (or there is none) and the destination accepts the next connection with healthy writes"
		}
		if must && err != nil {
			return "send-fails-although-a-path-works", fmt.Sprintf("%s: Send returned %v although %s", desc, err, why)
		}
		if carrier != nil {
			lastCarrier = carrier
		}
	}
	if st := w.Stuck(); len(st) > 0 {
		return "hang", fmt.Sprintf("%s: goroutines blocked: %v", cs.sig(), st)
	}
	return "", ""
}

// ---- end to end ----

func c20E2E(cs c20Case) (string, string) {
	cfg := RCfg{Name: "svc.example.com", Listens: []RListen{{Addr: "127.0.0.1", UDP: 5060, TCP: 5062, Backends: []string{"tcp://127.0.1.2:7000"}}}}
	if cs.LocalPort {
		cfg.Listens[0].BackendLocalPort = 7777
	}
	w := StartRelayWorld(SimOpts{}, cfg)
	defer w.Close()
	ua := w.Client("ua", "127.0.0.9", "127.0.0.1:5062")
	switch cs.Target {
	case "e2e-request":
		// requests towards a TCP backend whose connection the peer resets / whose listener refuses
		for i := 0; i < cs.NSend; i++ {
			desc := fmt.Sprintf("request %d of %d, fault pattern %s", i, cs.NSend, cs.sig())
			if i == 0 {
				vnet.SetDialPlan("127.0.1.2:7000", cs.Plan)
			}
			if cs.SecBreak == i {
				for _, a := range w.acc["127.0.1.2:7000"] {
					if !a.IsClosed() {
						a.Reset()
					}
				}
				w.S.Run()
			}
			m := MsgSpec{Method: "OPTIONS", RURI: "sip:bob@svc.example.com", Vias: []string{fmt.Sprintf("SIP/2.0/TCP 127.0.0.9:6000;branch=z9hG4bKe%d", i)}, From: "<sip:a@ua.example.net>;tag=1", To: "<sip:bob@svc.example.com>",
				CallID: fmt.Sprintf("e2e-%d", i), CSeq: "1 OPTIONS", Body: []byte(fmt.Sprintf("body-%d", i))}.Build()
			for _, a := range w.acc["127.0.1.2:7000"] {
				a.Drain()
			}
			next := 0
			if len(cs.Plan) > 0 {
				idx := c20DialsMade(cs, i)
				if idx >= len(cs.Plan) {
					idx = len(cs.Plan) - 1
				}
				next = cs.Plan[idx]
			}
			working := false
			for _, a := range w.acc["127.0.1.2:7000"] {
				if !a.IsClosed() && !a.Peer().IsClosed() && a.Peer().FailWrites == 0 {
					working = true
				}
			}
			w.Observe()
			w.SendTCP(ua, m.Render())
			w.Observe()
			if vd := w.S.Verdict(); vd != "" {
				return "crash", desc + ": " + vd
			}
			copies := 0
			for _, a := range w.acc["127.0.1.2:7000"] {
				copies += bytes.Count(a.Drain(), []byte(fmt.Sprintf("Call-ID: e2e-%d\r\n", i)))
			}
			if copies > 1 {
				return "duplicated", fmt.Sprintf("%s: the backend received the request %d times", desc, copies)
			}
			if (next == 0 || working) && copies != 1 {
				return "request-lost-although-destination-accepts", fmt.Sprintf("%s: the backend's connection is healthy or it accepts the next connection, but it received the request %d times", desc, copies)
			}
		}
	case "e2e-response":
		// a response towards a TCP client whose connection breaks: the proxy falls back to the announced address
		m := MsgSpec{Method: "INVITE", RURI: "sip:bob@svc.example.com", Vias: []string{"SIP/2.0/TCP 127.0.0.9:5060;branch=z9hG4bKer"}, From: "<sip:a@ua.example.net>;tag=1", To: "<sip:bob@svc.example.com>", CallID: "e2e-r", CSeq: "1 INVITE"}.Build()
		w.SendTCP(ua, m.Render())
		obs := w.Observe()
		if len(obs.Pkts) != 1 {
			return "harness", "request not relayed: " + obs.Summary()
		}
		rel, _ := ReadWire(obs.Pkts[0].Data)
		acc := w.acc["127.0.1.2:7000"]
		if len(acc) == 0 {
			return "harness", "no backend connection"
		}
		be := acc[len(acc)-1]
		vnet.SetDialPlan("127.0.0.9:5060", cs.Plan)
		for i := 0; i < cs.NSend; i++ {
			desc := fmt.Sprintf("response %d of %d, fault pattern %s", i, cs.NSend, cs.sig())
			if cs.Primary == fmt.Sprintf("fails@%d", i) {
				ua.Reset()
				w.S.Run()
			}
			code := 180
			if i == cs.NSend-1 {
				code = 200
			}
			r := ResponseTo(rel, code, "tt")
			nextResp := 0
			if len(cs.Plan) > 0 {
				idx := c20DialsMade(cs, i)
				if idx >= len(cs.Plan) {
					idx = len(cs.Plan) - 1
				}
				nextResp = cs.Plan[idx]
			}
			for _, a := range w.acc["127.0.0.9:5060"] {
				if !a.IsClosed() && !a.Peer().IsClosed() && a.Peer().FailWrites == 0 {
					nextResp = 0 // a fallback connection is already established and healthy
				}
			}
			ua.Drain()
			for _, a := range w.acc["127.0.0.9:5060"] {
				a.Drain()
			}
			w.Observe()
			w.SendTCP(be, r.Render())
			w.Observe()
			if vd := w.S.Verdict(); vd != "" {
				return "crash", desc + ": " + vd
			}
			copies := bytes.Count(ua.Drain(), []byte("Call-ID: e2e-r\r\n"))
			for _, a := range w.acc["127.0.0.9:5060"] {
				copies += bytes.Count(a.Drain(), []byte("Call-ID: e2e-r\r\n"))
			}
			if copies > 1 {
				return "duplicated", fmt.Sprintf("%s: the client side received the response %d times", desc, copies)
			}
			broken := strings.HasPrefix(cs.Primary, "fails@") && i >= int(cs.Primary[6]-'0')
			if !broken && copies != 1 {
				return "response-lost-on-healthy-connection", fmt.Sprintf("%s: the client connection is healthy but the response arrived %d times", desc, copies)
			}
			if broken && nextResp == 0 && copies != 1 {
				return "response-lost-although-destination-accepts", fmt.Sprintf("%s: the client's connection failed and its announced address accepts the next connection, but the response arrived %d times", desc, copies)
			}
		}
	}
	return "", ""
}

// c20DialsMade: index into the dial plan of the next dial (number of plan entries consumed so far).
func c20DialsMade(cs c20Case, i int) int {
	n := 0
	for _, pl := range vnet.Fab.PlanPositions() {
		n += pl
	}
	return n
}

// c20UDPFault: write faults on the UDP path. A request routed to a UDP next hop is so large that it no
// longer fits into a datagram once the proxy has added its Via (the kernel answers EMSGSIZE): that
// send fails - an error, not a crash, and nothing else may break. NSend such requests are relayed in a
// row (the next hop may or may not have been learned through the listener before: Secondary =
// "learned" | "unknown"); afterwards an ordinary request to the same next hop, a request for the
// backends and a request of the next hop itself must all be served ("later messages go straight to the
// working path").
func c20UDPFault(cs c20Case) (string, string) {
	cfg := RCfg{Name: "svc.example.com", Listens: []RListen{{Addr: "127.0.0.1", UDP: 5060, TCP: 5062, Backends: []string{"udp://127.0.1.1:7000"}}}}
	w := StartRelayWorld(SimOpts{}, cfg)
	defer w.Close()
	const hop, ua, lst = "127.0.2.1:5070", "127.0.0.9:5060", "127.0.0.1:5060"
	seq := 0
	req := func(from, ruri, route string, pad int) *WMsg {
		seq++
		sp := MsgSpec{Method: "MESSAGE", RURI: ruri, Vias: []string{fmt.Sprintf("SIP/2.0/UDP %s;branch=z9hG4bKuf%d", from, seq)}, From: "<sip:a@ua.example.net>;tag=f", To: "<sip:b@far.example.net>",
			CallID: fmt.Sprintf("uf-%d", seq), CSeq: "1 MESSAGE"}
		if route != "" {
			sp.Routes = []string{route}
		}
		m := sp.Build()
		if pad > 0 {
			// the datagram as sent is exactly `pad` bytes long
			for n := pad - len(m.Render()); n > 0; n = pad - len(m.Render()) {
				m.Body = append(m.Body, bytes.Repeat([]byte("x"), n)...)
				for i := range m.Hdrs {
					if m.Hdrs[i].Name == "Content-Length" {
						m.Hdrs[i].Value = strconv.Itoa(len(m.Body))
					}
				}
				if len(m.Render()) > pad {
					m.Body = m.Body[:len(m.Body)-(len(m.Render())-pad)]
					for i := range m.Hdrs {
						if m.Hdrs[i].Name == "Content-Length" {
							m.Hdrs[i].Value = strconv.Itoa(len(m.Body))
						}
					}
					break
				}
			}
		}
		return m
	}
	if cs.Secondary == "learned" {
		w.SendUDP(hop, lst, req(hop, "sip:b@svc.example.com", "", 0).Render())
		w.Observe()
	}
	for i := 0; i < cs.NSend; i++ {
		big := req(ua, "sip:b@far.example.net", "<sip:"+hop+";lr>", 65500)
		w.SendUDP(ua, lst, big.Render())
		obs := w.Observe()
		if vd := w.S.Verdict(); vd != "" {
			return "crash", cs.sig() + ": oversized request " + fmt.Sprint(i+1) + ": " + vd + "\n" + w.S.CrashDetail()
		}
		for _, p := range obs.Pkts {
			if m, err := ReadWire(p.Data); err != nil || len(m.Body) != len(big.Body) {
				return "partial-or-foreign-bytes", fmt.Sprintf("%s: oversized request %d: a datagram of %d bytes that is not the whole message left towards %s", cs.sig(), i+1, len(p.Data), p.To)
			}
		}
	}
	// afterwards everything works as before
	type probe struct {
		name, from, to string
		m              *WMsg
	}
	for _, pr := range []probe{
		{"an ordinary request routed to the same next hop", ua, hop, req(ua, "sip:b@far.example.net", "<sip:"+hop+";lr>", 0)},
		{"a request for the backends", ua, "127.0.1.1:7000", req(ua, "sip:b@svc.example.com", "", 0)},
		{"a request of the next hop for the backends", hop, "127.0.1.1:7000", req(hop, "sip:b@svc.example.com", "", 0)},
		{"a second ordinary request routed to the same next hop", ua, hop, req(ua, "sip:b@far.example.net", "<sip:"+hop+";lr>", 0)},
	} {
		w.SendUDP(pr.from, lst, pr.m.Render())
		obs := w.Observe()
		if vd := w.S.Verdict(); vd != "" {
			return "crash", cs.sig() + ": " + pr.name + ": " + vd
		}
		if len(obs.Pkts) != 1 || obs.Pkts[0].To != pr.to {
			return "later-message-not-delivered", fmt.Sprintf("%s: after %d sends that failed with 'message too long', %s was relayed as: %s (expected one datagram to %s)", cs.sig(), cs.NSend, pr.name, obs.Summary(), pr.to)
		}
	}
	return "", ""
}

func c20Eval(cs c20Case) (cl string, detail string) {
	if cs.Target == "udp-write-fault" {
		return c20UDPFault(cs)
	}
	if strings.HasPrefix(cs.Target, "e2e") {
		return c20E2E(cs)
	}
	if cr := guard(func() { cl, detail = c20Direct(cs) }); cr != "" {
		return "crash", cs.sig() + ": " + cr
	}
	return
}

func c20Plans(maxLen int, outcomes int) [][]int {
	if maxLen >= 4 || outcomes != 3 {
		plans := [][]int{nil}
		var rec func(cur []int)
		rec = func(cur []int) {
			if len(cur) > 0 {
				plans = append(plans, append([]int(nil), cur...))
			}
			if len(cur) == maxLen {
				return
			}
			for a := 0; a < outcomes; a++ {
				// the last outcome repeats: a plan never ends with a repetition of its last element
				rec(append(cur, a))
			}
		}
		rec(nil)
		var out [][]int
		for _, p := range plans {
			if n := len(p); n >= 2 && p[n-1] == p[n-2] {
				continue
			}
			out = append(out, p)
		}
		return out
	}
	plans := [][]int{nil}
	for a := 0; a < 3; a++ {
		plans = append(plans, []int{a})
		for b := 0; b < 3; b++ {
			if b != a {
				plans = append(plans, []int{a, b})
			}
			for c := 0; c < 3; c++ {
				if c != b {
					plans = append(plans, []int{a, b, c})
				}
			}
		}
	}
	return plans
}

func c20Run(c *Ctx) {
	var idx int64
	c20Sizes(c, &idx)
	for _, learned := range []string{"learned", "unknown"} {
		for n := 1; n <= 3; n++ {
			idx++
			if !c.Mine(idx) || c.Expired() {
				continue
			}
			cs := c20Case{Target: "udp-write-fault", Primary: "absent", Secondary: learned, SecBreak: -1, NSend: n}
			cl, detail := c20Eval(cs)
			c.Res.Evaluations++
			c.Res.Executions++
			c.Res.Nontrivial++
			if cl != "" {
				c.Violate(cl+"|udp-write-fault|next-hop="+learned, cl, detail, cs)
			}
		}
	}
	maxPlan, maxSend := 3, 3
	if c.Thorough() {
		maxPlan, maxSend = 4, 4
	}
	for _, target := range []string{"mgr", "failover-direct", "backend", "e2e-response", "e2e-request"} {
		prims := []string{"absent", "healthy", "fails@0", "fails@1", "fails@2"}
		if c.Thorough() {
			prims = append(prims, "fails@3")
		}
		secs := []string{"fresh", "stale", "absent", "stale-partial"}
		outcomes := 4 // dial outcomes incl. "accepted, first write delivers 100 bytes and then fails"
		if target == "backend" {
			prims = []string{"absent"}
			secs = []string{"fresh", "stale", "stale-partial"}
		}
		if target == "e2e-request" {
			prims = []string{"absent"}
			secs = []string{"fresh", "stale"}
			outcomes = 3
		}
		if target == "e2e-response" {
			prims = []string{"healthy", "fails@0", "fails@1", "fails@2"}
			if c.Thorough() {
				prims = append(prims, "fails@3")
			}
			secs = []string{"fresh"}
			outcomes = 3
		}
		for _, pr := range prims {
			for _, sc := range secs {
				for _, plan := range c20Plans(maxPlan, outcomes) {
					for brk := -1; brk < maxSend; brk++ {
						for n := 1; n <= maxSend; n++ {
							if brk >= n || (strings.HasPrefix(pr, "fails@") && int(pr[6]-'0') >= n) {
								continue
							}
							if sc == "stale" && target == "e2e-request" {
								continue // expressed by break=0
							}
							idx++
							if !c.Mine(idx) || c.Expired() {
								continue
							}
							cs := c20Case{target, pr, sc, plan, brk, n, false, ""}
							cl, detail := c20Eval(cs)
							if target == "e2e-request" && cl == "" {
								// the same again with a configured backend-local-port (a TCP backend must still re-connect)
								cs.LocalPort = true
								cl, detail = c20Eval(cs)
								c.Res.Evaluations++
								c.Res.Executions++
							}
							c.Res.Evaluations++
							c.Res.Executions++
							if pr != "healthy" || brk >= 0 || len(plan) > 0 {
								c.Res.Nontrivial++
							}
							if idx%700 == 1 {
								c.Sample(cs)
							}
							c.Outcome(target)
							if cl == "harness" {
								c.Res.Notes = append(c.Res.Notes, "harness: "+cs.sig()+": "+detail)
								continue
							}
							if cl != "" {
								c.Violate(cl+"|"+target+fmt.Sprintf("|primary=%s,secondary=%s", pr, sc), cl, detail, cs)
							}
						}
					}
				}
			}
		}
	}
}

// c20Sizes: the encoded length of the message around the 64 KiB mark (and well beyond), with the length
// in the body or in a header, on the direct targets under no fault and under each single fault.
func c20Sizes(c *Ctx, idx *int64) {
	for _, target := range []string{"mgr", "failover-direct", "backend"} {
		for _, n := range []int{65535, 65536, 65537, 70000, 200000} {
			for _, suffix := range []string{"", "-nobody"} {
				for _, sc := range []string{"fresh", "stale"} {
					for _, plan := range [][]int{nil, {2, 0}, {3, 0}} {
						*idx++
						if !c.Mine(*idx) || c.Expired() {
							continue
						}
						cs := c20Case{Target: target, Primary: "absent", Secondary: sc, Plan: plan, SecBreak: -1, NSend: 2, Size: fmt.Sprint(n) + suffix}
						cl, detail := c20Eval(cs)
						c.Res.Evaluations++
						c.Res.Executions++
						c.Res.Nontrivial++
						if cl == "harness" {
							c.Res.Notes = append(c.Res.Notes, "harness: "+cs.sig()+": "+detail)
							continue
						}
						if cl != "" {
							c.Violate(cl+"|"+target+"|size="+cs.Size, cl, detail, cs)
						}
					}
				}
			}
		}
	}
}

func init() {
	addCheck(&Check{ID: "C20", Level: "fault_enumeration",
		Rule:   "the complete fault product as environment answers of the simulated network: cached inbound connection {absent, healthy, reset by the peer before send 0/1/2} x reconnectable path {fresh, stale (established earlier, then reset), stale-partial (takes the first 100 bytes of the next write, then breaks), absent} x every dial plan of up to three (thorough four) successive outcomes over {accepted, refused, accepted but every write fails, accepted but the first write is cut after 100 bytes (direct targets)} x working connection reset before send 0/1/2 or never x send sequences of 1-3 (thorough 1-4) messages, plus encoded message lengths of 65535 / 65536 / 65537 / 70000 / 200000 bytes (length in the body or in a header with an empty body) on the direct targets under no fault and single faults, for (a) the FailOverClientTransport obtained from the real ClientTransportMgr exactly as the proxy obtains it, (b) a directly constructed fail-over, (c) TCPBackend, (d) end to end: responses towards a TCP client whose connection breaks, (e) requests towards a TCP backend, with and without a configured backend-local-port (a bind to a port still held by an earlier connection fails in the simulation), (f) write faults on the UDP path: 1-3 requests too long for a datagram once the Via is added, then ordinary requests to the same next hop, to the backends and from the next hop; oracle: Send returns nil iff exactly one complete copy was delivered, success is required whenever the next connection attempt is accepted with healthy writes, no write on a connection that failed before, no dial while the working connection is healthy, no hang, no crash; non-trivial = at least one fault in the pattern",
		Assume: []string{"a write on a reset connection fails at once (the kernel's delayed RST, which makes exactly-once impossible for any implementation, is outside the model)", "a peer that black-holes a dial is outside what the simulation can decide"},
		Run:    c20Run,
		Replay: func(c *Ctx, raw json.RawMessage) string {
			var cs c20Case
			json.Unmarshal(raw, &cs)
			cl, _ := c20Eval(cs)
			return cl
		}})
}
