//go:build verif && (c08 || all)

package main

import (
	"bytes"
	"encoding/json"
	"fmt"
	"github.com/ochinchina/sipproxy/vrt/vnet"
	"runtime/metrics"
	"sort"
	"strings"
)

// C08 — no network input can crash, wedge or balloon the proxy (DESIGN.md §4 C08).
// In-family replacement of coverage-guided fuzzing: complete enumerations of truncations,
// single-byte edits and field-level hostile substitutions, each through the whole pipeline on
// UDP and on TCP and followed by a sentinel request.

var c08Cfg = RCfg{Name: "svc.example.com, urn:service:sos", DialogTimeout: 10,
	Listens: []RListen{{Addr: "127.0.0.1", UDP: 5060, TCP: 5062, Backends: []string{"udp://127.0.1.1:7000", "tcp://127.0.1.2:7000"}, MustRR: true}},
	Routes:  []RRoute{{Dests: []string{"static.example.org"}, Protocol: "udp", NextHop: "127.0.3.1:5080"}, {Dests: []string{"*.wild.example.org"}, Protocol: "tcp", NextHop: "127.0.3.2:5090"}},
	Hosts:   [][2]string{{"nh.example.net", "127.0.2.1"}, {"proxy.example.com", "127.0.0.1"}}}

func c08Corpus() []*WMsg {
	via := []string{"SIP/2.0/UDP 127.0.0.9:5060;branch=z9hG4bKc8;rport"}
	ex := []WHdr{{"Contact", "<sip:alice@127.0.0.9:5060>"}, {"Expires", "120"}, {"Content-Type", "application/sdp"}}
	sdp := []byte("v=0\r\no=- 1 1 IN IP4 127.0.0.9\r\n")
	f, t, tt := "\"A\" <sip:alice@ua.example.net>;tag=f1", "<sip:bob@svc.example.com>", "<sip:bob@svc.example.com>;tag=t1"
	return []*WMsg{
		MsgSpec{Method: "INVITE", RURI: "sip:bob@svc.example.com", Vias: via, From: f, To: t, CallID: "k1@h", CSeq: "1 INVITE", Extra: ex, Body: sdp}.Build(),
		MsgSpec{Method: "ACK", RURI: "sip:bob@svc.example.com", Vias: via, From: f, To: tt, CallID: "k1@h", CSeq: "1 ACK"}.Build(),
		MsgSpec{Method: "BYE", RURI: "sip:bob@svc.example.com", Vias: via, From: f, To: tt, CallID: "k1@h", CSeq: "2 BYE"}.Build(),
		MsgSpec{Method: "OPTIONS", RURI: "sip:x@foreign.example.net", Vias: []string{"SIP/2.0/UDP 127.0.0.9:5060;branch=z9hG4bKr, SIP/2.0/TCP up.example.net:5070;branch=z9hG4bKu;received=10.0.0.1"},
			Routes: []string{"<sip:proxy.example.com:5060;lr>, <sip:nh.example.net:5070;lr>", "<sip:10.3.3.3;lr>"}, RRs: []string{"<sip:10.8.0.1;lr>"}, From: f, To: "<sip:x@foreign.example.net>", CallID: "k2@h", CSeq: "1 OPTIONS"}.Build(),
		MsgSpec{Method: "NOTIFY", RURI: "sip:bob@svc.example.com", Vias: via, From: f, To: tt, CallID: "k1@h", CSeq: "3 NOTIFY", Extra: []WHdr{{"Event", "presence"}, {"Subscription-State", "terminated"}}}.Build(),
		MsgSpec{Method: "SUBSCRIBE", RURI: "sip:bob@svc.example.com", Vias: via, From: f, To: t, CallID: "k3@h", CSeq: "1 SUBSCRIBE", Extra: []WHdr{{"Event", "presence"}, {"Expires", "3600"}}}.Build(),
		MsgSpec{Method: "MESSAGE", RURI: "sip:y@other.example.net", Vias: via, From: f, To: "<sip:y@static.example.org>", CallID: "k4@h", CSeq: "1 MESSAGE", Body: []byte("hi")}.Build(),
		MsgSpec{Method: "INVITE", RURI: "urn:service:sos", Vias: via, From: "<tel:+15551234>;tag=f2", To: "<urn:service:sos>", CallID: "k5@h", CSeq: "1 INVITE"}.Build(),
		MsgSpec{Status: 180, Reason: "Ringing", Vias: []string{"SIP/2.0/UDP 127.0.0.1:5060;branch=z9hG4bKp", "SIP/2.0/UDP 127.0.0.9:5060;branch=z9hG4bKc8;rport=5060;received=127.0.0.9"}, From: f, To: tt, CallID: "k1@h", CSeq: "1 INVITE"}.Build(),
		MsgSpec{Status: 200, Reason: "OK", Vias: []string{"SIP/2.0/UDP 127.0.0.1:5060;branch=z9hG4bKp, SIP/2.0/TCP 127.0.0.9:5060;branch=z9hG4bKc8"}, RRs: []string{"<sip:127.0.0.1:5060;lr>"}, From: f, To: tt, CallID: "k1@h", CSeq: "1 INVITE", Extra: ex, Body: sdp}.Build(),
		MsgSpec{Status: 404, Reason: "Not Found", Vias: []string{"SIP/2.0/UDP 127.0.0.1:5060;branch=z9hG4bKp", "SIP/2.0/UDP 127.0.0.9:5060;branch=z9hG4bKc8"}, From: f, To: tt, CallID: "k1@h", CSeq: "2 BYE"}.Build(),
		{Start: "REGISTER sip:svc.example.com SIP/2.0", Hdrs: []WHdr{{"v", "SIP/2.0/UDP 127.0.0.9;branch=z9hG4bKcmp"}, {"f", "<sip:a@svc.example.com>;tag=1"}, {"t", "<sip:a@svc.example.com>"}, {"i", "k6@h"}, {"CSeq", "1 REGISTER"}, {"m", "*"}, {"l", "0"}}},
	}
}

type c08Case struct {
	Kind      string `json:"kind"`      // prefix | sub | ins | del | field | field2 | extreme
	Corpus    int    `json:"corpus"`    // index into the corpus
	Transport string `json:"transport"` // udp | tcp
	A         int    `json:"a"`
	B         int    `json:"b"`
	Name      string `json:"name,omitempty"`
	NoRecv    bool   `json:"no_received,omitempty"`         // listener configured with no-received: true
	After     bool   `json:"after_valid_request,omitempty"` // tcp: the hostile bytes follow a valid request on the same connection, whose response arrives afterwards
}

var c08Alphabet = []byte{0, '\r', '\n', ' ', ':', ';', ',', '<', '>', '[', ']', '%', '@', '=', '"', '/', '-', 0xff, '0', '9'}

type c08Sub struct {
	Name  string
	Apply func(m *WMsg) []byte // returns the hostile bytes (nil = not applicable to this message)
}

func c08SetHdr(canon, val string) func(m *WMsg) []byte {
	return func(m *WMsg) []byte {
		found := false
		for i := range m.Hdrs {
			if canonName(m.Hdrs[i].Name) == canon {
				m.Hdrs[i].Value = val
				found = true
				break
			}
		}
		if !found {
			return nil
		}
		return m.Render()
	}
}

func c08DelHdr(canon string) func(m *WMsg) []byte {
	return func(m *WMsg) []byte {
		for i := range m.Hdrs {
			if canonName(m.Hdrs[i].Name) == canon {
				m.Hdrs = append(m.Hdrs[:i], m.Hdrs[i+1:]...)
				return m.Render()
			}
		}
		return nil
	}
}

func c08ViaHost(h string) func(m *WMsg) []byte {
	return func(m *WMsg) []byte {
		for i := range m.Hdrs {
			if canonName(m.Hdrs[i].Name) == "via" {
				v := m.Hdrs[i].Value
				sp := strings.IndexByte(v, ' ')
				end := strings.IndexAny(v[sp+1:], ";,")
				if end < 0 {
					end = len(v) - sp - 1
				}
				m.Hdrs[i].Value = v[:sp+1] + h + v[sp+1+end:]
				return m.Render()
			}
		}
		return nil
	}
}

func c08Start(f func(start string) string) func(m *WMsg) []byte {
	return func(m *WMsg) []byte {
		s := f(m.Start)
		if s == m.Start {
			return nil
		}
		m.Start = s
		return m.Render()
	}
}

func c08Subs() []c08Sub {
	var subs []c08Sub
	add := func(n string, f func(m *WMsg) []byte) { subs = append(subs, c08Sub{n, f}) }
	for _, v := range []string{"-1", "2147483647", "9223372036854775807", "9223372036854775808", "1000000000000000000", "", "0x10", "99", "1", "4294967296", "-9223372036854775808", "1e3", " 5 ", "+3"} {
		add("content-length="+v, c08SetHdr("content-length", v))
	}
	add("no-content-length", c08DelHdr("content-length"))
	for _, h := range []string{"", "[", "[]", "[:", "]", "[::1", ":", ":5060", "a:b:c", strings.Repeat("h", 60000), "host:99999999999", "host:-1", "host:0", "[::1]:5060", "%s%n"} {
		add("via-host="+clipName(h), c08ViaHost(h))
	}
	for _, n := range []string{"via", "from", "to", "call-id", "cseq", "max-forwards"} {
		add("no-"+n, c08DelHdr(n))
	}
	// an extra header line with a hostile NAME: one byte outside ASCII (a table indexed by the one-letter compact
	// name), empty, blank, very long, with a NUL
	for _, n := range []string{"\xe9", "\x80", "\xff", "\x7f", "\x00", "", " ", "\t", "\xc3\xa9", strings.Repeat("N", 70000), "a b", "=", "%s"} {
		n := n
		add("extra-header-name="+clipName(fmt.Sprintf("%q", n)), func(m *WMsg) []byte {
			c := m.Clone()
			c.Hdrs = append([]WHdr{{n, "1"}}, c.Hdrs...)
			return c.Render()
		})
	}
	for _, u := range []string{"sip:", "sip:@", "sip:;", "sip:?", "<", ">", "<>", "<sip:", "sip:a@b>", "\"", "\"unterminated <sip:a@b>", "sip:a@[", "sip:a@b:port", "sip:a@b;;;", "tel:", ";tag=", "<sip:a@b>;tag", "<sip:a@b>;=", ",", "%", "sip:%", strings.Repeat("<", 5000)} {
		add("from="+clipName(u), c08SetHdr("from", u))
		add("to="+clipName(u), c08SetHdr("to", u))
		add("route="+clipName(u), c08SetHdr("route", u))
		add("record-route="+clipName(u), c08SetHdr("record-route", u))
	}
	for _, v := range []string{"", "x", "-1 INVITE", "99999999999999999999 INVITE", "1", "1 ", " INVITE", "1 INVITE extra", "1\tINVITE"} {
		add("cseq="+v, c08SetHdr("cseq", v))
	}
	for _, v := range []string{"", "-1", "x", "99999999999999999999", "2147483647", "1.5"} {
		add("expires="+v, c08SetHdr("expires", v))
	}
	for _, v := range []string{"", ",", ",,", "SIP/2.0/UDP", "SIP/2.0/UDP ;", "SIP/2.0/UDP a;branch", "SIP/2.0/UDP a;=", "/ a", "SIP/2.0/UDP a;rport=99999999999;received=", "SIP/2.0/UDP a;received=[", "SIP/2.0/UDP a,", "SIP/2.0/TCP [;branch=z9hG4bKx", "SIP/2.0/TCP [a;branch=z9hG4bKx", "SIP/2.0/TCP a;received=[;branch=z9hG4bKx", "SIP/2.0/TCP a;received=[x;branch=z9hG4bKx"} {
		add("via="+clipName(v), c08SetHdr("via", v))
	}
	for _, code := range []string{"000", "99", "700", "-1", "99999999999999999999", "-100", "-486", "-2147483648", "-9223372036854775808", "999", "1000", "65536", "2147483647", "+200", "0x1f4", "", "2 00"} {
		code := code
		add("status="+code, c08Start(func(s string) string {
			if !strings.HasPrefix(s, "SIP/2.0 ") {
				return s
			}
			f := strings.SplitN(s, " ", 3)
			f[1] = code
			return strings.Join(f, " ")
		}))
	}
	add("status-no-reason", c08Start(func(s string) string { return strings.Replace(s, "SIP/2.0 200 OK", "SIP/2.0 200", 1) }))
	add("ruri=sip:", c08Start(func(s string) string { return strings.Replace(s, "sip:bob@svc.example.com", "sip:", 1) }))
	add("ruri=<>", c08Start(func(s string) string { return strings.Replace(s, "sip:bob@svc.example.com", "<>", 1) }))
	add("ruri=fmt", c08Start(func(s string) string { return strings.Replace(s, "sip:bob@svc.example.com", "urn:%n%s%d%v", 1) }))
	add("ruri=sip:@[", c08Start(func(s string) string { return strings.Replace(s, "sip:bob@svc.example.com", "sip:@[", 1) }))
	add("startline-two-fields", c08Start(func(s string) string {
		if strings.HasPrefix(s, "SIP/") {
			return s
		}
		return strings.SplitN(s, " ", 2)[0] + " SIP/2.0"
	}))
	add("startline-empty-method", c08Start(func(s string) string {
		if strings.HasPrefix(s, "SIP/") {
			return s
		}
		return " " + strings.SplitN(s, " ", 2)[1]
	}))
	add("subscription-state=", c08SetHdr("subscription-state", ""))
	return subs
}

func clipName(s string) string {
	if len(s) > 24 {
		return fmt.Sprintf("%s..(%d)", s[:8], len(s))
	}
	return s
}

func c08Extremes() map[string][]byte {
	base := c08Corpus()[0]
	out := map[string][]byte{}
	many := base.Clone()
	for i := 0; i < 3000; i++ {
		many.Hdrs = append(many.Hdrs[:len(many.Hdrs)-1], WHdr{fmt.Sprintf("X-%d", i), "v"}, many.Hdrs[len(many.Hdrs)-1])
	}
	out["3000-headers"] = many.Render()
	vp := base.Clone()
	vp.Hdrs[0].Value = "SIP/2.0/UDP 127.0.0.9:5060;branch=z9hG4bKx" + strings.Repeat(";p=1", 8000)
	out["8000-via-params"] = vp.Render()
	ve := base.Clone()
	ve.Hdrs[0].Value = strings.Repeat("SIP/2.0/UDP 10.0.0.1;branch=z9hG4bKx,", 1500) + "SIP/2.0/UDP 10.0.0.2"
	out["1500-via-entries"] = ve.Render()
	rt := c08Corpus()[3].Clone()
	for i := range rt.Hdrs {
		if rt.Hdrs[i].Name == "Route" {
			rt.Hdrs[i].Value = strings.Repeat("<sip:127.0.2.1:5070;lr>,", 2000) + "<sip:127.0.2.1:5070;lr>"
			break
		}
	}
	out["2000-route-entries"] = rt.Render()
	up := base.Clone()
	up.Start = "INVITE sip:bob@svc.example.com" + strings.Repeat(";a=b", 12000) + " SIP/2.0"
	out["12000-uri-params"] = up.Render()
	out["60k-start-line"] = []byte("INVITE " + strings.Repeat("x", 60000))
	out["60k-no-colon"] = append([]byte("INVITE sip:a@b SIP/2.0\r\n"), bytes.Repeat([]byte("h"), 60000)...)
	out["60k-crlf"] = bytes.Repeat([]byte("\r\n"), 30000)
	out["60k-colons"] = append([]byte("INVITE sip:a@b SIP/2.0\r\n"), bytes.Repeat([]byte(":\r\n"), 20000)...)
	out["nul-only"] = make([]byte, 2000)
	out["empty"] = []byte{}
	out["ff-only"] = bytes.Repeat([]byte{0xff}, 65000)
	return out
}

var c08Samples = metricSample()

func metricSample() []metrics.Sample { return []metrics.Sample{{Name: "/gc/heap/allocs:bytes"}} }

func allocatedBytes() uint64 {
	metrics.Read(c08Samples)
	return c08Samples[0].Value.Uint64()
}

// c08Bytes materialises the hostile input of a case (nil = not applicable).
func c08Bytes(cs c08Case) []byte {
	corpus := c08Corpus()
	switch cs.Kind {
	case "extreme":
		return c08Extremes()[cs.Name]
	case "manual":
		m := corpus[cs.Corpus].Clone()
		return c08SetHdr("via", cs.Name)(m)
	}
	if cs.Corpus >= len(corpus) {
		return nil
	}
	m := corpus[cs.Corpus]
	raw := m.Render()
	switch cs.Kind {
	case "prefix":
		if cs.A > len(raw) {
			return nil
		}
		return raw[:cs.A]
	case "sub":
		if cs.A >= len(raw) || raw[cs.A] == c08Alphabet[cs.B] {
			return nil
		}
		b := append([]byte(nil), raw...)
		b[cs.A] = c08Alphabet[cs.B]
		return b
	case "ins":
		if cs.A > len(raw) {
			return nil
		}
		return append(append(append([]byte(nil), raw[:cs.A]...), c08Alphabet[cs.B]), raw[cs.A:]...)
	case "del":
		if cs.A >= len(raw) {
			return nil
		}
		return append(append([]byte(nil), raw[:cs.A]...), raw[cs.A+1:]...)
	case "field":
		return c08Subs()[cs.A].Apply(m.Clone())
	case "field2":
		subs := c08Subs()
		mm := m.Clone()
		if subs[cs.A].Apply(mm) == nil {
			return nil
		}
		return subs[cs.B].Apply(mm)
	}
	return nil
}

func c08Eval(cs c08Case, hostile []byte) (string, string) {
	cfg := c08Cfg
	if cs.NoRecv {
		cfg.Listens = []RListen{cfg.Listens[0]}
		cfg.Listens[0].NoReceived = "true"
	}
	w := StartRelayWorld(SimOpts{}, cfg)
	defer w.Close()
	// history: a learned next hop and a pinned dialog, so that the later stages of the pipeline are reachable
	pre := MsgSpec{Method: "OPTIONS", RURI: "sip:x@foreign.example.net", Vias: []string{"SIP/2.0/UDP 127.0.2.1:5070;branch=z9hG4bKpre"}, From: "<sip:nh@nh.example.net>;tag=p", To: "<sip:x@nomatch.example.org>", CallID: "pre", CSeq: "1 OPTIONS"}.Build()
	w.SendUDP("127.0.2.1:5070", "127.0.0.1:5060", pre.Render())
	w.Observe()
	var relayed *vnet.Packet
	if cs.After && cs.Transport == "tcp" {
		// a valid request on the connection first: its transaction is bound to this connection
		c := w.Client("h", "127.0.0.9", "127.0.0.1:5062")
		first := MsgSpec{Method: "INVITE", RURI: "sip:bob@svc.example.com", Vias: []string{"SIP/2.0/TCP 127.0.0.9:5060;branch=z9hG4bKfirst"}, From: "<sip:f@ua.example.net>;tag=ff", To: "<sip:bob@svc.example.com>", CallID: "first", CSeq: "1 INVITE"}.Build()
		w.SendTCP(c, first.Render())
		for _, p := range w.Observe().Pkts {
			if bytes.Contains(p.Data, []byte("Call-ID: first")) {
				p := p
				relayed = &p
			}
		}
	}
	before := allocatedBytes()
	var conn interface{ ClosedByPeer() bool }
	if cs.Transport == "tcp" {
		c := w.Client("h", "127.0.0.9", "127.0.0.1:5062")
		w.SendTCP(c, hostile)
		conn = c
	} else {
		if len(hostile) > 65507 {
			return "", ""
		}
		w.SendUDP("127.0.0.9:5060", "127.0.0.1:5060", hostile)
	}
	after := allocatedBytes()
	w.Observe()
	desc := func(what string) string {
		return fmt.Sprintf("%s\nhostile input (%d bytes, %s): %s", what, len(hostile), cs.Transport, short(hostile))
	}
	if vd := w.S.Verdict(); vd != "" {
		cl := "crash"
		if strings.HasPrefix(vd, "deadlock") {
			cl = "deadlock"
		}
		return cl, desc(vd + "\n" + w.S.CrashDetail())
	}
	limit := uint64(1<<20 + 256*len(hostile))
	if after-before > limit {
		return "allocation-out-of-proportion", desc(fmt.Sprintf("%d bytes allocated while handling %d received bytes (bound %d)", after-before, len(hostile), limit))
	}
	_ = conn
	if relayed != nil {
		// the backend now answers the request that preceded the hostile bytes
		if rm, err := ReadWire(relayed.Data); err == nil {
			if relayed.Proto == "udp" {
				w.SendUDP(relayed.To, relayed.From, ResponseTo(rm, 200, "bt").Render())
			} else if acc := w.acc[relayed.To]; len(acc) > 0 {
				w.SendTCP(acc[len(acc)-1], ResponseTo(rm, 200, "bt").Render())
			}
			w.Observe()
			if vd := w.S.Verdict(); vd != "" {
				return "crash", desc("when the response to the request that preceded the hostile bytes on the same connection arrived: " + vd + "\n" + w.S.CrashDetail())
			}
		}
	}
	// the proxy keeps serving: a sentinel request is relayed to a backend
	sent := MsgSpec{Method: "OPTIONS", RURI: "sip:bob@svc.example.com", Vias: []string{"SIP/2.0/UDP 127.0.0.8:5060;branch=z9hG4bKsentinel"}, From: "<sip:s@ua.example.net>;tag=s", To: "<sip:bob@svc.example.com>", CallID: "sentinel", CSeq: "1 OPTIONS", Body: []byte("sentinel-body")}.Build()
	if cs.Transport == "tcp" {
		w.SendTCP(w.Client("sentinel", "127.0.0.8", "127.0.0.1:5062"), sent.Render())
	} else {
		w.SendUDP("127.0.0.8:5060", "127.0.0.1:5060", sent.Render())
	}
	obs := w.Observe()
	ok := false
	for _, p := range obs.Pkts {
		if bytes.Contains(p.Data, []byte("Call-ID: sentinel")) && bytes.HasSuffix(p.Data, []byte("sentinel-body")) && (p.To == "127.0.1.1:7000" || p.To == "127.0.1.2:7000") {
			ok = true
		}
	}
	if vd := w.S.Verdict(); vd != "" {
		return "crash", desc("after the sentinel: " + vd + "\n" + w.S.CrashDetail())
	}
	if !ok {
		return "stops-serving", desc("the sentinel request that followed was not relayed to a backend: " + obs.Summary())
	}
	return "", ""
}

func c08Sig(cl string, cs c08Case, hostile []byte) string {
	switch cs.Kind {
	case "field":
		if cs.NoRecv {
			return cl + "|" + cs.Transport + "|no-received|" + c08Subs()[cs.A].Name
		}
		if cs.After {
			return cl + "|" + cs.Transport + "|after-request|" + c08Subs()[cs.A].Name
		}
		return cl + "|" + cs.Transport + "|" + c08Subs()[cs.A].Name
	case "field2":
		return cl + "|" + cs.Transport + "|" + c08Subs()[cs.A].Name + "+" + c08Subs()[cs.B].Name
	case "extreme":
		return cl + "|" + cs.Transport + "|" + cs.Name
	}
	// byte-level edits: the field the edited offset lies in
	if cs.After {
		return cl + "|" + cs.Transport + "|after-request|" + cs.Kind + "@" + c08FieldAt(cs)
	}
	return cl + "|" + cs.Transport + "|" + cs.Kind + "@" + c08FieldAt(cs)
}

func c08FieldAt(cs c08Case) string {
	raw := c08Corpus()[cs.Corpus].Render()
	at := cs.A
	if at >= len(raw) {
		at = len(raw) - 1
	}
	if at < 0 {
		return "empty"
	}
	ls := bytes.LastIndex(raw[:at+1], []byte("\r\n"))
	if ls < 0 {
		return "start-line"
	}
	body := bytes.Index(raw, []byte("\r\n\r\n"))
	if at >= body+2 {
		return "body"
	}
	line := raw[ls+2:]
	if c := bytes.IndexByte(line, ':'); c > 0 {
		return canonName(string(line[:c]))
	}
	return "header"
}

// c08Soak: ONE long-lived proxy is fed n hostile TCP connections one after the other (the E3 menu,
// cycled; every connection is closed by the peer afterwards if the proxy has not closed it) and a few
// hostile datagrams in between; after every 100 connections a sentinel request over a NEW TCP
// connection and one over UDP must still be relayed.
func c08Soak(c *Ctx, n int) {
	corpus := c08Corpus()
	subs := c08Subs()
	w := StartRelayWorld(SimOpts{}, c08Cfg)
	defer w.Close()
	sentinel := func(k int, tcp bool) bool {
		sent := MsgSpec{Method: "OPTIONS", RURI: "sip:bob@svc.example.com", Vias: []string{fmt.Sprintf("SIP/2.0/UDP 127.0.0.8:5060;branch=z9hG4bKsoak%d%v", k, tcp)}, From: "<sip:s@ua.example.net>;tag=s", To: "<sip:bob@svc.example.com>", CallID: fmt.Sprintf("soak-sentinel-%d-%v", k, tcp), CSeq: "1 OPTIONS", Body: []byte("sentinel-body")}.Build()
		w.Observe()
		if tcp {
			cl, err := w.S.TCPDial("127.0.0.8:0", "127.0.0.1:5062")
			if err != nil {
				return false
			}
			w.S.Run()
			w.SendTCP(cl, sent.Render())
			defer cl.Close()
		} else {
			w.SendUDP("127.0.0.8:5060", "127.0.0.1:5060", sent.Render())
		}
		for _, p := range w.Observe().Pkts {
			if bytes.Contains(p.Data, []byte("Call-ID: soak-sentinel-")) && bytes.HasSuffix(p.Data, []byte("sentinel-body")) {
				return true
			}
		}
		return false
	}
	k := 0
	for i := 0; k < n; i++ {
		if c.Expired() {
			return
		}
		ci, si := i%len(corpus), (i/len(corpus))%len(subs)
		hostile := subs[si].Apply(corpus[ci].Clone())
		if hostile == nil {
			continue
		}
		k++
		cl, err := w.S.TCPDial("127.0.0.9:0", "127.0.0.1:5062")
		if err == nil {
			w.S.Run()
			w.SendTCP(cl, hostile)
			if k%3 == 0 {
				cl.Reset() // some peers vanish without a clean close
			} else {
				cl.Close()
			}
			w.S.Run()
		}
		if k%7 == 0 && len(hostile) < 65000 {
			w.SendUDP("127.0.0.9:5060", "127.0.0.1:5060", hostile)
		}
		w.Observe()
		c.Res.Executions++
		if vd := w.S.Verdict(); vd != "" {
			c.Violate("crash|soak", "crash", fmt.Sprintf("soak run, hostile TCP connection %d (%s on corpus message %d): %s\n%s", k, subs[si].Name, ci, vd, w.S.CrashDetail()), map[string]int{"soak": n})
			return
		}
		if k%100 == 0 || k == n {
			c.Res.Evaluations++
			c.Res.Nontrivial++
			for _, tcp := range []bool{true, false} {
				if !sentinel(k, tcp) {
					c.Violate("stops-serving|soak", "stops-serving", fmt.Sprintf("soak run: after %d hostile TCP connections (each closed again) a well-formed request over %s was no longer relayed to a backend", k, map[bool]string{true: "a new TCP connection", false: "UDP"}[tcp]), map[string]int{"soak": n})
					return
				}
			}
		}
	}
}

// c08Sparse: configurations in which optional keys are omitted (a listens entry without backends, a
// service without routes and hosts): every corpus message unmodified, pings addressed to the
// listener itself and to the service, then a sentinel that is relayed by a Route.
func c08Sparse(c *Ctx) {
	cfgs := []RCfg{
		{Name: "svc.example.com", Listens: []RListen{{Addr: "127.0.0.1", UDP: 5060, TCP: 5062}}},
		{Name: "svc.example.com", Listens: []RListen{{Addr: "127.0.0.1", UDP: 5060}, {Addr: "127.0.0.2", UDP: 5060, Backends: []string{"udp://127.0.1.1:7000"}}}},
	}
	pings := [][]byte{
		MsgSpec{Method: "OPTIONS", RURI: "sip:127.0.0.1:5060", Vias: []string{"SIP/2.0/UDP 127.0.0.9:5060;branch=z9hG4bKping1"}, From: "<sip:mon@ua.example.net>;tag=m", To: "<sip:127.0.0.1:5060>", CallID: "ping1", CSeq: "1 OPTIONS"}.Build().Render(),
		MsgSpec{Method: "OPTIONS", RURI: "sip:svc.example.com", Vias: []string{"SIP/2.0/UDP 127.0.0.9:5060;branch=z9hG4bKping2"}, From: "<sip:mon@ua.example.net>;tag=m", To: "<sip:svc.example.com>", CallID: "ping2", CSeq: "1 OPTIONS"}.Build().Render(),
		MsgSpec{Method: "REGISTER", RURI: "sip:svc.example.com", Vias: []string{"SIP/2.0/UDP 127.0.0.9:5060;branch=z9hG4bKreg"}, From: "<sip:a@svc.example.com>;tag=m", To: "<sip:a@svc.example.com>", CallID: "reg", CSeq: "1 REGISTER"}.Build().Render(),
	}
	for ci, cfg := range cfgs {
		for _, tcp := range []bool{false, true} {
			if tcp && cfg.Listens[0].TCP == 0 {
				continue
			}
			w := StartRelayWorld(SimOpts{}, cfg)
			var inputs [][]byte
			inputs = append(inputs, pings...)
			for _, m := range c08Corpus() {
				inputs = append(inputs, m.Render())
			}
			for i, in := range inputs {
				if tcp {
					w.SendTCP(w.Client(fmt.Sprintf("s%d", i), "127.0.0.9", "127.0.0.1:5062"), in)
				} else {
					w.SendUDP("127.0.0.9:5060", "127.0.0.1:5060", in)
				}
				w.Observe()
				c.Res.Executions++
				if vd := w.S.Verdict(); vd != "" {
					c.Violate(fmt.Sprintf("crash|sparse-config-%d", ci), "crash", fmt.Sprintf("configuration with omitted optional keys (%s), input %s (%v): %s\n%s", strings.ReplaceAll(ConfigYAML(cfg), "\n", " / "), short(in), map[bool]string{true: "tcp", false: "udp"}[tcp], vd, w.S.CrashDetail()), map[string]int{"sparse": 1})
					break
				}
			}
			if w.S.Verdict() == "" {
				sent := MsgSpec{Method: "OPTIONS", RURI: "sip:x@foreign.example.net", Vias: []string{"SIP/2.0/UDP 127.0.0.8:5060;branch=z9hG4bKsps"}, Routes: []string{"<sip:127.0.2.1:5070;lr>"}, From: "<sip:s@ua.example.net>;tag=s", To: "<sip:x@foreign.example.net>", CallID: "sparse-sentinel", CSeq: "1 OPTIONS"}.Build()
				w.SendUDP("127.0.0.8:5060", "127.0.0.1:5060", sent.Render())
				ok := false
				for _, p := range w.Observe().Pkts {
					if p.To == "127.0.2.1:5070" && bytes.Contains(p.Data, []byte("Call-ID: sparse-sentinel")) {
						ok = true
					}
				}
				if !ok {
					c.Violate(fmt.Sprintf("stops-serving|sparse-config-%d", ci), "stops-serving", "configuration with omitted optional keys: after the corpus and the pings a routed sentinel was no longer relayed", map[string]int{"sparse": 1})
				}
			}
			c.Res.Evaluations++
			c.Res.Nontrivial++
			w.Close()
		}
	}
}

func c08Run(c *Ctx) {
	if c.Worker == 5%c.NWorkers && c.Resume == 0 {
		c08Sparse(c)
	}
	if c.Worker == 3%c.NWorkers && c.Resume == 0 {
		n := 700
		if c.Thorough() {
			n = 5000
		}
		c08Soak(c, n)
	}
	corpus := c08Corpus()
	subs := c08Subs()
	var idx int64
	do := func(cs c08Case) {
		idx++
		if !c.Mine(idx) || idx < c.Resume {
			return
		}
		if c.Expired() {
			return
		}
		hostile := c08Bytes(cs)
		if hostile == nil && cs.Kind != "extreme" && !(cs.Kind == "prefix" && cs.A == 0) {
			return
		}
		if c.Resume > 0 && c.SkipSig(strings.SplitN(c08Sig("x", cs, nil), "|", 2)[1]) {
			return
		}
		c.Begin(idx, cs)
		cl, detail := c08Eval(cs, hostile)
		c.Res.Evaluations++
		c.Res.Executions++
		c.Res.Nontrivial++
		if idx%20000 == 1 {
			c.Sample(map[string]any{"case": cs, "bytes": short(hostile)})
		}
		if c.Res.Evaluations%500 == 0 {
			c.Flush()
		}
		c.Outcome(cs.Kind)
		if cl != "" {
			c.Violate(c08Sig(cl, cs, hostile), cl, detail, cs)
		}
	}
	for _, tr := range []string{"udp", "tcp"} {
		// E1: every prefix of every corpus message
		for ci, m := range corpus {
			n := len(m.Render())
			for a := 0; a <= n; a++ {
				do(c08Case{Kind: "prefix", Corpus: ci, Transport: tr, A: a})
				if tr == "tcp" {
					do(c08Case{Kind: "prefix", Corpus: ci, Transport: tr, A: a, After: true})
				}
			}
		}
		// E3: every single field-level hostile substitution
		for ci := range corpus {
			for si := range subs {
				do(c08Case{Kind: "field", Corpus: ci, Transport: tr, A: si})
				do(c08Case{Kind: "field", Corpus: ci, Transport: tr, A: si, NoRecv: true})
				if tr == "tcp" {
					do(c08Case{Kind: "field", Corpus: ci, Transport: tr, A: si, After: true})
				}
			}
		}
		// E4: size extremes
		// (in sorted order: the cases are dealt to the workers by position, and every worker process would
		// iterate the map in an order of its own - some extremes ran twice and others not at all until round 7)
		var names []string
		for name := range c08Extremes() {
			names = append(names, name)
		}
		sort.Strings(names)
		for _, name := range names {
			do(c08Case{Kind: "extreme", Transport: tr, Name: name})
		}
		// E2: every single-byte substitution / insertion / deletion
		e2msgs := []int{0, 3, 9}
		alpha := 6
		if c.Thorough() {
			e2msgs = nil
			for ci := range corpus {
				e2msgs = append(e2msgs, ci)
			}
			alpha = len(c08Alphabet)
		}
		for _, ci := range e2msgs {
			n := len(corpus[ci].Render())
			for a := 0; a < n; a++ {
				for b := 0; b < alpha; b++ {
					do(c08Case{Kind: "sub", Corpus: ci, Transport: tr, A: a, B: b})
					do(c08Case{Kind: "ins", Corpus: ci, Transport: tr, A: a, B: b})
				}
				do(c08Case{Kind: "del", Corpus: ci, Transport: tr, A: a})
			}
		}
		// E3 pairs (thorough): every pair of field-level substitutions on three corpus messages
		if c.Thorough() {
			for _, ci := range []int{0, 3, 9} {
				for a := range subs {
					for b := range subs {
						if a != b {
							do(c08Case{Kind: "field2", Corpus: ci, Transport: tr, A: a, B: b})
						}
					}
				}
			}
		}
	}
}

func init() {
	addCheck(&Check{ID: "C08", Level: "exploration", Journal: true, MemLimit: 6 << 30, StallS: 20,
		Rule:   "complete enumerations over a 12-message corpus (requests of every path, responses, compact forms), each case on a fresh world with backends, static routes, a learned next hop, on UDP and on TCP (TCP also: after a valid request on the same connection, whose response arrives once the hostile bytes have been handled), followed by a sentinel request: (E1) every prefix (cut at every byte); (E2) every single-byte substitution, insertion (6-byte alphabet on 3 messages; thorough: 20-byte alphabet on all) and deletion at every offset; (E3) every field-level hostile substitution from per-field menus (Content-Length, Via sent-by, ports, missing mandatory headers, an extra header line with a hostile NAME (one byte >= 0x80, NUL, empty, blank, 70 000 bytes), From/To/Route/Record-Route URIs, CSeq, Expires, status codes; thorough: every pair); (E4) size extremes up to 64 KiB; (E5) a soak run: one long-lived proxy takes 700 (thorough 5000) hostile TCP connections one after the other, and after every 100 a sentinel over a new TCP connection and over UDP must be relayed; (E6) configurations with omitted optional keys (a listens entry without backends): the corpus, pings addressed to the listener and to the service, a routed sentinel; oracle: no panic in any proxy goroutine, no deadlock/stall, bytes allocated while handling the input <= 1 MiB + 256 x input length, the sentinel is relayed afterwards; workers run under an address-space limit with a write-ahead journal so that an unrecoverable runtime abort is attributed to its input; non-trivial = every case",
		Assume: []string{"the coverage-guided half of the quantifier (arbitrary byte strings) belongs to another family and is replaced by the bounded exhaustive spaces above", "a peer that black-holes a TCP dial is outside what the simulation can decide"},
		Run:    c08Run,
		JournalSig: func(raw json.RawMessage) string {
			var cs c08Case
			json.Unmarshal(raw, &cs)
			return strings.SplitN(c08Sig("x", cs, nil), "|", 2)[1]
		},
		Replay: func(c *Ctx, raw json.RawMessage) string {
			var sk map[string]int
			if json.Unmarshal(raw, &sk) == nil && sk["sparse"] > 0 {
				cc := &Ctx{ID: "C08x", Res: newResult(), vmap: map[string]*Violation{}, Deadline: c.Deadline, NWorkers: 1}
				c08Sparse(cc)
				if len(cc.Res.Violations) > 0 {
					return cc.Res.Violations[0].Clause
				}
				return ""
			}
			if json.Unmarshal(raw, &sk) == nil && sk["soak"] > 0 {
				cc := &Ctx{ID: "C08x", Res: newResult(), vmap: map[string]*Violation{}, Deadline: c.Deadline, NWorkers: 1}
				c08Soak(cc, sk["soak"])
				if len(cc.Res.Violations) > 0 {
					return cc.Res.Violations[0].Clause
				}
				return ""
			}
			var cs c08Case
			json.Unmarshal(raw, &cs)
			cl, _ := c08Eval(cs, c08Bytes(cs))
			return cl
		}})
}
