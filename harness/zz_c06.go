//go:build verif && (c06 || all)

package main

import (
	"encoding/json"
	"fmt"
	"github.com/ochinchina/sipproxy/vrt/vnet"
	"strings"
)

// C06 — the proxy inserts itself correctly: one fresh top Via, Record-Route by policy
// (DESIGN.md §4 C06).

var c06Spec *EnumSpec

var c06ViaPool = []string{"SIP/2.0/UDP 127.0.0.9:5060;branch=z9hG4bKua", "SIP/2.0/TCP up1.example.net:5070;branch=z9hG4bKb;rport=7;received=10.1.1.1",
	"SIP/2.0/UDP 10.2.2.2;ttl=1;branch=z9hG4bKc", "SIP/2.0/TLS up3.example.net;branch=z9hG4bKd;x=%41", "SIP/2.0/UDP 10.4.4.4:1;branch=z9hG4bKe", "SIP/2.0/SCTP 10.5.5.5:5060;branch=z9hG4bKf"}
var c06RRPool = []string{"\"Proxy, East\" <sip:10.8.0.1:5060;lr>", "Up <sip:up2.example.net;lr;transport=tcp>;x=1", "<sip:gw,1@10.8.0.3:5070;lr>", "\"Q N\" <sips:10.8.0.4;lr>"}

func layoutLines(entries []string, mode string) []string {
	if len(entries) == 0 {
		return nil
	}
	switch mode {
	case "separate":
		return entries
	case "pairs":
		var l []string
		for i := 0; i < len(entries); i += 2 {
			if i+1 < len(entries) {
				l = append(l, entries[i]+", "+entries[i+1])
			} else {
				l = append(l, entries[i])
			}
		}
		return l
	case "first-alone":
		if len(entries) == 1 {
			return entries
		}
		return []string{entries[0], strings.Join(entries[1:], ",")}
	}
	return []string{strings.Join(entries, ",")}
}

type c06World struct {
	cfgs []RCfg
}

func c06Cfgs(s *EnumSpec, v []int) []RCfg {
	must := s.Val(v, "mustrr") == "on"
	l0 := RListen{Addr: "127.0.0.1", UDP: 5060, TCP: 5062, Backends: []string{"udp://127.0.1.1:7000"}, MustRR: must}
	switch s.Val(v, "listeners") {
	case "udp-only":
		l0.TCP = 0
	case "tcp-only":
		l0.UDP = 0
	}
	cfg := RCfg{Name: "svc.example.com", Listens: []RListen{l0},
		Routes: []RRoute{{Dests: []string{"static.example.org"}, Protocol: "udp", NextHop: "127.0.3.1:5080"}},
		Hosts:  [][2]string{{"nh.example.net", "127.0.2.1"}}}
	if s.Val(v, "listeners") == "two-entries" {
		cfg.Listens = append(cfg.Listens, RListen{Addr: "127.0.0.2", UDP: 5060, TCP: 5062, Backends: []string{"udp://127.0.1.3:7000"}, MustRR: must})
	}
	return []RCfg{cfg}
}

type c06Listener struct {
	transport, addr string
	port            int
}

func c06Eval(v []int) (string, string, bool) {
	s := c06Spec
	cfgs := c06Cfgs(s, v)
	cfg := cfgs[0]
	path := s.Val(v, "path")
	learned := s.Val(v, "learned")
	arrival := "udp"
	if cfg.Listens[0].UDP == 0 {
		arrival = "tcp"
	}
	hopHost, hopAddr := "127.0.2.1", "127.0.2.1:5070"
	if path == "static" {
		hopHost, hopAddr = "127.0.3.1", "127.0.3.1:5080"
	}
	if learned == "by-via-name" {
		if path != "route" {
			return "", "", false
		}
		hopHost = "nh.example.net"
	}
	w := StartRelayWorld(SimOpts{}, cfgs...)
	defer w.Close()
	// learning history
	var L *c06Listener
	detached := false
	pre := func(srcAddr, viaHost, to, transport string) {
		pm := MsgSpec{Method: "OPTIONS", RURI: "sip:x@foreign.example.net", Vias: []string{"SIP/2.0/" + strings.ToUpper(transport) + " " + viaHost + ";branch=z9hG4bKpre"},
			From: "<sip:nh@nh.example.net>;tag=p", To: "<sip:x@nomatch.example.org>", CallID: "pre", CSeq: "1 OPTIONS"}.Build()
		if detached {
			// the host is listed in a Via line that does not follow the first Via block directly
			pm = &WMsg{Start: pm.Start, Hdrs: []WHdr{{"Via", "SIP/2.0/" + strings.ToUpper(transport) + " 10.77.0.9:5060;branch=z9hG4bKtop"}, {"Max-Forwards", "70"},
				{"From", "<sip:nh@nh.example.net>;tag=p"}, {"Via", "SIP/2.0/UDP 10.77.0.8, SIP/2.0/UDP " + viaHost + ";branch=z9hG4bKlow"}, {"To", "<sip:x@nomatch.example.org>"}, {"Call-ID", "pre"}, {"CSeq", "1 OPTIONS"}, {"Content-Length", "0"}}}
		}
		if transport == "tcp" {
			w.SendTCP(w.Client("pre"+to, strings.Split(srcAddr, ":")[0], to), pm.Render())
		} else {
			w.SendUDP(srcAddr, to, pm.Render())
		}
	}
	l0 := cfg.Listens[0]
	if s.Val(v, "earlier") == "relayed-before-learning" {
		// the same listener already relayed a request to this hop while nothing was known about it
		em := MsgSpec{Method: "OPTIONS", RURI: "sip:bob@foreign.example.net", Vias: []string{"SIP/2.0/" + strings.ToUpper(arrival) + " 127.0.0.9:5060;branch=z9hG4bKearlier"},
			From: "<sip:alice@ua.example.net>;tag=e1", To: "<sip:bob@nomatch.example.org>", CallID: "c06-earlier", CSeq: "1 OPTIONS"}
		if path == "static" {
			em.To = "<sip:bob@static.example.org>"
		} else {
			em.Routes = []string{"<sip:" + hopHost + ":5070;lr>"}
		}
		if arrival == "tcp" {
			w.SendTCP(w.Client("ua", "127.0.0.9", fmt.Sprintf("%s:%d", l0.Addr, l0.TCP)), em.Build().Render())
		} else {
			w.SendUDP("127.0.0.9:5060", fmt.Sprintf("%s:%d", l0.Addr, l0.UDP), em.Build().Render())
		}
		w.Observe()
	}
	first := func(l RListen) (string, string, int) {
		if l.UDP > 0 {
			return "udp", fmt.Sprintf("%s:%d", l.Addr, l.UDP), l.UDP
		}
		return "tcp", fmt.Sprintf("%s:%d", l.Addr, l.TCP), l.TCP
	}
	switch learned {
	case "by-source":
		tr, to, port := first(l0)
		pre(hopAddr, "10.77.0.1:5060", to, tr)
		L = &c06Listener{strings.ToUpper(tr), l0.Addr, port}
	case "by-via", "by-via-name", "by-via-detached":
		detached = learned == "by-via-detached"
		tr, to, port := first(l0)
		pre("127.0.0.7:5060", hopHost, to, tr)
		L = &c06Listener{strings.ToUpper(tr), l0.Addr, port}
	case "by-source-tcp":
		if l0.TCP == 0 {
			return "", "", false
		}
		pre(hopAddr, "10.77.0.1:5060", fmt.Sprintf("%s:%d", l0.Addr, l0.TCP), "tcp")
		L = &c06Listener{"TCP", l0.Addr, l0.TCP}
	case "other-listener":
		if len(cfg.Listens) < 2 {
			return "", "", false
		}
		pre(hopAddr, "10.77.0.1:5060", "127.0.0.2:5060", "udp")
		L = &c06Listener{"UDP", "127.0.0.2", 5060}
	case "relearned":
		// learned through the TCP listener first, then through the UDP listener: the latest wins
		if l0.TCP == 0 || l0.UDP == 0 {
			return "", "", false
		}
		pre(hopAddr, "10.77.0.1:5060", fmt.Sprintf("%s:%d", l0.Addr, l0.TCP), "tcp")
		pre(hopAddr, "10.77.0.1:5060", fmt.Sprintf("%s:%d", l0.Addr, l0.UDP), "udp")
		L = &c06Listener{"UDP", l0.Addr, l0.UDP}
	}
	if path == "backend" && learned != "not" {
		return "", "", false
	}
	// the probe request
	nv := v[s.idx("nvias")]
	nrr := v[s.idx("nrr")]
	vias := layoutLines(c06ViaPool[:nv], s.Val(v, "vialayout"))
	rrs := layoutLines(c06RRPool[:nrr], s.Val(v, "rrlayout"))
	m := &WMsg{Start: "OPTIONS sip:bob@svc.example.com SIP/2.0"}
	if path != "backend" {
		m.Start = "OPTIONS sip:bob@foreign.example.net SIP/2.0"
	}
	add := func(n, val string) { m.Hdrs = append(m.Hdrs, WHdr{n, val}) }
	to := "<sip:bob@nomatch.example.org>"
	if path == "static" {
		to = "<sip:bob@static.example.org>"
	}
	rrAt := s.Val(v, "rrpos")
	order := s.Val(v, "order")
	if rrAt == "first" {
		for _, r := range rrs {
			add("Record-Route", r)
		}
	}
	for _, x := range vias {
		add("Via", x)
	}
	if path == "route" {
		add("Route", "<sip:"+hopHost+":5070;lr>")
	}
	if rrAt == "after-via" {
		for _, r := range rrs {
			add("Record-Route", r)
		}
	}
	if order == "maxfwd-first" {
		add("Max-Forwards", "70")
	}
	add("From", "<sip:alice@ua.example.net>;tag=f1")
	if rrAt == "between" {
		for _, r := range rrs {
			add("Record-Route", r)
		}
	}
	if order == "from-first" {
		add("Max-Forwards", "70")
	}
	add("To", to)
	add("Call-ID", "c06")
	add("CSeq", "1 OPTIONS")
	if rrAt == "last" {
		for _, r := range rrs {
			add("Record-Route", r)
		}
	}
	add("Content-Length", "0")
	w.Observe()
	if arrival == "tcp" {
		w.SendTCP(w.Client("ua", "127.0.0.9", fmt.Sprintf("%s:%d", l0.Addr, l0.TCP)), m.Render())
	} else {
		w.SendUDP("127.0.0.9:5060", fmt.Sprintf("%s:%d", l0.Addr, l0.UDP), m.Render())
	}
	obs := w.Observe()
	desc := func(exp string) string {
		o := "nothing"
		if len(obs.Pkts) > 0 {
			o = short(obs.Pkts[0].Data)
		}
		return fmt.Sprintf("request %s\npath %s, next hop learned: %s, must-record-route=%v\nexpected: %s\nemitted (%s): %s", short(m.Render()), path, learned, cfg.Listens[0].MustRR, exp, obs.Summary(), o)
	}
	if vd := w.S.Verdict(); vd != "" {
		return "health", desc(vd), true
	}
	if len(obs.Pkts) == 0 {
		return "not-relayed", desc("a relayed request"), true
	}
	out, err := ReadWire(obs.Pkts[0].Data)
	if err != nil {
		return "unreadable-emission", desc(err.Error()), true
	}
	inV, _ := m.ViaStack()
	inR, _ := m.NameAddrList("record-route")
	gotV, err1 := out.ViaStack()
	gotR, err2 := out.NameAddrList("record-route")
	if err1 != nil || err2 != nil {
		return "emission-undecodable", desc("decodable Via / Record-Route"), true
	}
	insert := path == "backend" || L != nil
	if !insert {
		if strings.Join(viaStrs(c06Unstamped(gotV)), "|") != strings.Join(viaStrs(c06Unstamped(inV)), "|") {
			return "via-changed-without-learned-listener", desc("Via stack unchanged (next hop not reachable through a learned listener)"), true
		}
		if naList(gotR) != naList(inR) {
			return "record-route-changed-without-learned-listener", desc("Record-Route list unchanged"), true
		}
		return "", "", true
	}
	// acceptable listeners
	var cands []c06Listener
	if path == "backend" {
		if l0.UDP > 0 {
			cands = append(cands, c06Listener{"UDP", l0.Addr, l0.UDP})
		}
		if l0.TCP > 0 {
			cands = append(cands, c06Listener{"TCP", l0.Addr, l0.TCP})
		}
	} else {
		cands = []c06Listener{*L}
	}
	expV := fmt.Sprintf("one new topmost Via naming %v with a fresh z9hG4bK branch above %q", cands, viaStrs(inV))
	if len(gotV) != len(inV)+1 {
		return "via-not-exactly-one-inserted", desc(expV), true
	}
	if strings.Join(viaStrs(c06Unstamped(gotV[1:])), "|") != strings.Join(viaStrs(c06Unstamped(inV)), "|") {
		return "existing-via-altered-or-reordered", desc(expV), true
	}
	top := gotV[0]
	var used *c06Listener
	for i := range cands {
		c := cands[i]
		if top.Proto == "SIP" && top.Ver == "2.0" && top.Transport == c.transport && top.Host == c.addr && top.Port == fmt.Sprint(c.port) {
			used = &cands[i]
		}
	}
	if used == nil {
		return "via-names-wrong-listener", desc(expV), true
	}
	br, ok := findPar(top.Pars, "branch")
	if !ok || !strings.HasPrefix(br.V, "z9hG4bK") || len(br.V) <= len("z9hG4bK") {
		return "branch-without-cookie", desc(expV), true
	}
	for _, e := range inV {
		if b2, ok := findPar(e.Pars, "branch"); ok && b2.V == br.V {
			return "branch-not-fresh", desc(expV), true
		}
	}
	if len(top.Pars) != 1 {
		return "via-extra-parameters", desc(expV), true
	}
	// Record-Route policy
	wantRR := len(inR) > 0 || cfg.Listens[0].MustRR
	if !wantRR {
		if naList(gotR) != naList(inR) {
			return "record-route-added-against-policy", desc("no Record-Route (none present, listener not configured to always record)"), true
		}
		return "", "", true
	}
	expR := fmt.Sprintf("one entry <sip:%s:%d;lr> ahead of %s", used.addr, used.port, naList(inR))
	if len(gotR) != len(inR)+1 {
		return "record-route-not-exactly-one-added", desc(expR), true
	}
	if naList(gotR[1:]) != naList(inR) {
		return "record-route-not-ahead-or-altered", desc(expR), true
	}
	r0 := gotR[0]
	if r0.URI.Scheme != "sip" || r0.URI.User != "" || r0.URI.Host != used.addr || r0.URI.Port != fmt.Sprint(used.port) || len(r0.URI.Pars) != 1 || r0.URI.Pars[0].K != "lr" || r0.URI.Pars[0].HasV || len(r0.Pars) != 0 || !r0.Brackets {
		return "record-route-entry-malformed", desc(expR), true
	}
	return "", "", true
}

// c06Unstamped: the sender's (first) entry without received/rport, which C07 owns.
func c06Unstamped(l []AVia) []AVia {
	out := append([]AVia(nil), l...)
	if len(out) > 0 {
		var ps []Par
		for _, p := range out[0].Pars {
			if p.K != "received" && p.K != "rport" {
				ps = append(ps, p)
			}
		}
		out[0].Pars = ps
	}
	return out
}

// c06Fresh: one world relays n requests; every inserted branch must be new.
func c06Fresh(c *Ctx, n int) {
	cfg := RCfg{Name: "svc.example.com", Listens: []RListen{{Addr: "127.0.0.1", UDP: 5060, Backends: []string{"udp://127.0.1.1:7000"}}}}
	w := StartRelayWorld(SimOpts{}, cfg)
	defer w.Close()
	seen := map[string]int{}
	for i := 0; i < n; i++ {
		if c.Expired() {
			return
		}
		m := MsgSpec{Method: "OPTIONS", RURI: "sip:bob@svc.example.com", Vias: []string{fmt.Sprintf("SIP/2.0/UDP 127.0.0.9:5060;branch=z9hG4bKf%d", i)},
			From: "<sip:alice@ua.example.net>;tag=f1", To: "<sip:bob@svc.example.com>", CallID: fmt.Sprintf("fresh%d", i), CSeq: "1 OPTIONS"}.Build()
		w.Observe()
		w.SendUDP("127.0.0.9:5060", "127.0.0.1:5060", m.Render())
		obs := w.Observe()
		c.Res.Evaluations++
		c.Res.Executions++
		if len(obs.Pkts) != 1 {
			c.Violate("freshness-not-relayed", "not-relayed", fmt.Sprintf("request %d of the freshness run was not relayed once: %s", i, obs.Summary()), map[string]int{"fresh_run": i})
			return
		}
		out, _ := ReadWire(obs.Pkts[0].Data)
		vs, _ := out.ViaStack()
		if len(vs) != 2 {
			continue
		}
		br, _ := findPar(vs[0].Pars, "branch")
		if j, dup := seen[br.V]; dup || !strings.HasPrefix(br.V, "z9hG4bK") {
			c.Violate("branch-repeated", "branch-not-fresh", fmt.Sprintf("request %d got branch %q, already used for request %d", i, br.V, j), map[string]int{"fresh_run": n})
			return
		}
		seen[br.V] = i
	}
	c.Count("distinct_branches_in_freshness_run", int64(len(seen)))
	c.Res.Nontrivial += int64(len(seen))
}

// c06ManyPeers: a long-lived proxy that has seen n distinct peers; a next hop first seen after
// every block of 1000 must still be learned: requests relayed to it get the Via and the Record-Route.
func c06ManyPeers(c *Ctx, n int) {
	cfg := RCfg{Name: "svc.example.com", Listens: []RListen{{Addr: "127.0.0.1", UDP: 5060, Backends: []string{"udp://127.0.1.1:7000"}}}}
	w := StartRelayWorld(SimOpts{}, cfg)
	defer w.Close()
	probe := func(k int) (string, string) {
		hop := fmt.Sprintf("10.200.%d.%d", k/250, k%250+1)
		pm := MsgSpec{Method: "OPTIONS", RURI: "sip:x@foreign.example.net", Vias: []string{"SIP/2.0/UDP " + hop + ":5070;branch=z9hG4bKpre"}, From: "<sip:nh@nh.example.net>;tag=p", To: "<sip:x@nomatch.example.org>", CallID: fmt.Sprintf("pre%d", k), CSeq: "1 OPTIONS"}.Build()
		w.SendUDP(hop+":5070", "127.0.0.1:5060", pm.Render())
		w.Observe()
		m := MsgSpec{Method: "OPTIONS", RURI: "sip:bob@foreign.example.net", Vias: []string{fmt.Sprintf("SIP/2.0/UDP 127.0.0.9:5060;branch=z9hG4bKmp%d", k)}, Routes: []string{"<sip:" + hop + ":5070;lr>"}, RRs: []string{"<sip:10.8.0.1;lr>"},
			From: "<sip:alice@ua.example.net>;tag=f1", To: "<sip:bob@nomatch.example.org>", CallID: fmt.Sprintf("mp%d", k), CSeq: "1 OPTIONS"}.Build()
		w.SendUDP("127.0.0.9:5060", "127.0.0.1:5060", m.Render())
		obs := w.Observe()
		if len(obs.Pkts) != 1 {
			return "not-relayed", fmt.Sprintf("the request routed to the new next hop %s was relayed %d times (%s)", hop, len(obs.Pkts), obs.Summary())
		}
		out, err := ReadWire(obs.Pkts[0].Data)
		if err != nil {
			return "unreadable-emission", err.Error()
		}
		vs, _ := out.ViaStack()
		rr, _ := out.NameAddrList("record-route")
		if len(vs) != 2 || vs[0].Host != "127.0.0.1" || vs[0].Port != "5060" {
			return "via-not-exactly-one-inserted", fmt.Sprintf("next hop %s sent a request through the UDP listener and is then named in a Route: the relayed request carries Via %q (expected the listener's Via on top of the sender's)", hop, viaStrs(vs))
		}
		if len(rr) != 2 || rr[0].URI.Host != "127.0.0.1" {
			return "record-route-not-exactly-one-added", fmt.Sprintf("next hop %s: the relayed request carries Record-Route %s (expected <sip:127.0.0.1:5060;lr> ahead of the existing entry)", hop, naList(rr))
		}
		return "", ""
	}
	for i := 0; i <= n; i++ {
		if c.Expired() {
			return
		}
		if i%1000 == 0 {
			c.Res.Evaluations++
			c.Res.Nontrivial++
			if cl, d := probe(i / 1000); cl != "" {
				c.Violate(cl+"|many-peers", cl, fmt.Sprintf("after requests from %d distinct peers: %s", i, d), map[string]int{"many_peers": i})
				return
			}
		}
		src := fmt.Sprintf("10.%d.%d.%d:5060", 1+i/62500, i/250%250, i%250+1)
		m := MsgSpec{Method: "OPTIONS", RURI: "sip:bob@svc.example.com", Vias: []string{fmt.Sprintf("SIP/2.0/UDP %s;branch=z9hG4bKp%d", src, i)},
			From: "<sip:alice@ua.example.net>;tag=f1", To: "<sip:bob@svc.example.com>", CallID: fmt.Sprintf("peer%d", i), CSeq: "1 OPTIONS"}.Build()
		w.SendUDP(src, "127.0.0.1:5060", m.Render())
		if i%64 == 0 {
			w.Observe()
		}
		c.Res.Executions++
	}
}

// c06ConnChurn: a listens entry with a TCP listener only (or UDP + TCP) and TCP backends. Client
// connections come and go (closed by the peer, after garbage, reset) and backend connections are
// opened and re-opened in between; every request handed to a backend must name the LISTENER in its
// new Via and Record-Route exactly as the first request did (differential: the first request, sent
// before anything happened, is the reference; the product above judges it against the statement).
// variant bits: 1 must-record-route, 2 the entry also has a UDP listener, 4 the visitor sends garbage,
// 8 the caller's own connection is replaced too, 16 the backends' connections are reset by their peers
func c06ConnChurn(c *Ctx, variant int) {
	must, withUDP, garbage, callerToo, beReset := variant&1 != 0, variant&2 != 0, variant&4 != 0, variant&8 != 0, variant&16 != 0
	l := RListen{Addr: "127.0.0.1", TCP: 5062, MustRR: must, Backends: []string{"tcp://127.0.1.1:7000", "tcp://127.0.1.2:7000", "tcp://127.0.1.3:7000"}}
	if withUDP {
		l.UDP = 5060
	}
	w := StartRelayWorld(SimOpts{}, RCfg{Name: "svc.example.com", Listens: []RListen{l}})
	defer w.Close()
	name := fmt.Sprintf("connection-churn(must-record-route=%v, udp listener too=%v, visitor sends garbage=%v, caller reconnects=%v, backend connections reset=%v)", must, withUDP, garbage, callerToo, beReset)
	fail := func(cl, d string) {
		c.Violate(cl+"|connection-churn", cl, name+": "+d, map[string]int{"conn_churn": variant + 1})
	}
	c.Res.Evaluations++
	c.Res.Executions++
	caller := w.Client("ua", "127.0.0.9", "127.0.0.1:5062")
	seq := 0
	type ins struct{ via, rr string }
	send := func() (ins, bool) {
		seq++
		m := MsgSpec{Method: "OPTIONS", RURI: "sip:bob@svc.example.com", Vias: []string{fmt.Sprintf("SIP/2.0/TCP 127.0.0.9:5060;branch=z9hG4bKcc%d", seq)}, From: "<sip:alice@ua.example.net>;tag=f1", To: "<sip:bob@svc.example.com>",
			CallID: fmt.Sprintf("cc-%d", seq), CSeq: "1 OPTIONS"}.Build()
		w.Observe()
		w.SendTCP(caller, m.Render())
		obs := w.Observe()
		if vd := w.S.Verdict(); vd != "" {
			fail("health", vd)
			return ins{}, false
		}
		if len(obs.Pkts) != 1 {
			fail("request-not-relayed-once", fmt.Sprintf("request %d: %s", seq, obs.Summary()))
			return ins{}, false
		}
		out, err := ReadWire(obs.Pkts[0].Data)
		if err != nil {
			fail("unreadable-emission", err.Error())
			return ins{}, false
		}
		vs, _ := out.ViaStack()
		rr, _ := out.NameAddrList("record-route")
		if len(vs) != 2 {
			fail("via-not-exactly-one-inserted", fmt.Sprintf("request %d handed to %s carries Via %q", seq, obs.Pkts[0].To, viaStrs(vs)))
			return ins{}, false
		}
		return ins{via: vs[0].Transport + " " + vs[0].Host + ":" + vs[0].Port, rr: naList(rr)}, true
	}
	ref, ok := send()
	if !ok {
		return
	}
	c.Res.Nontrivial++
	for round := 0; round < 4; round++ {
		// a visitor's connection comes and goes
		if v, err := w.S.TCPDial("127.0.0.7:0", "127.0.0.1:5062"); err == nil {
			w.S.Run()
			if garbage {
				w.SendTCP(v, []byte("GARBAGE that is not SIP\r\n\r\n"))
			} else {
				w.SendTCP(v, []byte("\r\n\r\n"))
			}
			if !v.IsClosed() {
				if round%2 == 0 {
					v.Close()
				} else {
					v.Reset()
				}
			}
			w.S.Run()
		}
		if callerToo && round == 1 {
			caller.Close()
			w.S.Run()
			delete(w.cli, "ua")
			caller = w.Client("ua", "127.0.0.9", "127.0.0.1:5062")
		}
		if beReset && round == 2 {
			w.Observe()
			for _, a := range []string{"127.0.1.1:7000", "127.0.1.2:7000", "127.0.1.3:7000"} {
				for _, bc := range w.acc[a] {
					if !bc.IsClosed() {
						bc.Reset()
					}
				}
			}
			w.S.Run()
		}
		// two requests: the rotation moves on to a backend whose connection is opened (or re-opened) now
		for k := 0; k < 2; k++ {
			got, ok := send()
			if !ok {
				return
			}
			if got.via != ref.via {
				fail("via-names-wrong-listener", fmt.Sprintf("request %d (round %d): the new top Via names %q; the first request, before any connection came or went, was stamped %q", seq, round, got.via, ref.via))
				return
			}
			if got.rr != ref.rr {
				fail("record-route-not-ahead-or-altered", fmt.Sprintf("request %d (round %d): Record-Route %s; the first request was given %s", seq, round, got.rr, ref.rr))
				return
			}
		}
	}
}

// c06PinnedDead: an in-dialog request whose pinned TCP backend has gone away (connection reset,
// further connections refused). Whatever the proxy does with it - drop it or hand it to another
// backend - a request that reaches a backend carries exactly one new Via and one new Record-Route.
func c06PinnedDead(c *Ctx, variant int) {
	must, withRR := variant&1 != 0, variant&2 != 0
	cfg := RCfg{Name: "svc.example.com", Listens: []RListen{{Addr: "127.0.0.1", UDP: 5060, TCP: 5062, MustRR: must, Backends: []string{"tcp://127.0.1.1:7000", "tcp://127.0.1.2:7000", "udp://127.0.1.3:7000"}}}}
	w := StartRelayWorld(SimOpts{}, cfg)
	defer w.Close()
	name := fmt.Sprintf("pinned-backend-gone(must-record-route=%v, request carries Record-Route=%v)", must, withRR)
	fail := func(cl, d string) {
		c.Violate(cl+"|pinned-backend-gone", cl, name+": "+d, map[string]int{"pinned_dead": variant + 1})
	}
	c.Res.Evaluations++
	c.Res.Executions++
	inv := MsgSpec{Method: "INVITE", RURI: "sip:bob@svc.example.com", Vias: []string{"SIP/2.0/UDP 127.0.0.9:5060;branch=z9hG4bKpd1"}, From: "<sip:alice@ua.example.net>;tag=f1", To: "<sip:bob@svc.example.com>", CallID: "pd", CSeq: "1 INVITE"}.Build()
	w.SendUDP("127.0.0.9:5060", "127.0.0.1:5060", inv.Render())
	obs := w.Observe()
	if len(obs.Pkts) != 1 || obs.Pkts[0].Proto != "tcp" {
		return // the first dispatch did not go to a TCP backend: scenario not constructible
	}
	be := obs.Pkts[0].To
	rel, _ := ReadWire(obs.Pkts[0].Data)
	acc := w.acc[be]
	if rel == nil || len(acc) == 0 {
		return
	}
	w.SendTCP(acc[len(acc)-1], ResponseTo(rel, 200, "t1").Render())
	w.Observe()
	// the backend goes away
	acc[len(acc)-1].Reset()
	vnet.SetDialRule(be, -1, 0)
	w.S.Run()
	w.Observe()
	var rrs []string
	if withRR {
		rrs = []string{"<sip:10.8.0.1;lr>"}
	}
	bye := MsgSpec{Method: "BYE", RURI: "sip:bob@svc.example.com", Vias: []string{"SIP/2.0/UDP 127.0.0.9:5060;branch=z9hG4bKpd2"}, RRs: rrs, From: "<sip:alice@ua.example.net>;tag=f1", To: "<sip:bob@svc.example.com>;tag=t1", CallID: "pd", CSeq: "2 BYE"}.Build()
	w.SendUDP("127.0.0.9:5060", "127.0.0.1:5060", bye.Render())
	obs = w.Observe()
	if vd := w.S.Verdict(); vd != "" {
		fail("health", vd)
		return
	}
	for _, p := range obs.Pkts {
		out, err := ReadWire(p.Data)
		if err != nil {
			continue // a fragment on a broken connection: C20's territory
		}
		c.Res.Nontrivial++
		vs, _ := out.ViaStack()
		rr, _ := out.NameAddrList("record-route")
		if len(vs) != 2 {
			fail("via-not-exactly-one-inserted", fmt.Sprintf("the BYE handed to %s carries Via %q (expected one new entry above the sender's)", p.To, viaStrs(vs)))
			return
		}
		want := len(rrs)
		if must || withRR {
			want++
		}
		if len(rr) != want {
			fail("record-route-not-exactly-one-added", fmt.Sprintf("the BYE handed to %s carries Record-Route %s (expected %d entries)", p.To, naList(rr), want))
			return
		}
	}
}

func init() {
	c06Spec = &EnumSpec{Feats: []Feat{
		{Name: "path", Vals: []string{"backend", "route", "static"}},
		{Name: "learned", Vals: []string{"not", "by-source", "by-via", "by-via-name", "by-source-tcp", "other-listener", "relearned", "by-via-detached"}},
		{Name: "earlier", Vals: []string{"none", "relayed-before-learning"}},
		{Name: "mustrr", Vals: []string{"off", "on"}},
		{Name: "listeners", Vals: []string{"udp+tcp", "two-entries", "udp-only", "tcp-only"}},
		{Name: "nvias", Vals: []string{"0", "1", "2", "3", "4", "5", "6"}, Quick: 5},
		{Name: "vialayout", Vals: []string{"one-line", "separate", "pairs", "first-alone"}},
		{Name: "nrr", Vals: []string{"0", "1", "2", "3", "4"}, Quick: 4},
		{Name: "rrlayout", Vals: []string{"one-line", "separate", "pairs", "first-alone"}, Quick: 2},
		{Name: "rrpos", Vals: []string{"after-via", "first", "between", "last"}},
		{Name: "order", Vals: []string{"maxfwd-first", "from-first", "no-maxfwd"}},
	}, Eval: c06Eval, Sample: 20000}
	s := c06Spec
	s.Valid = func(v []int) bool {
		nv, nrr := v[s.idx("nvias")], v[s.idx("nrr")]
		if nv < 2 && v[s.idx("vialayout")] != 0 {
			return false
		}
		if nv == 2 && s.Val(v, "vialayout") != "one-line" && s.Val(v, "vialayout") != "separate" {
			return false
		}
		if nrr < 2 && v[s.idx("rrlayout")] != 0 {
			return false
		}
		if nrr == 0 && v[s.idx("rrpos")] != 0 {
			// the position feature also decides where a NEW Record-Route lands; keep it only with order variants
		}
		if s.Val(v, "path") == "backend" && v[s.idx("learned")] != 0 {
			return false
		}
		if v[s.idx("earlier")] != 0 && (s.Val(v, "path") == "backend" || v[s.idx("learned")] == 0) {
			return false
		}
		if s.Val(v, "learned") == "by-via-name" && s.Val(v, "path") != "route" {
			return false
		}
		if s.Val(v, "learned") == "other-listener" && s.Val(v, "listeners") != "two-entries" {
			return false
		}
		if (s.Val(v, "learned") == "by-source-tcp" || s.Val(v, "learned") == "relearned") && (s.Val(v, "listeners") == "udp-only" || s.Val(v, "listeners") == "tcp-only") {
			return false
		}
		return true
	}
	s.Reduce = func(v []int) bool {
		// a request without any Via is crossed with the default listener set only
		return v[s.idx("nvias")] == 0 && s.Val(v, "listeners") != "udp+tcp"
	}
	addCheck(&Check{Flows: []flowOracle{flowViaRR}, ID: "C06", Level: "exploration",
		Rule:   "connection churn on a TCP listener with TCP backends (32 variants: visitors, garbage, caller reconnecting, backend connections reset) judged against the first request; complete product: relaying path x how the next hop was learned (not / earlier request from it / listed in an earlier Via by address or by name or in a Via line detached from the first Via block / through the TCP listener / through the other listens entry / re-learned) x {fresh, the same listener already relayed a request to that hop before it was learned} x must-record-route x listener set x 0-4 (thorough 0-6) existing Via entries in 4 layouts x 0-3 (thorough 0-4) Record-Route entries in layouts x position of Record-Route among the other headers x From/Max-Forwards order; each on a fresh world with the learning history replayed first; plus a freshness run relaying 20000 requests through one world; plus a run with requests from 6000 (thorough 40000) distinct peers in which a next hop first seen after every 1000 peers must still be learned; plus an in-dialog request whose pinned TCP backend has gone away (reset, refusing) under 4 Record-Route settings; non-trivial = the request was relayed",
		Assume: []string{"two-listener worlds give both entries the same must-record-route setting (the statement does not say whose setting counts)", "next hop named as it was learned (address literal or the same host name): equivalence of names and addresses for learning is not prescribed"},
		Run: func(c *Ctx) {
			c06Spec.Run(c)
			if c.Worker == c.NWorkers-1 {
				n := 20000
				c06Fresh(c, n)
			}
			if c.Worker == (c.NWorkers-2+c.NWorkers)%c.NWorkers {
				n := 6000
				if c.Thorough() {
					n = 40000
				}
				c06ManyPeers(c, n)
			}
			for variant := 0; variant < 4; variant++ {
				if c.Worker == variant%c.NWorkers {
					c06PinnedDead(c, variant)
				}
			}
			for variant := 0; variant < 32; variant++ {
				if c.Worker == (variant+4)%c.NWorkers {
					c06ConnChurn(c, variant)
				}
			}
		},
		Replay: func(c *Ctx, raw json.RawMessage) string {
			var fr map[string]int
			if json.Unmarshal(raw, &fr) == nil && (fr["many_peers"] > 0 || fr["pinned_dead"] > 0 || fr["conn_churn"] > 0) {
				cc := &Ctx{Res: newResult(), vmap: map[string]*Violation{}, Deadline: c.Deadline, NWorkers: 1}
				if fr["many_peers"] > 0 {
					c06ManyPeers(cc, fr["many_peers"])
				} else if fr["conn_churn"] > 0 {
					c06ConnChurn(cc, fr["conn_churn"]-1)
				} else {
					c06PinnedDead(cc, fr["pinned_dead"]-1)
				}
				if len(cc.Res.Violations) > 0 {
					return cc.Res.Violations[0].Clause
				}
				return ""
			}
			if json.Unmarshal(raw, &fr) == nil && fr["fresh_run"] > 0 {
				cc := &Ctx{Res: newResult(), vmap: map[string]*Violation{}, Deadline: c.Deadline, NWorkers: 1}
				c06Fresh(cc, fr["fresh_run"])
				if len(cc.Res.Violations) > 0 {
					return cc.Res.Violations[0].Clause
				}
				return ""
			}
			return c06Spec.Replay(raw)
		},
	})
}
