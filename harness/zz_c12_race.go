//go:build verif && (c12 || all)

package main

import (
	"bytes"
	"fmt"

	"github.com/ochinchina/sipproxy/vrt"
)

// C12 race tier: the per-connection receive goroutines and the loop under every schedule within
// the deviation bound: two connections from 127.0.0.1 announcing the same sent-by, each sending
// one request at once; reactive UDP backends answer with 180 and 200.

func c12SchedExec(received string, prefix []int) SchedResult {
	cfg := RCfg{Name: "svc.example.com", Listens: []RListen{{Addr: "127.0.0.1", UDP: 5060, TCP: 5062, Backends: []string{"udp://127.0.1.1:7000", "udp://127.0.1.2:7000"}}}}
	if received == "off" {
		cfg.Listens[0].NoReceived = "true"
	}
	s := StartSim(ConfigYAML(cfg), SimOpts{})
	defer s.Close()
	for _, a := range []string{"127.0.1.1:7000", "127.0.1.2:7000"} {
		c12Backend(a)
	}
	c0, _ := s.TCPDial("127.0.0.1:0", "127.0.0.1:5062")
	c1, _ := s.TCPDial("127.0.0.1:0", "127.0.0.1:5062")
	s.Run()
	s.EmittedAll()
	s.W.SetExplore(vrt.KSched|vrt.KSelect, prefix)
	for k, c := range []interface{ Write([]byte) (int, error) }{c0, c1} {
		m := MsgSpec{Method: "INVITE", RURI: "sip:bob@svc.example.com", Vias: []string{fmt.Sprintf("SIP/2.0/TCP 127.0.0.1:6000;branch=z9hG4bKk%d;rport", k)}, From: fmt.Sprintf("<sip:u%d@ua.example.net>;tag=f%d", k, k), To: "<sip:bob@svc.example.com>",
			CallID: fmt.Sprintf("c12r-%d", k), CSeq: "1 INVITE"}.Build()
		c.Write(m.Render())
	}
	s.Run()
	res := SchedResult{Trace: s.W.TraceCopy()}
	if vd := s.Verdict(); vd != "" {
		res.Clause, res.Detail = "health", vd+"\n"+s.CrashDetail()
		return res
	}
	want := []int{c0.Peer().ID(), c1.Peer().ID()}
	count := []int{0, 0}
	for _, p := range s.EmittedAll() {
		if p.Proto == "dial" {
			res.Clause, res.Detail = "new-connection-dialled", "the proxy dialled "+p.To
			return res
		}
		if !bytes.HasPrefix(p.Data, []byte("SIP/2.0")) {
			continue
		}
		for k := 0; k < 2; k++ {
			if bytes.Contains(p.Data, []byte(fmt.Sprintf("Call-ID: c12r-%d\r\n", k))) {
				final := bytes.HasPrefix(p.Data, []byte("SIP/2.0 200"))
				if p.Proto != "tcp" || p.Conn != want[k] {
					res.Clause, res.Detail = "response-on-wrong-connection", fmt.Sprintf("a response of connection %d's transaction was written on %s conn #%d (final=%v)", k, p.Proto, p.Conn, final)
					return res
				}
				count[k]++
			}
		}
	}
	if count[0] != 2 || count[1] != 2 {
		res.Clause, res.Detail = "response-missing", fmt.Sprintf("each client expects 180 and 200; got %v", count)
		return res
	}
	res.Outcome = "ok"
	return res
}

func c12Backend(addr string) {
	c09UDPBackendCodes(addr, []int{180, 200})
}

func c12RaceRun(c *Ctx) {
	b := 2
	if c.Thorough() {
		b = 3
	}
	ExploreSchedules(c, "received-on", b, func(p []int) SchedResult { return c12SchedExec("on", p) })
	ExploreSchedules(c, "received-off", b, func(p []int) SchedResult { return c12SchedExec("off", p) })
}

func init() {
	raceRuns["C12"] = c12RaceRun
	schedReplays["C12"] = func(cs SchedCase) string {
		if cs.Scenario == "received-off" {
			return c12SchedExec("off", cs.Choices).Clause
		}
		return c12SchedExec("on", cs.Choices).Clause
	}
}
