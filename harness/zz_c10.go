//go:build verif && (c10 || all)

package main

import (
	"bytes"
	"encoding/json"
	"fmt"
	"regexp"
	"strings"
)

// C10 — a UDP datagram is processed in isolation from every other datagram (DESIGN.md §4 C10).

var c10Shapes = []string{"small", "large", "body", "overdeclared", "underdeclared", "cut-startline", "cut-header", "cut-blankline", "cut-body", "blanks", "two-in-one", "overdeclared-big",
	"empty", "crlf-body", "crlf-overdeclared", "crlf-cut-blankline", "const-branch"}

// c10Datagram: the bytes of shape sh at position i (the Call-ID carries i and the shape).
func c10Datagram(sh string, i int) []byte {
	mk := func(body []byte, tag string) *WMsg {
		return MsgSpec{Method: "MESSAGE", RURI: "sip:bob@svc.example.com", Vias: []string{fmt.Sprintf("SIP/2.0/UDP 127.0.0.9:5060;branch=z9hG4bKd%d", i)},
			From: "<sip:alice@ua.example.net>;tag=f1", To: "<sip:bob@svc.example.com>", CallID: fmt.Sprintf("c10-%d-%s%s", i, sh, tag), CSeq: "1 MESSAGE",
			Extra: []WHdr{{"X-Marker", fmt.Sprintf("marker-%d-%s", i, sh)}}, Body: body}.Build()
	}
	fill := func(n int, word string) []byte {
		return bytes.Repeat([]byte(fmt.Sprintf("%s-%d|", word, i)), n/len(word)+1)[:n]
	}
	setCL := func(m *WMsg, n int) {
		for k := range m.Hdrs {
			if m.Hdrs[k].Name == "Content-Length" {
				m.Hdrs[k].Value = fmt.Sprint(n)
			}
		}
	}
	if strings.HasPrefix(sh, "sized-") {
		// a well-formed message whose datagram is exactly n bytes long: most of it body, the rest a padding header
		var n int
		fmt.Sscanf(sh, "sized-%d", &n)
		m := mk(nil, "")
		m.Hdrs = append(m.Hdrs[:len(m.Hdrs)-1], WHdr{"X-Pad", ""}, m.Hdrs[len(m.Hdrs)-1])
		base := len(m.Render())
		l := n - base - 40
		if l < 0 {
			l = 0
		}
		m = mk(fill(l, "SIZED"), "")
		m.Hdrs = append(m.Hdrs[:len(m.Hdrs)-1], WHdr{"X-Pad", ""}, m.Hdrs[len(m.Hdrs)-1])
		if pad := n - len(m.Render()); pad >= 0 {
			m.Hdrs[len(m.Hdrs)-2].Value = strings.Repeat("p", pad)
			if b := m.Render(); len(b) == n {
				return b
			}
		}
		panic("harness: no datagram of " + sh)
	}
	switch sh {
	case "const-branch":
		// a sender that uses one and the same branch for every request (RFC 2543 style, or a re-sent request with
		// credentials): method, sent-by and branch equal an earlier datagram's, Call-ID, marker and body do not
		m := mk(fill(120, "CONSTBRANCH"), "")
		for k := range m.Hdrs {
			if m.Hdrs[k].Name == "Via" {
				m.Hdrs[k].Value = "SIP/2.0/UDP 127.0.0.9:5060;branch=z9hG4bKconstant"
			}
		}
		return m.Render()
	case "small":
		return mk(nil, "").Render()
	case "large":
		return mk(fill(60*1024, "LARGE-FILLER"), "").Render()
	case "body":
		return mk(fill(300, "BODY"), "").Render()
	case "overdeclared":
		m := mk(fill(40, "OVER"), "")
		setCL(m, 90)
		return m.Render()
	case "overdeclared-big":
		m := mk(fill(40, "OVERBIG"), "")
		setCL(m, 30000)
		return m.Render()
	case "underdeclared":
		m := mk(fill(60, "UNDER"), "")
		setCL(m, 50)
		return m.Render()
	case "cut-startline":
		return mk(nil, "").Render()[:10]
	case "cut-header":
		return mk(fill(20, "CUTH"), "").Render()[:120]
	case "cut-blankline":
		b := mk(nil, "").Render()
		return b[:len(b)-2]
	case "cut-body":
		m := mk(fill(300, "CUTBODY"), "")
		b := m.Render()
		return b[:len(b)-200]
	case "blanks":
		return []byte("\r\n\r\n  \r\n")
	case "empty":
		return []byte{}
	case "crlf-body":
		// leading CRLFs in front of a complete message
		return append([]byte("\r\n\r\n"), mk(fill(300, "CRLFBODY"), "").Render()...)
	case "crlf-overdeclared":
		// leading CRLFs in front of a message that declares 3 body bytes more than it carries
		m := mk(fill(40, "CRLFOVER"), "")
		setCL(m, 43)
		return append([]byte("\r\n\r\n"), m.Render()...)
	case "crlf-cut-blankline":
		b := mk(nil, "").Render()
		return append([]byte("\r\n\r\n"), b[:len(b)-2]...)
	case "two-in-one":
		return append(mk(fill(10, "FIRST"), "").Render(), mk(fill(10, "SECOND"), "-second").Render()...)
	}
	panic("unknown shape " + sh)
}

// shapes the statement singles out: must be discarded rather than completed from elsewhere
var c10MustDiscard = map[string]bool{"overdeclared": true, "overdeclared-big": true, "cut-startline": true, "cut-header": true, "cut-blankline": true, "cut-body": true,
	"crlf-overdeclared": true, "crlf-cut-blankline": true}

// the branch of the topmost Via is the proxy's own and fresh per relay (whatever its length or alphabet)
var c10Branch = regexp.MustCompile(`branch=z9hG4bK[^;,\s]*`)

func c10Mask(b []byte) string {
	loc := c10Branch.FindIndex(b)
	if loc == nil {
		return string(b)
	}
	return string(b[:loc[0]]) + "branch=*" + string(b[loc[1]:])
}

var c10Cfg = RCfg{Name: "svc.example.com", Listens: []RListen{{Addr: "127.0.0.1", UDP: 5060, Backends: []string{"udp://127.0.1.1:7000"}}}}

// two listens entries with a UDP listener each: odd positions go to the second one
var c10Cfg2 = RCfg{Name: "svc.example.com", Listens: []RListen{{Addr: "127.0.0.1", UDP: 5060, Backends: []string{"udp://127.0.1.1:7000"}}, {Addr: "127.0.0.2", UDP: 5060, Backends: []string{"udp://127.0.1.3:7000"}}}}

func c10Lst(two bool, i int) string {
	if two && i%2 == 1 {
		return "127.0.0.2:5060"
	}
	return "127.0.0.1:5060"
}

type c10Case struct {
	Seq        []string `json:"sequence"`
	BackToBack bool     `json:"back_to_back"`
	Sources    int      `json:"sources"`
	FirstAlone bool     `json:"first_alone,omitempty"` // the first datagram is handled to quiescence, the rest arrive as one burst
}

// c10Exec delivers the sequence and returns, per position, the masked emissions attributed to
// that datagram (by the Call-ID / marker it carries), plus emissions that cannot be attributed.
func c10Exec(cs c10Case) (map[int][]string, []string, string) {
	w := StartRelayWorld(SimOpts{}, c10Cfg)
	defer w.Close()
	w.Observe()
	for i, sh := range cs.Seq {
		src := "127.0.0.9:5060"
		if cs.Sources > 1 && i%2 == 1 {
			src = "127.0.0.8:5060"
		}
		if cs.BackToBack && !(cs.FirstAlone && i == 0) {
			w.udp[src].Send("127.0.0.1:5060", c10Datagram(sh, i))
		} else {
			w.SendUDP(src, "127.0.0.1:5060", c10Datagram(sh, i))
		}
	}
	w.S.Run()
	obs := w.Observe()
	per := map[int][]string{}
	var stray []string
	for _, p := range obs.Pkts {
		owner := -1
		for i, sh := range cs.Seq {
			if bytes.Contains(p.Data, []byte(fmt.Sprintf("Call-ID: c10-%d-%s", i, sh))) {
				owner = i
			}
		}
		if owner < 0 {
			stray = append(stray, c10Mask(p.Data))
		} else {
			per[owner] = append(per[owner], p.To+" "+c10Mask(p.Data))
		}
	}
	return per, stray, w.S.Verdict()
}

var c10Alone = map[string][]string{}

func c10AloneRef(sh string, i int, src string) []string { return c10AloneRefAt(sh, i, src, false) }

func c10AloneRefAt(sh string, i int, src string, two bool) []string {
	if two {
		key := fmt.Sprintf("2L/%s/%d/%s", sh, i, src)
		if r, ok := c10Alone[key]; ok {
			return r
		}
		w := StartRelayWorld(SimOpts{}, c10Cfg2)
		w.Observe()
		w.SendUDP(src, c10Lst(true, i), c10Datagram(sh, i))
		var r []string
		for _, p := range w.Observe().Pkts {
			r = append(r, p.To+" "+c10Mask(p.Data))
		}
		w.Close()
		c10Alone[key] = r
		return r
	}
	key := fmt.Sprintf("%s/%d/%s", sh, i, src)
	if r, ok := c10Alone[key]; ok {
		return r
	}
	// alone, at the same position index (so the bytes are identical), preceded by nothing
	seq := make([]string, i+1)
	// positions before i are filled with nothing: deliver only datagram i
	w := StartRelayWorld(SimOpts{}, c10Cfg)
	w.Observe()
	w.SendUDP(src, "127.0.0.1:5060", c10Datagram(sh, i))
	var r []string
	for _, p := range w.Observe().Pkts {
		r = append(r, p.To+" "+c10Mask(p.Data))
	}
	w.Close()
	_ = seq
	c10Alone[key] = r
	return r
}

func c10Eval(cs c10Case) (string, string) {
	per, stray, vd := c10Exec(cs)
	if vd != "" {
		return "health", vd
	}
	if len(stray) > 0 {
		return "unattributable-emission", fmt.Sprintf("an emission carries no datagram's identifiers: %s", short([]byte(stray[0])))
	}
	for i, sh := range cs.Seq {
		got := per[i]
		if c10MustDiscard[sh] && len(got) > 0 {
			return "incomplete-datagram-relayed", fmt.Sprintf("datagram %d (%s, %d bytes: declared body longer than the payload or header section incomplete) was relayed: %s\ndatagram: %s", i, sh, len(c10Datagram(sh, i)), short([]byte(got[0])), short(c10Datagram(sh, i)))
		}
		src := "127.0.0.9:5060"
		if cs.Sources > 1 && i%2 == 1 {
			src = "127.0.0.8:5060"
		}
		want := c10AloneRef(sh, i, src)
		if strings.Join(got, "\x00") != strings.Join(want, "\x00") {
			g, w0 := "nothing", "nothing"
			if len(got) > 0 {
				g = short([]byte(got[0]))
			}
			if len(want) > 0 {
				w0 = short([]byte(want[0]))
			}
			at := 0
			if len(got) != len(want) && len(want) > 0 && len(got) > len(want) {
				return "depends-on-other-datagrams", fmt.Sprintf("datagram %d (%s) is relayed once when it arrives alone, but inside the sequence %d emissions carry its identifiers (a later datagram was completed from its bytes); extra emission: %s", i, sh, len(got), short([]byte(got[len(got)-1])))
			}
			if len(got) > 0 && len(want) > 0 {
				at = firstDiffStr(got[0], want[0])
				g = fmt.Sprintf("(%d bytes) ...%q", len(got[0]), clip(got[0], at))
				w0 = fmt.Sprintf("(%d bytes) ...%q", len(want[0]), clip(want[0], at))
			}
			return "depends-on-other-datagrams", fmt.Sprintf("datagram %d (%s) relayed differently inside the sequence than alone (first difference at byte %d):\nin sequence: %s\nalone:       %s", i, sh, at, g, w0)
		}
	}
	return "", ""
}

func c10Run(c *Ctx) {
	maxLen := 3
	if c.Thorough() {
		maxLen = 4
	}
	var idx int64
	var rec func(cur []string)
	rec = func(cur []string) {
		if len(cur) > 0 {
			for _, b2b := range []bool{false, true} {
				for _, nsrc := range []int{1, 2} {
					if nsrc == 2 && len(cur) < 2 {
						continue
					}
					idx++
					if !c.Mine(idx) || c.Expired() {
						continue
					}
					cs := c10Case{Seq: append([]string(nil), cur...), BackToBack: b2b, Sources: nsrc}
					cl, detail := c10Eval(cs)
					c.Res.Evaluations++
					c.Res.Executions++
					c.Res.States++ // one history
					c.Res.Transitions += int64(len(cur))
					if len(cur) > 1 {
						c.Res.Nontrivial++
					}
					if idx%3000 == 1 {
						c.Sample(cs)
					}
					if cl != "" {
						// minimise: drop datagrams while the same clause fails
						min := cs
						for k := 0; k < len(min.Seq); {
							t := c10Case{Seq: append(append([]string(nil), min.Seq[:k]...), min.Seq[k+1:]...), BackToBack: min.BackToBack, Sources: min.Sources}
							if len(t.Seq) > 0 {
								if cl2, _ := c10Eval(t); cl2 == cl {
									min = t
									continue
								}
							}
							k++
						}
						_, d2 := c10Eval(min)
						if d2 == "" {
							d2 = detail
						}
						c.Violate(cl+"|"+strings.Join(min.Seq, ">"), cl, fmt.Sprintf("sequence %v (back-to-back=%v, sources=%d):\n%s", min.Seq, min.BackToBack, min.Sources, d2), min)
					}
				}
			}
		}
		if len(cur) == maxLen {
			return
		}
		for _, sh := range c10Shapes {
			rec(append(cur, sh))
		}
	}
	rec(nil)
	c10SizeSweep(c, &idx)
	// one datagram handled to quiescence (its buffer goes back to the pool), then a burst of three
	// that queue up behind the parse goroutine
	first := c10Shapes
	burst := []string{"small", "body", "overdeclared", "large"}
	if c.Thorough() {
		burst = c10Shapes
	}
	for _, f := range first {
		for _, a := range burst {
			for _, b := range burst {
				for _, d := range burst {
					idx++
					if !c.Mine(idx) || c.Expired() {
						continue
					}
					cs := c10Case{Seq: []string{f, a, b, d}, BackToBack: true, Sources: 1, FirstAlone: true}
					cl, detail := c10Eval(cs)
					c.Res.Evaluations++
					c.Res.Executions++
					c.Res.States++
					c.Res.Transitions += 4
					c.Res.Nontrivial++
					if cl != "" {
						c.Violate(cl+"|first-alone|"+strings.Join(cs.Seq, ">"), cl, fmt.Sprintf("sequence %v (first datagram handled to quiescence, then a burst):\n%s", cs.Seq, detail), cs)
					}
				}
			}
		}
	}
}

// c10Sizes: datagram lengths around every power of two (and the Ethernet MTU) up to the UDP maximum;
// thorough: additionally every length from the smallest possible message up to 4200 bytes.
func c10Sizes(thorough bool) []int {
	var out []int
	seen := map[int]bool{}
	add := func(n int) {
		if n >= 400 && n <= 65507 && !seen[n] {
			seen[n] = true
			out = append(out, n)
		}
	}
	for p := 512; p <= 65536; p *= 2 {
		add(p - 1)
		add(p)
		add(p + 1)
	}
	for _, n := range []int{1471, 1472, 1473, 1499, 1500, 1501, 65506, 65507} {
		add(n)
	}
	if thorough {
		for n := 400; n <= 4200; n++ {
			add(n)
		}
	}
	return out
}

func c10SizeSweep(c *Ctx, idx *int64) {
	for _, n := range c10Sizes(c.Thorough()) {
		z := fmt.Sprintf("sized-%d", n)
		cases := []c10Case{
			{Seq: []string{z, "small"}, BackToBack: true, Sources: 1},
			{Seq: []string{z, "overdeclared"}, BackToBack: true, Sources: 1},
			{Seq: []string{z, "body"}, BackToBack: true, Sources: 2},
			{Seq: []string{"small", z}, BackToBack: true, Sources: 1},
			{Seq: []string{"overdeclared-big", z}, BackToBack: true, Sources: 1},
			{Seq: []string{z, z}, BackToBack: true, Sources: 1},
			{Seq: []string{z, "overdeclared-big"}, BackToBack: false, Sources: 1},
			{Seq: []string{"small", z, "overdeclared", "body"}, BackToBack: true, Sources: 1, FirstAlone: true},
			{Seq: []string{z, "small", z, "overdeclared"}, BackToBack: true, Sources: 1, FirstAlone: true},
		}
		for _, cs := range cases {
			*idx++
			if !c.Mine(*idx) || c.Expired() {
				continue
			}
			cl, detail := c10Eval(cs)
			c.Res.Evaluations++
			c.Res.Executions++
			c.Res.States++
			c.Res.Transitions += int64(len(cs.Seq))
			c.Res.Nontrivial++
			if cl != "" {
				c.Violate(cl+"|size-boundary|"+z, cl, fmt.Sprintf("sequence %v (back-to-back=%v, sources=%d, first alone=%v):\n%s", cs.Seq, cs.BackToBack, cs.Sources, cs.FirstAlone, detail), cs)
			}
		}
	}
}

func init() {
	addCheck(&Check{Flows: []flowOracle{flowTransparent}, ID: "C10", Level: "model_checking",
		Rule: "all sequences of length 1-3 (thorough 1-4) over a 17-shape datagram alphabet (a message whose branch is the same at every position, empty datagram, leading CRLFs in front of a complete / an over-declared / a cut message, small, 60 KiB with distinctive filler, with body, declared length larger / much larger / smaller than the payload, cut inside start line / header / blank line / body, blanks only, two messages in one datagram), delivered with quiescence in between (the LIFO pool recycles the dirty buffer) and back-to-back, from one and from two sources, plus {any datagram handled to quiescence, then a burst of three}, plus a size sweep (well-formed datagrams of exactly n bytes for n around every power of two and the MTU up to 65507 - thorough: also every n in 400..4200 - each in nine burst patterns with small / over-declared / equal-sized neighbours); differential oracle: what is relayed for a datagram inside the sequence equals byte for byte (fresh branch masked) what a fresh world relays for it alone, and incomplete / over-declared datagrams are never relayed; schedule exploration of the receive / parse / loop goroutines under the race detector, for one UDP listener and for two listens entries receiving at the same time: see the race tier; non-trivial = sequence of at least two datagrams",
		Run:  c10Run,
		Replay: func(c *Ctx, raw json.RawMessage) string {
			var cs c10Case
			json.Unmarshal(raw, &cs)
			cl, _ := c10Eval(cs)
			return cl
		}})
}
