//go:build verif

package main

// Independent SIP reader and abstract message values (DESIGN.md §2.6). Written from RFC 3261
// for exactly the generators' domain; shares no code with the repository under test.

import (
	"bytes"
	"fmt"
	"strconv"
	"strings"
)

type WHdr struct{ Name, Value string }

// WMsg is a message as it appears on the wire: start line, ordered fields, body.
type WMsg struct {
	Start string
	Hdrs  []WHdr
	Body  []byte
}

func isBlank(b byte) bool { return b == ' ' || b == '\t' }

func trimBlanks(s string) string {
	i, j := 0, len(s)
	for i < j && isBlank(s[i]) {
		i++
	}
	for j > i && isBlank(s[j-1]) {
		j--
	}
	return s[i:j]
}

// ReadWire splits the bytes of exactly one message (CRLF line ends; body = everything after the
// empty line). It does not interpret Content-Length: the caller compares it with the body.
func ReadWire(b []byte) (*WMsg, error) {
	i := bytes.Index(b, []byte("\r\n\r\n"))
	if i < 0 {
		return nil, fmt.Errorf("no end of header section")
	}
	head := string(b[:i])
	m := &WMsg{Body: append([]byte(nil), b[i+4:]...)}
	lines := strings.Split(head, "\r\n")
	m.Start = lines[0]
	for _, l := range lines[1:] {
		c := strings.IndexByte(l, ':')
		if c < 0 {
			return nil, fmt.Errorf("field line without colon: %q", l)
		}
		m.Hdrs = append(m.Hdrs, WHdr{Name: l[:c], Value: trimBlanks(l[c+1:])})
	}
	return m, nil
}

func (m *WMsg) Render() []byte {
	var b bytes.Buffer
	b.WriteString(m.Start)
	b.WriteString("\r\n")
	for _, h := range m.Hdrs {
		b.WriteString(h.Name)
		b.WriteString(": ")
		b.WriteString(h.Value)
		b.WriteString("\r\n")
	}
	b.WriteString("\r\n")
	b.Write(m.Body)
	return b.Bytes()
}

func (m *WMsg) Clone() *WMsg {
	n := &WMsg{Start: m.Start, Body: append([]byte(nil), m.Body...)}
	n.Hdrs = append([]WHdr(nil), m.Hdrs...)
	return n
}

// compact forms, RFC 3261 §7.3.3 / §20 and the event/refer extensions
var compactForms = map[string]string{
	"v": "via", "f": "from", "t": "to", "i": "call-id", "m": "contact", "l": "content-length",
	"c": "content-type", "e": "content-encoding", "k": "supported", "s": "subject", "o": "event",
	"r": "refer-to", "b": "referred-by", "u": "allow-events", "a": "accept-contact",
}

// canonName: lower-cased long form of a field name.
func canonName(n string) string {
	// HCOLON = *( SP / HTAB ) ":" SWS (RFC 3261 25.1): blanks between the name and the colon are not part of the name
	l := strings.ToLower(strings.TrimRight(n, " \t"))
	if c, ok := compactForms[l]; ok {
		return c
	}
	return l
}

func (m *WMsg) Get(canon string) (string, bool) {
	for _, h := range m.Hdrs {
		if canonName(h.Name) == canon {
			return h.Value, true
		}
	}
	return "", false
}

func (m *WMsg) All(canon string) []string {
	var out []string
	for _, h := range m.Hdrs {
		if canonName(h.Name) == canon {
			out = append(out, h.Value)
		}
	}
	return out
}

func (m *WMsg) IsRequest() bool { return !strings.HasPrefix(m.Start, "SIP/") }

func (m *WMsg) Method() string {
	if m.IsRequest() {
		return strings.SplitN(m.Start, " ", 2)[0]
	}
	if v, ok := m.Get("cseq"); ok {
		f := strings.Fields(v)
		if len(f) == 2 {
			return f[1]
		}
	}
	return ""
}

func (m *WMsg) Status() int {
	f := strings.SplitN(m.Start, " ", 3)
	if len(f) < 2 {
		return 0
	}
	n, _ := strconv.Atoi(f[1])
	return n
}

// SplitTop splits at separators that are outside <...> and "...".
func SplitTop(s string, sep byte) []string {
	var out []string
	depth, quote, start := 0, false, 0
	for i := 0; i < len(s); i++ {
		ch := s[i]
		switch {
		case quote:
			if ch == '\\' {
				i++
			} else if ch == '"' {
				quote = false
			}
		case ch == '"':
			quote = true
		case ch == '<':
			depth++
		case ch == '>':
			if depth > 0 {
				depth--
			}
		case ch == sep && depth == 0:
			out = append(out, s[start:i])
			start = i + 1
		}
	}
	return append(out, s[start:])
}

// Par is a parameter: name, value, and whether an '=' was present.
type Par struct {
	K, V string
	HasV bool
}

func (p Par) String() string {
	if p.HasV {
		return p.K + "=" + p.V
	}
	return p.K
}

func parsePars(list []string) []Par {
	var out []Par
	for _, s := range list {
		s = trimBlanks(s)
		if i := strings.IndexByte(s, '='); i >= 0 {
			out = append(out, Par{K: trimBlanks(s[:i]), V: trimBlanks(s[i+1:]), HasV: true})
		} else {
			out = append(out, Par{K: s})
		}
	}
	return out
}

func parsStr(ps []Par) string {
	var b strings.Builder
	for _, p := range ps {
		b.WriteString(";")
		b.WriteString(p.String())
	}
	return b.String()
}

func findPar(ps []Par, k string) (Par, bool) {
	for _, p := range ps {
		if strings.EqualFold(p.K, k) {
			return p, true
		}
	}
	return Par{}, false
}

// AVia is one Via entry (via-parm).
type AVia struct {
	Proto, Ver, Transport string
	Host                  string
	Port                  string // "" when absent
	Pars                  []Par
}

func (v AVia) String() string {
	s := v.Proto + "/" + v.Ver + "/" + v.Transport + " " + v.Host
	if v.Port != "" {
		s += ":" + v.Port
	}
	return s + parsStr(v.Pars)
}

// Key renders the entry for comparison, port defaulting made explicit when told so.
func (v AVia) Norm(defaultPort bool) string {
	p := v.Port
	if p == "" && defaultPort {
		p = "5060"
		if strings.EqualFold(v.Transport, "TLS") {
			p = "5061"
		}
	}
	s := v.Proto + "/" + v.Ver + "/" + v.Transport + " " + v.Host
	if p != "" {
		s += ":" + p
	}
	return s + parsStr(v.Pars)
}

func ParseAVia(s string) (AVia, error) {
	s = trimBlanks(s)
	parts := SplitTop(s, ';')
	head := trimBlanks(parts[0])
	sp := strings.IndexAny(head, " \t")
	if sp < 0 {
		return AVia{}, fmt.Errorf("via entry without sent-by: %q", s)
	}
	sent := strings.Split(trimBlanks(head[:sp]), "/")
	if len(sent) != 3 {
		return AVia{}, fmt.Errorf("bad sent-protocol in %q", s)
	}
	by := trimBlanks(head[sp+1:])
	v := AVia{Proto: trimBlanks(sent[0]), Ver: trimBlanks(sent[1]), Transport: trimBlanks(sent[2])}
	if strings.HasPrefix(by, "[") {
		e := strings.IndexByte(by, ']')
		if e < 0 {
			return AVia{}, fmt.Errorf("bad IPv6 reference in %q", s)
		}
		v.Host = by[:e+1]
		rest := by[e+1:]
		if strings.HasPrefix(rest, ":") {
			v.Port = rest[1:]
		} else if rest != "" {
			return AVia{}, fmt.Errorf("bad sent-by in %q", s)
		}
	} else if c := strings.IndexByte(by, ':'); c >= 0 {
		v.Host, v.Port = trimBlanks(by[:c]), trimBlanks(by[c+1:])
	} else {
		v.Host = by
	}
	if v.Host == "" {
		return AVia{}, fmt.Errorf("empty sent-by host in %q", s)
	}
	for _, ch := range v.Port {
		if ch < '0' || ch > '9' {
			return AVia{}, fmt.Errorf("bad sent-by port in %q", s)
		}
	}
	v.Pars = parsePars(parts[1:])
	return v, nil
}

// ViaStack flattens all Via fields (any spelling) into the ordered list of entries.
func (m *WMsg) ViaStack() ([]AVia, error) {
	var out []AVia
	for _, val := range m.All("via") {
		for _, e := range SplitTop(val, ',') {
			v, err := ParseAVia(e)
			if err != nil {
				return nil, err
			}
			out = append(out, v)
		}
	}
	return out, nil
}

// AURI is a decoded URI. For sip/sips the components are split; any other scheme keeps Raw.
type AURI struct {
	Scheme string
	User   string
	Pass   string
	HasPW  bool
	Host   string
	Port   string
	Pars   []Par
	Hdrs   []Par
	Raw    string // complete text for non-sip schemes
}

func (u AURI) IsSIP() bool { return u.Scheme == "sip" || u.Scheme == "sips" }

func (u AURI) String() string {
	if !u.IsSIP() {
		return u.Raw
	}
	s := u.Scheme + ":"
	if u.User != "" || u.HasPW {
		s += u.User
		if u.HasPW {
			s += ":" + u.Pass
		}
		s += "@"
	}
	s += u.Host
	if u.Port != "" {
		s += ":" + u.Port
	}
	s += parsStr(u.Pars)
	for i, h := range u.Hdrs {
		if i == 0 {
			s += "?"
		} else {
			s += "&"
		}
		s += h.String()
	}
	return s
}

// Core renders scheme, user, password, host and port only (dialog comparison form).
func (u AURI) Core() string {
	if !u.IsSIP() {
		return u.Raw
	}
	c := u
	c.Pars, c.Hdrs = nil, nil
	return c.String()
}

func ParseAURI(s string) AURI {
	low := strings.ToLower(s)
	var u AURI
	switch {
	case strings.HasPrefix(low, "sip:"):
		u.Scheme, s = "sip", s[4:]
	case strings.HasPrefix(low, "sips:"):
		u.Scheme, s = "sips", s[5:]
	default:
		if i := strings.IndexByte(s, ':'); i > 0 {
			u.Scheme = strings.ToLower(s[:i])
		}
		u.Raw = s
		return u
	}
	// userinfo ends at the '@' (user-unreserved allows ';' and '?', RFC 3261 §25.1; neither
	// hostport, parameters nor headers may contain an unescaped '@')
	if at := strings.LastIndexByte(s, '@'); at >= 0 {
		ui := s[:at]
		s = s[at+1:]
		if c := strings.IndexByte(ui, ':'); c >= 0 {
			u.User, u.Pass, u.HasPW = ui[:c], ui[c+1:], true
		} else {
			u.User = ui
		}
	}
	if q := strings.IndexByte(s, '?'); q >= 0 {
		for _, h := range strings.Split(s[q+1:], "&") {
			if i := strings.IndexByte(h, '='); i >= 0 {
				u.Hdrs = append(u.Hdrs, Par{K: h[:i], V: h[i+1:], HasV: true})
			} else {
				u.Hdrs = append(u.Hdrs, Par{K: h})
			}
		}
		s = s[:q]
	}
	parts := strings.Split(s, ";")
	hp := parts[0]
	if strings.HasPrefix(hp, "[") {
		if e := strings.IndexByte(hp, ']'); e >= 0 {
			u.Host = hp[:e+1]
			if strings.HasPrefix(hp[e+1:], ":") {
				u.Port = hp[e+2:]
			}
		} else {
			u.Host = hp
		}
	} else if c := strings.IndexByte(hp, ':'); c >= 0 {
		u.Host, u.Port = hp[:c], hp[c+1:]
	} else {
		u.Host = hp
	}
	for _, p := range parts[1:] {
		if i := strings.IndexByte(p, '='); i >= 0 {
			u.Pars = append(u.Pars, Par{K: p[:i], V: p[i+1:], HasV: true})
		} else {
			u.Pars = append(u.Pars, Par{K: p})
		}
	}
	return u
}

// ANameAddr is a name-addr or addr-spec with header parameters (From, To, Route, Record-Route, Contact).
type ANameAddr struct {
	Display  string // as written, without the blanks before '<'
	Brackets bool
	URI      AURI
	Pars     []Par
}

func (n ANameAddr) String() string {
	s := ""
	if n.Brackets {
		if n.Display != "" {
			s = n.Display + " "
		}
		s += "<" + n.URI.String() + ">"
	} else {
		s = n.URI.String()
	}
	return s + parsStr(n.Pars)
}

func ParseANameAddr(s string) (ANameAddr, error) {
	s = trimBlanks(s)
	var n ANameAddr
	// find '<' outside quotes
	lt := -1
	quote := false
	for i := 0; i < len(s); i++ {
		if quote {
			if s[i] == '\\' {
				i++
			} else if s[i] == '"' {
				quote = false
			}
			continue
		}
		if s[i] == '"' {
			quote = true
		} else if s[i] == '<' {
			lt = i
			break
		}
	}
	if lt >= 0 {
		gt := strings.IndexByte(s[lt:], '>')
		if gt < 0 {
			return n, fmt.Errorf("unterminated <: %q", s)
		}
		gt += lt
		n.Brackets = true
		n.Display = trimBlanks(s[:lt])
		n.URI = ParseAURI(s[lt+1 : gt])
		rest := trimBlanks(s[gt+1:])
		if rest != "" {
			if rest[0] != ';' {
				return n, fmt.Errorf("garbage after >: %q", s)
			}
			n.Pars = parsePars(SplitTop(rest[1:], ';'))
		}
		return n, nil
	}
	// addr-spec form: parameters after the first ';' belong to the header (RFC 3261 §20.10)
	parts := strings.Split(s, ";")
	n.URI = ParseAURI(trimBlanks(parts[0]))
	n.Pars = parsePars(parts[1:])
	return n, nil
}

// NameAddrList flattens all fields of the given canonical name into entries.
func (m *WMsg) NameAddrList(canon string) ([]ANameAddr, error) {
	var out []ANameAddr
	for _, val := range m.All(canon) {
		for _, e := range SplitTop(val, ',') {
			n, err := ParseANameAddr(e)
			if err != nil {
				return nil, err
			}
			out = append(out, n)
		}
	}
	return out, nil
}

func (m *WMsg) RequestURI() string {
	f := strings.Split(m.Start, " ")
	if len(f) >= 2 {
		return f[1]
	}
	return ""
}

// ---- message building helpers for generators ----

type MsgSpec struct {
	Method string // request when non-empty
	RURI   string
	Status int
	Reason string
	Vias   []string // each element one field value (may itself be a comma list)
	ViaNm  string   // field name for Via lines ("" = "Via")
	Routes []string
	RRs    []string
	From   string
	To     string
	CallID string
	CSeq   string
	Extra  []WHdr // placed after CSeq
	Pre    []WHdr // placed before Via
	Body   []byte
	NoMaxF bool
}

func (s MsgSpec) Build() *WMsg {
	m := &WMsg{}
	if s.Method != "" {
		m.Start = s.Method + " " + s.RURI + " SIP/2.0"
	} else {
		r := s.Reason
		if r == "" {
			r = "Reason"
		}
		m.Start = fmt.Sprintf("SIP/2.0 %d %s", s.Status, r)
	}
	m.Hdrs = append(m.Hdrs, s.Pre...)
	vn := s.ViaNm
	if vn == "" {
		vn = "Via"
	}
	for _, v := range s.Vias {
		m.Hdrs = append(m.Hdrs, WHdr{vn, v})
	}
	for _, v := range s.Routes {
		m.Hdrs = append(m.Hdrs, WHdr{"Route", v})
	}
	for _, v := range s.RRs {
		m.Hdrs = append(m.Hdrs, WHdr{"Record-Route", v})
	}
	if s.Method != "" && !s.NoMaxF {
		m.Hdrs = append(m.Hdrs, WHdr{"Max-Forwards", "70"})
	}
	m.Hdrs = append(m.Hdrs, WHdr{"From", s.From}, WHdr{"To", s.To}, WHdr{"Call-ID", s.CallID}, WHdr{"CSeq", s.CSeq})
	m.Hdrs = append(m.Hdrs, s.Extra...)
	m.Hdrs = append(m.Hdrs, WHdr{"Content-Length", strconv.Itoa(len(s.Body))})
	m.Body = s.Body
	return m
}

// ResponseTo builds the response a user agent server would send for a received request:
// Via stack, From, Call-ID, CSeq copied; To gets a tag.
func ResponseTo(req *WMsg, status int, toTag string, extra ...WHdr) *WMsg {
	m := &WMsg{Start: fmt.Sprintf("SIP/2.0 %d Reason", status)}
	for _, h := range req.Hdrs {
		switch canonName(h.Name) {
		case "via", "from", "call-id", "cseq", "record-route":
			m.Hdrs = append(m.Hdrs, h)
		case "to":
			v := h.Value
			if toTag != "" && !strings.Contains(v, ";tag=") {
				v += ";tag=" + toTag
			}
			m.Hdrs = append(m.Hdrs, WHdr{h.Name, v})
		}
	}
	m.Hdrs = append(m.Hdrs, extra...)
	m.Hdrs = append(m.Hdrs, WHdr{"Content-Length", "0"})
	return m
}

func short(b []byte) string {
	s := string(b)
	if len(s) > 600 {
		s = s[:600] + "...[" + strconv.Itoa(len(b)) + " bytes]"
	}
	return strconv.Quote(s)
}

func viaStrs(l []AVia) []string {
	var o []string
	for _, e := range l {
		o = append(o, e.String())
	}
	return o
}

func naList(l []ANameAddr) string {
	var s []string
	for _, e := range l {
		s = append(s, e.String())
	}
	return "[" + strings.Join(s, " | ") + "]"
}

func firstDiffStr(a, b string) int {
	for i := 0; i < len(a) && i < len(b); i++ {
		if a[i] != b[i] {
			return i
		}
	}
	if len(a) < len(b) {
		return len(a)
	}
	return len(b)
}

func clip(s string, at int) string {
	lo, hi := at-8, at+16
	if lo < 0 {
		lo = 0
	}
	if hi > len(s) {
		hi = len(s)
	}
	if lo > hi {
		lo = hi
	}
	return s[lo:hi]
}
