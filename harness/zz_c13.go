//go:build verif && (c13 || all)

package main

import (
	"encoding/json"
	"fmt"
	"strings"

	"github.com/ochinchina/sipproxy/vrt/vnet"
)

// C13 — Route handling: consume the own entry only, keep or strip the next hop as configured,
// relay the rest unchanged and in order (DESIGN.md §4 C13).

var c13Spec *EnumSpec

var c13Entries = map[string]string{
	"bare":     "<sip:127.0.2.1:5070;lr>",
	"display":  "Next <sip:nh.example.net;lr>",
	"quoted":   "\"Quoted Name\" <sip:127.0.2.2:5070;lr>",
	"uripars":  "<sip:127.0.2.2;transport=udp;foo;lr>",
	"hdrpars":  "<sip:127.0.2.1:5070;lr>;hp=1;flag",
	"userpct":  "<sip:u@127.0.2.2:5060;lr;x=%41>",
	"lr-first": "<sip:127.0.2.1;lr;transport=UDP>",
	"port0":    "<sip:127.0.2.1:05070;lr>",
}

func c13Cfgs(keep string) []RCfg {
	hosts := [][2]string{{"proxy.example.com", "127.0.0.1"}, {"proxy2.example.com", "127.0.0.2"}, {"other.example.com", "127.0.0.3"}, {"nh.example.net", "127.0.2.1"}}
	a := RCfg{Name: "svc.example.com", KeepNextHop: keep, Hosts: hosts,
		Listens: []RListen{{Addr: "127.0.0.1", UDP: 5060, TCP: 5062, Backends: []string{"udp://127.0.1.1:7000"}},
			// an entry whose traffic towards the backends leaves from another (egress) address
			{Addr: "127.0.0.2", UDP: 5060, Backends: []string{"udp://127.0.1.3:7000"}, BackendLocalAddr: "127.0.0.4"},
			// a listens entry without an address: bound to every local address
			{Addr: "", UDP: 5096, Backends: []string{"udp://127.0.1.1:7000"}}}}
	b := RCfg{Name: "other.example.com", Hosts: hosts, Listens: []RListen{{Addr: "127.0.0.3", UDP: 5060, Backends: []string{"udp://127.0.1.4:7000"}}}}
	return []RCfg{a, b}
}

func c13Msg(s *EnumSpec, v []int) *WMsg {
	lport := "5060"
	if s.Val(v, "arrival") == "tcp" {
		lport = "5062"
	}
	if s.Val(v, "arrival") == "udp-wildcard" {
		lport = "5096"
	}
	lip, alias := "127.0.0.1", "proxy.example.com"
	if s.Val(v, "arrival") == "udp-egress" {
		lip, alias = "127.0.0.2", "proxy2.example.com"
	}
	first := map[string]string{
		// the egress address of the entry with the listener's port: not the listener, never consumed
		"egress-addr-port":        "<sip:127.0.0.4:" + lport + ";lr>",
		"unresolvable-right-port": "<sip:edge-gw.invalid:" + lport + ";lr>",
		"addr-port-leading-zero":  "<sip:127.0.0.1:0" + lport + ";lr>",
		"none":                    "", "addr-port": "<sip:" + lip + ":" + lport + ";lr>", "alias-port": "<sip:" + alias + ":" + lport + ";lr>",
		"alias-noport": "<sip:" + alias + ";lr>", "addr-noport": "<sip:" + lip + ";lr>", "wrong-port": "<sip:127.0.0.1:5099;lr>",
		"foreign-host-right-port": "<sip:127.0.2.2:" + lport + ";lr>", "other-listener": "<sip:127.0.0.2:5060;lr>", "other-listener-alias": "<sip:proxy2.example.com:5060;lr>",
		"other-service": "<sip:127.0.0.3:5060;lr>",
		"own-display":   "Me <sip:127.0.0.1:" + lport + ";lr>", "own-hdrpar": "<sip:127.0.0.1:" + lport + ";lr>;x=1", "own-user": "<sip:px@127.0.0.1:" + lport + ";lr>",
		"own-nolr": "<sip:127.0.0.1:" + lport + ">",
	}[s.Val(v, "first")]
	var entries []string
	if first != "" {
		entries = append(entries, first)
	}
	for _, f := range []string{"e1", "e2", "e3", "e4"} {
		if x := s.Val(v, f); x != "absent" {
			entries = append(entries, c13Entries[x])
		}
	}
	sep := ","
	if s.Val(v, "sep") == "comma-blank" {
		sep = ", "
	}
	mask := v[s.idx("layout")]
	var lines []string
	cur := ""
	for i, e := range entries {
		if i == 0 {
			cur = e
			continue
		}
		if mask&(1<<(i-1)) != 0 {
			lines = append(lines, cur)
			cur = e
		} else {
			cur += sep + e
		}
	}
	if len(entries) > 0 {
		lines = append(lines, cur)
	}
	tr := strings.ToUpper(strings.TrimSuffix(s.Val(v, "arrival"), "-wildcard"))
	return MsgSpec{Method: "OPTIONS", RURI: "sip:bob@svc.example.com", Vias: []string{"SIP/2.0/" + tr + " 127.0.0.9:5060;branch=z9hG4bKc13"}, Routes: lines,
		From: "<sip:alice@ua.example.net>;tag=f1", To: "<sip:bob@nomatch.example.org>", CallID: "c13", CSeq: "1 OPTIONS"}.Build()
}

func c13Eval(v []int) (string, string, bool) {
	s := c13Spec
	keep := ""
	if s.Val(v, "keep") == "on" {
		keep = "true"
	}
	cfgs := c13Cfgs(keep)
	w := StartRelayWorld(SimOpts{}, cfgs...)
	defer w.Close()
	return c13EvalIn(w, cfgs, v, 0)
}

func c13EvalIn(w *RelayWorld, cfgs []RCfg, v []int, seq int) (string, string, bool) {
	s := c13Spec
	m := c13Msg(s, v)
	if seq > 0 {
		for i := range m.Hdrs {
			switch m.Hdrs[i].Name {
			case "Call-ID":
				m.Hdrs[i].Value = fmt.Sprintf("c13-%d", seq)
			case "Via":
				m.Hdrs[i].Value = strings.Replace(m.Hdrs[i].Value, "z9hG4bKc13", fmt.Sprintf("z9hG4bKc13x%d", seq), 1)
			}
		}
	}
	w.Observe()
	lport, lidx := 5060, 0
	switch s.Val(v, "arrival") {
	case "tcp":
		lport = 5062
		w.SendTCP(w.Client("c1", "127.0.0.9", "127.0.0.1:5062"), m.Render())
	case "udp-wildcard":
		lport, lidx = 5096, 2
		w.SendUDP("127.0.0.9:5060", "127.0.0.1:5096", m.Render())
	case "udp-egress":
		lidx = 1
		w.SendUDP("127.0.0.9:5060", "127.0.0.2:5060", m.Render())
	default:
		w.SendUDP("127.0.0.9:5060", "127.0.0.1:5060", m.Render())
	}
	obs := w.Observe()
	d := cfgs[0].refDecide(m, lidx, lport)
	if s.Val(v, "first") == "unresolvable-right-port" {
		// the first entry names a host nobody can resolve: it is not the proxy's own entry, so it is the
		// next hop, and since it cannot be reached nothing may be sent - least of all to a later entry
		if vd := w.S.Verdict(); vd != "" {
			return "health", vd, true
		}
		if d.PopOwn {
			return "harness", "the reference takes an unresolvable name for the listener", false
		}
		if len(obs.Pkts)+len(obs.Dials) != 0 {
			return "unresolvable-first-entry-skipped", fmt.Sprintf("request %s\nthe first Route entry names the unresolvable host edge-gw.invalid with the listener's port %d: it must not be consumed as the proxy's own entry; observed: %s", short(m.Render()), lport, obs.Summary()), true
		}
		return "", "", true
	}
	if d.NoModel != "" {
		return "", "", false
	}
	in, _ := m.NameAddrList("route")
	desc := func(exp string) string {
		return fmt.Sprintf("request %s\nkeep-next-hop=%v arrival=%s listener port %d\nreceived Route list %s\nexpected: %s\nobserved: %s", short(m.Render()), cfgs[0].keep(), s.Val(v, "arrival"), lport, naList(in), exp, obs.Summary())
	}
	if vd := w.S.Verdict(); vd != "" {
		return "health", desc("healthy proxy") + "\n" + vd, true
	}
	if d.Hop.Kind == "route" && (!d.Hop.Supported || d.Hop.Dest == "") {
		return "", "", false
	}
	if len(obs.Pkts) == 0 {
		return "not-relayed", desc("a relayed request"), true
	}
	// only the first emission is the relay of the injected request (a next hop that is another
	// listener of the proxy makes the proxy relay again; C03 owns exactly-one)
	p := obs.Pkts[0]
	out, err := ReadWire(p.Data)
	if err != nil {
		return "unreadable-emission", desc("a well-formed message") + "\n" + err.Error(), true
	}
	got, err := out.NameAddrList("route")
	if err != nil {
		return "route-undecodable", desc("Route list "+naList(d.Routes)) + "\nemitted " + short(p.Data), true
	}
	nt := len(in) > 0
	if d.Hop.Kind == "route" && p.To != d.Hop.Dest {
		return "next-hop-destination", desc(fmt.Sprintf("sent to %s (the entry naming the next hop), Route list %s", d.Hop.Dest, naList(d.Routes))), nt
	}
	if naList(got) != naList(d.Routes) {
		cl := "route-list"
		switch {
		case len(got) > len(d.Routes):
			cl = "route-entry-not-removed"
		case len(got) < len(d.Routes):
			cl = "route-entry-lost"
		}
		return cl, desc("Route list "+naList(d.Routes)) + "\nemitted Route list " + naList(got), nt
	}
	return "", "", nt
}

type c13Aged struct {
	w    *RelayWorld
	cfgs []RCfg
	n    int
}

func c13AgedSpec() *AgedSpec {
	s := c13Spec
	return &AgedSpec{Spec: s,
		Group: func(v []int) string {
			// a next hop that is another listener of the proxy makes the proxy relay again: keep those out of the shared world
			switch s.Val(v, "first") {
			case "other-listener", "other-listener-alias", "other-service":
				return ""
			}
			return "keep=" + s.Val(v, "keep") + ",first=" + s.Val(v, "first")
		},
		Open: func(v []int) any {
			keep := ""
			if s.Val(v, "keep") == "on" {
				keep = "true"
			}
			cfgs := c13Cfgs(keep)
			return &c13Aged{w: StartRelayWorld(SimOpts{}, cfgs...), cfgs: cfgs}
		},
		Close: func(w any) { w.(*c13Aged).w.Close() },
		Eval: func(w any, v []int) (string, string) {
			a := w.(*c13Aged)
			a.n++
			cl, d, _ := c13EvalIn(a.w, a.cfgs, v, a.n)
			return cl, d
		}}
}

func init() {
	ent := []string{"absent", "bare", "display", "quoted", "uripars", "hdrpars", "userpct", "lr-first", "port0"}
	c13Spec = &EnumSpec{
		Feats: []Feat{
			{Name: "first", Vals: []string{"none", "addr-port", "alias-port", "alias-noport", "addr-noport", "wrong-port", "foreign-host-right-port", "other-listener", "other-service",
				"own-display", "own-hdrpar", "own-user", "own-nolr", "other-listener-alias", "unresolvable-right-port", "addr-port-leading-zero", "egress-addr-port"}},
			{Name: "e1", Vals: ent},
			{Name: "e2", Vals: ent},
			{Name: "e3", Vals: ent, Quick: 3},
			{Name: "e4", Vals: []string{"absent", "bare", "hdrpars", "uripars"}, Quick: 1},
			{Name: "layout", Vals: []string{"one-line", "m1", "m2", "m3", "m4", "m5", "m6", "m7", "m8", "m9", "m10", "m11", "m12", "m13", "m14", "m15"}, Quick: 8},
			{Name: "sep", Vals: []string{"comma", "comma-blank"}},
			{Name: "keep", Vals: []string{"off", "on"}},
			{Name: "arrival", Vals: []string{"udp", "tcp", "udp-wildcard", "udp-egress"}},
		},
		Eval: c13Eval,
		Seqs: [][]string{{"e1", "e2", "e3", "e4"}},
	}
	s := c13Spec
	s.Valid = func(v []int) bool {
		e1, e2, e3, e4 := v[s.idx("e1")], v[s.idx("e2")], v[s.idx("e3")], v[s.idx("e4")]
		if (e1 == 0 && (e2 != 0 || e3 != 0)) || (e2 == 0 && e3 != 0) || (e3 == 0 && e4 != 0) {
			return false
		}
		n := 0
		if v[s.idx("first")] != 0 {
			n++
		}
		for _, e := range []int{e1, e2, e3, e4} {
			if e != 0 {
				n++
			}
		}
		gaps := n - 1
		if gaps < 0 {
			gaps = 0
		}
		if v[s.idx("layout")] >= 1<<gaps {
			return false
		}
		if gaps == 0 && v[s.idx("sep")] != 0 {
			return false
		}
		// the address-less listener is exercised without a first entry and with the unresolvable one
		if s.Val(v, "arrival") == "udp-wildcard" && s.Val(v, "first") != "none" && s.Val(v, "first") != "unresolvable-right-port" {
			return false
		}
		// the entry with an egress address: own entries by address / alias, and the egress address itself
		eg := map[string]bool{"none": true, "addr-port": true, "alias-port": true, "alias-noport": true, "addr-noport": true, "egress-addr-port": true}
		if s.Val(v, "arrival") == "udp-egress" && !eg[s.Val(v, "first")] {
			return false
		}
		if s.Val(v, "first") == "egress-addr-port" && s.Val(v, "arrival") != "udp-egress" {
			return false
		}
		return true
	}
	s.Reduce = func(v []int) bool {
		// the fourth further entry is crossed with a reduced alphabet of the others
		return v[s.idx("e4")] != 0 && (v[s.idx("e1")] > 3 || v[s.idx("e2")] > 3 || v[s.idx("e3")] > 3)
	}
	c13Alias := func(c *Ctx) { c13AliasMoves(c, nil) }
	addCheck(&Check{ID: "C13", Level: "exploration",
		Rule:   "complete product: first Route entry (16 shapes incl. a port written with a leading zero: own by address/alias/with and without port, near misses, other listeners, decorated own entries, an unresolvable host with the listener's port) x remaining list of 0-3 (thorough 0-4) entries over an 8-entry alphabet (display names, URI parameters valued/valueless/lr in any position, header parameters, %-escapes) x every layout (all compositions into header lines, with/without blank after commas) x keep-next-hop x arrival {UDP, TCP, UDP on a listens entry without address, UDP on a listens entry with a backend-local-address}; plus a first entry whose DNS-only host name moves between the listener, another host and nothing (27 histories of three judged requests, further requests every 5 / 12 / 25 s in between, each judged more than a minute after the last change; differential against a proxy started in that state); the emitted Route list is decoded by the independent reader and compared component-wise with the reference; second pass: all cases of one (keep, first entry) class fed into ONE long-lived world; non-trivial = request carries a Route",
		Assume: []string{"two services, four listeners (one bound to every local address), host table with aliases; only the first emission is compared (exactly-one is C03)"},
		Run: func(c *Ctx) {
			c13Spec.Run(c)
			c13AgedSpec().Run(c)
			c13Alias(c)
		},
		Replay: func(c *Ctx, raw json.RawMessage) string {
			var am c13AliasCase
			if json.Unmarshal(raw, &am) == nil && len(am.States) > 0 {
				cc := &Ctx{Res: newResult(), vmap: map[string]*Violation{}, Deadline: c.Deadline, NWorkers: 1}
				c13AliasMoves(cc, &am)
				if len(cc.Res.Violations) > 0 {
					return cc.Res.Violations[0].Clause
				}
				return ""
			}
			if cl, ok := c13AgedSpec().Replay(raw); ok {
				return cl
			}
			return c13Spec.Replay(raw)
		},
	})
}

// ---- an alias that moves ----
//
// The first Route entry names the listener by a host name that only the DNS knows. Name resolution
// changes between requests (the name designates the listener / another host / nothing); each
// request must be handled according to what the name designates when it arrives - judged only
// once the change is more than a minute old while requests kept coming (a bounded resolver cache
// is not demanded away; a verdict that traffic renews for ever is). Differential
// oracle: the observation in the long-lived world equals the observation of the same request in
// a fresh world started with the DNS in that state.

type c13AliasCase struct {
	States []string `json:"alias_states"`
	GapS   int      `json:"gap_s"`
	Keep   string   `json:"keep"`
}

const c13AliasName = "edge-dns.example.net"

func c13AliasSet(state string) {
	switch state {
	case "own":
		vnet.SetHost(c13AliasName, false, "127.0.0.1")
	case "foreign":
		vnet.SetHost(c13AliasName, false, "127.0.2.2")
	case "gone":
		vnet.SetHost(c13AliasName, true)
	}
}

func c13AliasObs(w *RelayWorld, seq int) string {
	m := MsgSpec{Method: "OPTIONS", RURI: "sip:bob@far.example.net", Vias: []string{fmt.Sprintf("SIP/2.0/UDP 127.0.0.9:5060;branch=z9hG4bKam%d", seq)}, From: "<sip:alice@ua.example.net>;tag=f1", To: "<sip:bob@far.example.net>",
		Routes: []string{"<sip:" + c13AliasName + ":5060;lr>", "<sip:127.0.2.1:5070;lr>", "<sip:10.9.9.9;lr>"}, CallID: fmt.Sprintf("am-%d", seq), CSeq: "1 OPTIONS"}.Build()
	w.Observe()
	w.SendUDP("127.0.0.9:5060", "127.0.0.1:5060", m.Render())
	obs := w.Observe()
	if vd := w.S.Verdict(); vd != "" {
		return "health: " + vd
	}
	out := obs.Summary()
	if len(obs.Pkts) == 1 {
		if rel, err := ReadWire(obs.Pkts[0].Data); err == nil {
			rl, _ := rel.NameAddrList("route")
			out += " Route: " + naList(rl)
		}
	}
	return out
}

func c13AliasMoves(c *Ctx, only *c13AliasCase) {
	states := []string{"own", "foreign", "gone"}
	var idx int64
	for _, keep := range []string{"", "true"} {
		ref := map[string]string{}
		for _, st := range states {
			st := st
			preStart = func() { c13AliasSet(st) }
			w := StartRelayWorld(SimOpts{}, c13Cfgs(keep)...)
			preStart = nil
			ref[st] = c13AliasObs(w, 0)
			w.Close()
		}
		if ref["own"] == ref["foreign"] || ref["own"] == ref["gone"] {
			c.Res.Notes = append(c.Res.Notes, "alias scenario vacuous: the three DNS states are not told apart: "+fmt.Sprint(ref))
		}
		for _, gap := range []int{5, 12, 25} {
			for a := 0; a < 3; a++ {
				for b := 0; b < 3; b++ {
					for d := 0; d < 3; d++ {
						cs := c13AliasCase{States: []string{states[a], states[b], states[d]}, GapS: gap, Keep: keep}
						if only != nil && (fmt.Sprint(only.States) != fmt.Sprint(cs.States) || only.GapS != gap || only.Keep != keep) {
							continue
						}
						idx++
						if only == nil && (!c.Mine(idx) || c.Expired()) {
							continue
						}
						preStart = func() { c13AliasSet(cs.States[0]) }
						w := StartRelayWorld(SimOpts{}, c13Cfgs(keep)...)
						preStart = nil
						for i, st := range cs.States {
							c13AliasSet(st)
							if i > 0 {
								// A resolver view may lag behind the DNS for a bounded time (a cache with a time to live is
								// ordinary practice and the statement does not rule it out): requests keep arriving every
								// `gap` seconds - unjudged - until more than a minute has passed since the change; only then
								// is a request judged. A verdict that traffic keeps alive for ever is still stale by then.
								for k := 0; k*gap <= 60; k++ {
									w.S.W.Advance(int64(gap) * 1e9)
									w.S.Run()
									c13AliasObs(w, 100*(i+1)+k)
								}
							}
							got := c13AliasObs(w, i+1)
							c.Res.Evaluations++
							c.Res.Executions++
							c.Res.Nontrivial++
							want := strings.ReplaceAll(ref[st], "am-0", fmt.Sprintf("am-%d", i+1))
							if got != want {
								c.Violate("alias-moved|"+strings.Join(cs.States[:i+1], ">"), "own-entry-decision-is-stale", fmt.Sprintf("the first Route entry names the listener's port on the host name %s; name resolution history %v, requests every %d s, each judged request more than a minute after the last change (keep-next-hop-route=%q): request %d, sent while the name designates %q, gave %s; a proxy started in that state gives %s",
									c13AliasName, cs.States[:i+1], gap, keep, i+1, st, got, want), cs)
								break
							}
						}
						w.Close()
						c.Count("alias_histories", 1)
					}
				}
			}
		}
	}
}
