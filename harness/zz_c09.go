//go:build verif && (c09 || all)

package main

import (
	"bytes"
	"encoding/json"
	"fmt"
	"net"
	"strings"

	"github.com/ochinchina/sipproxy/vrt"
	"github.com/ochinchina/sipproxy/vrt/vnet"
)

// C09 — concurrent listeners and backend changes never corrupt or kill the proxy
// (DESIGN.md §4 C09). Deviation-bounded schedule exploration of the real proxy under the Go race
// detector: every execution the explorer enumerates is also checked by the detector.

type c09Case struct {
	Scenario string `json:"scenario"`
	Choices  []int  `json:"choices"`
}

func c09Req(id, transport, src, route string) []byte {
	var routes []string
	if route != "" {
		routes = []string{route}
	}
	return MsgSpec{Method: "OPTIONS", RURI: "sip:bob@svc.example.com", Routes: routes, Vias: []string{"SIP/2.0/" + transport + " " + src + ";branch=z9hG4bK" + id}, From: "<sip:" + id + "@ua.example.net>;tag=f", To: "<sip:bob@svc.example.com>",
		CallID: "c09-" + id, CSeq: "1 OPTIONS"}.Build().Render()
}

type c09Result struct {
	trace   []vrt.Point
	clause  string
	detail  string
	outcome string
}

// c09HangUpExec: scenario clients-hang-up. A TCP client of listener 1 sends a request and closes its
// connection at once; the TCP backend of listener 2 sends a request of its own over the connection
// the proxy dialled to it and hangs up, while a request for that backend and a UDP request on
// listener 1 are in flight: a connection's receive goroutine winds the connection up while a loop
// still handles what it carried. Afterwards a new client is served.
func c09HangUpExec(prefix []int) c09Result {
	cfg := RCfg{Name: "svc.example.com", Listens: []RListen{
		{Addr: "127.0.0.1", UDP: 5060, TCP: 5062, Backends: []string{"udp://127.0.1.2:7000", "udp://127.0.1.5:7000"}},
		{Addr: "127.0.0.2", UDP: 5060, TCP: 5062, Backends: []string{"tcp://127.0.1.4:7000"}}}}
	s := StartSim(ConfigYAML(cfg), SimOpts{})
	defer s.Close()
	for _, a := range []string{"127.0.1.2:7000", "127.0.1.5:7000"} {
		c09UDPBackend(a)
	}
	// the TCP backend of listener 2 is a driver-side endpoint: it takes the connection the proxy dials,
	// sends requests of its own over it and hangs up
	beL := s.TCPListen("127.0.1.4:7000")
	uaC := s.UDPPeer("127.0.0.7:5060")
	cliA, err := s.TCPDial("127.0.0.9:0", "127.0.0.1:5062")
	if err != nil {
		panic(err)
	}
	cliB, err := s.TCPDial("127.0.0.8:0", "127.0.0.2:5062")
	if err != nil {
		panic(err)
	}
	s.Run()
	// each connection has carried a request before (whatever the proxy learned from it is in place)
	cliA.Write(c09Req("P1", "TCP", "127.0.0.9:5060", ""))
	s.Run()
	cliB.Write(c09Req("P2", "TCP", "127.0.0.8:5060", ""))
	s.Run()
	be := beL.Accept()
	beReq := func(id string) []byte {
		return MsgSpec{Method: "OPTIONS", RURI: "sip:x@nowhere.invalid", Vias: []string{"SIP/2.0/TCP 127.0.1.4:7000;branch=z9hG4bK" + id}, From: "<sip:be@be.example.net>;tag=f", To: "<sip:x@nowhere.invalid>",
			CallID: "c09-" + id, CSeq: "1 OPTIONS"}.Build().Render()
	}
	if be != nil {
		be.Write(beReq("Q1"))
		s.Run()
	}
	s.EmittedAll()
	s.W.SetExplore(vrt.KSched|vrt.KSelect, prefix)
	cliA.Write(c09Req("A", "TCP", "127.0.0.9:5060", ""))
	cliA.Close()
	if be != nil {
		// a request of the backend over the connection the proxy dialled, then the backend hangs up
		be.Write(beReq("Q2"))
		be.Close()
	}
	cliB.Write(c09Req("B", "TCP", "127.0.0.8:5060", ""))
	uaC.Send("127.0.0.1:5060", c09Req("C", "UDP", "127.0.0.7:5060", ""))
	s.Run()
	// a new client on listener 1 (still under the explored schedule)
	cliD, err := s.TCPDial("127.0.0.9:0", "127.0.0.1:5062")
	if err == nil {
		cliD.Write(c09Req("D", "TCP", "127.0.0.9:5060", ""))
	}
	s.Run()
	res := c09Result{trace: s.W.TraceCopy()}
	if vd := s.Verdict(); vd != "" {
		res.clause, res.detail = "health", vd+"\n"+s.CrashDetail()
		if strings.HasPrefix(vd, "crash") {
			res.clause = "crash"
		} else if strings.HasPrefix(vd, "deadlock") {
			res.clause = "deadlock"
		}
		return res
	}
	reqTo := map[string][]string{}
	respD := 0
	for _, p := range s.EmittedAll() {
		if p.Proto == "dial" {
			continue
		}
		for _, id := range []string{"A", "B", "C", "D"} {
			if bytes.Contains(p.Data, []byte("Call-ID: c09-"+id+"\r\n")) {
				if !bytes.HasPrefix(p.Data, []byte("SIP/2.0")) {
					reqTo[id] = append(reqTo[id], p.To)
				} else if id == "D" && cliD != nil && p.Proto == "tcp" && p.Conn == cliD.Peer().ID() {
					respD++
				}
			}
		}
	}
	own := map[string][]string{"A": {"127.0.1.2:7000", "127.0.1.5:7000"}, "C": {"127.0.1.2:7000", "127.0.1.5:7000"}, "D": {"127.0.1.2:7000", "127.0.1.5:7000"}, "B": {"127.0.1.4:7000"}}
	var oc []string
	for _, id := range []string{"A", "B", "C", "D"} {
		to := reqTo[id]
		if id == "B" {
			// its only backend hangs up at the same time: delivered over the old connection, over a new one, or lost with
			// the old connection - never to somebody else
			for _, t := range to {
				if t != "127.0.1.4:7000" {
					res.clause, res.detail = "request-to-foreign-backend", fmt.Sprintf("request B went to %s, not a backend of its listener", t)
					return res
				}
			}
			oc = append(oc, fmt.Sprintf("B:%d", len(to)))
			continue
		}
		if len(to) != 1 {
			res.clause, res.detail = "request-lost", fmt.Sprintf("request %s was sent to %v (expected exactly one backend of its listener; sender A hung up right after sending)", id, to)
			if len(to) > 1 {
				res.clause = "request-to-several-backends"
			}
			return res
		}
		ok := false
		for _, o := range own[id] {
			if o == to[0] {
				ok = true
			}
		}
		if !ok {
			res.clause, res.detail = "request-to-foreign-backend", fmt.Sprintf("request %s went to %s, not a backend of its listener %v", id, to[0], own[id])
			return res
		}
		oc = append(oc, id+":"+to[0])
	}
	if respD != 1 {
		res.clause, res.detail = "response-not-returned-to-sender", fmt.Sprintf("the client that connected after the others had hung up got %d responses on its connection (expected 1)", respD)
		return res
	}
	res.outcome = strings.Join(oc, " ")
	return res
}

// c09LostExec: scenario connections-lost. Listener 1 has two TCP backends; both are connected by
// two requests, then both peers close their connections; then two more requests (which have to
// re-connect) and a TCP client on listener 2 are injected at once.
func c09LostExec(prefix []int) c09Result {
	cfg := RCfg{Name: "svc.example.com", Listens: []RListen{
		{Addr: "127.0.0.1", UDP: 5060, TCP: 5062, Backends: []string{"tcp://127.0.1.2:7000", "tcp://127.0.1.5:7000"}},
		{Addr: "127.0.0.2", UDP: 5060, TCP: 5062, Backends: []string{"udp://127.0.1.3:7000", "tcp://127.0.1.4:7000"}}}}
	s := StartSim(ConfigYAML(cfg), SimOpts{})
	defer s.Close()
	c09UDPBackend("127.0.1.3:7000")
	for _, a := range []string{"127.0.1.2:7000", "127.0.1.5:7000", "127.0.1.4:7000"} {
		c09TCPBackend(a)
	}
	uaA := s.UDPPeer("127.0.0.9:5060")
	uaC := s.UDPPeer("127.0.0.7:5060")
	cliB, err := s.TCPDial("127.0.0.8:0", "127.0.0.2:5062")
	if err != nil {
		panic(err)
	}
	s.Run()
	// both backend connections of listener 1 come up ...
	uaA.Send("127.0.0.1:5060", c09Req("P1", "UDP", "127.0.0.9:5060", ""))
	s.Run()
	uaA.Send("127.0.0.1:5060", c09Req("P2", "UDP", "127.0.0.9:5060", ""))
	s.Run()
	// ... and are closed by the peers
	for _, c := range vnet.Conns() {
		if c.IsDriver() && !c.IsClosed() && (c.LocalString() == "127.0.1.2:7000" || c.LocalString() == "127.0.1.5:7000") {
			c.Close()
		}
	}
	s.Run()
	s.EmittedAll()
	s.W.SetExplore(vrt.KSched|vrt.KSelect, prefix)
	uaA.Send("127.0.0.1:5060", c09Req("A", "UDP", "127.0.0.9:5060", ""))
	cliB.Write(c09Req("B", "TCP", "127.0.0.8:5060", ""))
	uaC.Send("127.0.0.1:5060", c09Req("C", "UDP", "127.0.0.7:5060", ""))
	s.Run()
	res := c09Result{trace: s.W.TraceCopy()}
	if vd := s.Verdict(); vd != "" {
		res.clause, res.detail = "health", vd+"\n"+s.CrashDetail()
		if strings.HasPrefix(vd, "crash") {
			res.clause = "crash"
		} else if strings.HasPrefix(vd, "deadlock") {
			res.clause = "deadlock"
		}
		return res
	}
	reqTo := map[string][]string{}
	for _, p := range s.EmittedAll() {
		if p.Proto == "dial" || bytes.HasPrefix(p.Data, []byte("SIP/2.0")) {
			continue
		}
		for _, id := range []string{"A", "B", "C"} {
			if bytes.Contains(p.Data, []byte("Call-ID: c09-"+id+"\r\n")) {
				reqTo[id] = append(reqTo[id], p.To)
			}
		}
	}
	own := map[string][]string{"A": {"127.0.1.2:7000", "127.0.1.5:7000"}, "C": {"127.0.1.2:7000", "127.0.1.5:7000"}, "B": {"127.0.1.3:7000", "127.0.1.4:7000"}}
	var oc []string
	for _, id := range []string{"A", "B", "C"} {
		to := reqTo[id]
		if len(to) != 1 {
			res.clause, res.detail = "request-lost", fmt.Sprintf("after both TCP backend connections of listener 1 were closed by their peers, request %s was sent to %v (expected exactly one backend: the proxy re-connects)", id, to)
			if len(to) > 1 {
				res.clause = "request-to-several-backends"
			}
			return res
		}
		ok := false
		for _, o := range own[id] {
			if o == to[0] {
				ok = true
			}
		}
		if !ok {
			res.clause, res.detail = "request-to-foreign-backend", fmt.Sprintf("request %s went to %s, not a backend of its listener %v", id, to[0], own[id])
			return res
		}
		oc = append(oc, id+":"+to[0])
	}
	res.outcome = strings.Join(oc, " ")
	return res
}

func c09Exec(scenario string, prefix []int) c09Result {
	if scenario == "connections-lost" {
		return c09LostExec(prefix)
	}
	if scenario == "clients-hang-up" {
		return c09HangUpExec(prefix)
	}
	be1 := "udp://be1.example.net:7000"
	if scenario == "tcp-backend-churn" {
		be1 = "tcp://be1.example.net:7000"
	}
	cfg := RCfg{Name: "svc.example.com", Listens: []RListen{
		{Addr: "127.0.0.1", UDP: 5060, TCP: 5062, Backends: []string{be1, "tcp://127.0.1.2:7000"}},
		{Addr: "127.0.0.2", UDP: 5060, TCP: 5062, Backends: []string{"udp://127.0.1.3:7000", "tcp://127.0.1.4:7000"}}}}
	if scenario == "static-routes" {
		cfg.Routes = []RRoute{{Dests: []string{"*.wild.example.org"}, Protocol: "udp", NextHop: "127.0.0.31:7100"}, {Dests: []string{"exact.example.org"}, Protocol: "udp", NextHop: "127.0.0.32:7100"}}
	}
	if scenario == "shrink-first" {
		// only the host-name backend: its first address is at position 0 of the rotation
		cfg.Listens[0].Backends = []string{be1}
	}
	preStart = func() {
		vnet.SetHost("be1.example.net", false, "127.0.11.1")
		if scenario == "shrink" || scenario == "shrink-first" {
			vnet.SetHost("be1.example.net", false, "127.0.11.1", "127.0.11.2")
		}
		// next hops named in Route headers; resolved through the simulated DNS
		vnet.SetHost("nh1.example.net", false, "127.0.0.31")
		vnet.SetHost("nh2.example.net", false, "127.0.0.32")
	}
	s := StartSim(ConfigYAML(cfg), SimOpts{}) // set-up on the default schedule
	preStart = nil
	defer s.Close()
	for _, a := range []string{"127.0.11.1:7000", "127.0.11.2:7000", "127.0.1.3:7000"} {
		if scenario == "tcp-backend-churn" && a != "127.0.1.3:7000" {
			continue
		}
		c09UDPBackend(a)
	}
	for _, a := range []string{"127.0.1.2:7000", "127.0.1.4:7000"} {
		c09TCPBackend(a)
	}
	if scenario == "tcp-backend-churn" {
		c09TCPBackend("127.0.11.1:7000")
		c09TCPBackend("127.0.11.2:7000")
	}
	s.UDPPeer("127.0.0.31:7100")
	s.UDPPeer("127.0.0.32:7100")
	uaA := s.UDPPeer("127.0.0.9:5060")
	uaC := s.UDPPeer("127.0.0.7:5060")
	cliB, err := s.TCPDial("127.0.0.8:0", "127.0.0.2:5062")
	if err != nil {
		panic(err)
	}
	s.Run()
	// ordinary background noise before the window that is explored: a NAT keep-alive (CRLF CRLF) and a
	// stray non-SIP datagram on each UDP listener
	uaA.Send("127.0.0.1:5060", []byte("\r\n\r\n"))
	uaC.Send("127.0.0.2:5060", []byte("\r\n\r\n"))
	uaC.Send("127.0.0.1:5060", []byte{0, 1, 0, 0, 0x21, 0x12, 0xa4, 0x42})
	s.Run()
	s.EmittedAll()
	// from here on the schedule is explored: stimuli are injected without waiting in between
	s.W.SetExplore(vrt.KSched|vrt.KSelect, prefix)
	uaA.Send("127.0.0.1:5060", c09Req("A", "UDP", "127.0.0.9:5060", ""))
	cliB.Write(c09Req("B", "TCP", "127.0.0.8:5060", ""))
	if scenario == "tcp-backend-churn" {
		// two more requests on listener 1: its host-name TCP backend is connected, removed (closed) and replaced meanwhile
		uaC.Send("127.0.0.1:5060", c09Req("C", "UDP", "127.0.0.7:5060", ""))
		uaA.Send("127.0.0.1:5060", c09Req("D", "UDP", "127.0.0.9:5060", ""))
	}
	if scenario == "shrink" || scenario == "shrink-first" {
		// three dispatches on listener 1 walk its whole rotation while one of the three backends disappears
		uaC.Send("127.0.0.1:5060", c09Req("C", "UDP", "127.0.0.7:5060", ""))
		uaA.Send("127.0.0.1:5060", c09Req("D", "UDP", "127.0.0.9:5060", ""))
	}
	if scenario == "static-routes" {
		// requests on both listeners whose To host is decided by the (shared) static route table
		st := func(id, src, host string) []byte {
			return MsgSpec{Method: "OPTIONS", RURI: "sip:x@foreign.example.net", Vias: []string{"SIP/2.0/UDP " + src + ";branch=z9hG4bK" + id}, From: "<sip:" + id + "@ua.example.net>;tag=f", To: "<sip:x@" + host + ">",
				CallID: "c09-" + id, CSeq: "1 OPTIONS"}.Build().Render()
		}
		uaA.Send("127.0.0.1:5060", st("D", "127.0.0.9:5060", "a.wild.example.org"))
		uaC.Send("127.0.0.2:5060", st("C", "127.0.0.7:5060", "b.wild.example.org"))
		uaA.Send("127.0.0.1:5060", st("E", "127.0.0.9:5060", "exact.example.org"))
	}
	if scenario == "named-hops" {
		// requests routed to next hops given by host name: both loops resolve names while relaying
		uaA.Send("127.0.0.1:5060", c09Req("D", "UDP", "127.0.0.9:5060", "<sip:nh1.example.net:7100;lr>"))
		uaC.Send("127.0.0.2:5060", c09Req("C", "UDP", "127.0.0.7:5060", "<sip:nh2.example.net:7100;lr>"))
	}
	if scenario == "three-clients" {
		// same Via host as client A, through the other listener: both loops learn the same key
		uaC.Send("127.0.0.2:5060", c09Req("C", "UDP", "127.0.0.9:5060", ""))
	}
	if scenario == "shrink" {
		vnet.SetHost("be1.example.net", false, "127.0.11.1")
	} else if scenario == "shrink-first" {
		vnet.SetHost("be1.example.net", false, "127.0.11.2") // the address at position 0 of the rotation vanishes
	} else {
		vnet.SetHost("be1.example.net", false, "127.0.11.2")
	}
	s.W.Advance(2e9) // the periodic resolver wakes up: remove 127.0.11.1, add 127.0.11.2 through the real callback path
	s.Run()
	res := c09Result{trace: s.W.TraceCopy()}
	if vd := s.Verdict(); vd != "" {
		res.clause, res.detail = "health", vd+"\n"+s.CrashDetail()
		if strings.HasPrefix(vd, "crash") {
			res.clause = "crash"
		} else if strings.HasPrefix(vd, "deadlock") {
			res.clause = "deadlock"
		}
		return res
	}
	// oracle from the packet log only
	log := s.EmittedAll()
	reqTo := map[string][]string{}
	respTo := map[string][]string{}
	for _, p := range log {
		if p.Proto == "dial" {
			continue
		}
		for _, id := range []string{"A", "B", "C", "D", "E"} {
			if bytes.Contains(p.Data, []byte("Call-ID: c09-"+id+"\r\n")) {
				if bytes.HasPrefix(p.Data, []byte("SIP/2.0")) {
					respTo[id] = append(respTo[id], fmt.Sprintf("%s>%s#%d", p.Proto, p.To, p.Conn))
				} else {
					reqTo[id] = append(reqTo[id], p.To)
				}
			}
		}
	}
	own := map[string][]string{"A": {"127.0.11.1:7000", "127.0.11.2:7000", "127.0.1.2:7000"}, "B": {"127.0.1.3:7000", "127.0.1.4:7000"}, "C": {"127.0.1.3:7000", "127.0.1.4:7000"}}
	ids := []string{"A", "B"}
	if scenario == "three-clients" {
		ids = append(ids, "C")
	}
	if scenario == "tcp-backend-churn" || scenario == "shrink" || scenario == "shrink-first" {
		own["C"], own["D"] = own["A"], own["A"]
		ids = append(ids, "C", "D")
	}
	if scenario == "named-hops" {
		own["C"], own["D"] = []string{"127.0.0.32:7100"}, []string{"127.0.0.31:7100"}
		ids = append(ids, "C", "D")
	}
	if scenario == "static-routes" {
		own["C"], own["D"], own["E"] = []string{"127.0.0.31:7100"}, []string{"127.0.0.31:7100"}, []string{"127.0.0.32:7100"}
		ids = append(ids, "C", "D", "E")
	}
	churn := scenario == "tcp-backend-churn" || scenario == "shrink" || scenario == "shrink-first"
	var oc []string
	for _, id := range ids {
		to := reqTo[id]
		if len(to) > 1 {
			res.clause, res.detail = "request-to-several-backends", fmt.Sprintf("request %s was sent to %v", id, to)
			return res
		}
		if len(to) == 0 {
			// allowed only for the listener whose backend set changes (the removal may overlap the dispatch)
			if id != "A" && !(churn && id != "B") {
				res.clause, res.detail = "request-lost", fmt.Sprintf("request %s reached no backend although its listener's backends did not change", id)
				return res
			}
			oc = append(oc, id+":none")
			continue
		}
		ok := false
		for _, o := range own[id] {
			if o == to[0] {
				ok = true
			}
		}
		if !ok {
			res.clause, res.detail = "request-to-foreign-backend", fmt.Sprintf("request %s went to %s, not a backend of its listener %v", id, to[0], own[id])
			return res
		}
		oc = append(oc, id+":"+to[0])
		if (scenario == "named-hops" && (id == "C" || id == "D")) || (scenario == "static-routes" && (id == "C" || id == "D" || id == "E")) {
			continue // the next hops are sinks
		}
		// the response returns to the sender
		want := map[string]string{"A": "udp>127.0.0.9:5060", "C": "udp>127.0.0.7:5060", "D": "udp>127.0.0.9:5060"}[id]
		got := respTo[id]
		if id == "B" {
			want = fmt.Sprintf("tcp>%s#%d", cliB.LocalString(), cliB.Peer().ID())
		}
		if churn && id != "B" {
			// answers of a backend that is being replaced, and answers over its fresh connection, are don't-cares here
			continue
		}
		if id == "A" && to[0] == "127.0.11.1:7000" {
			// the answering backend is being removed: its answer is a don't-care
			continue
		}
		found := false
		for _, g := range got {
			if strings.HasPrefix(g, want) {
				found = true
			}
		}
		if !found || len(got) != 1 {
			res.clause, res.detail = "response-not-returned-to-sender", fmt.Sprintf("request %s went to %s; its response should return over %s exactly once, responses seen: %v", id, to[0], want, got)
			return res
		}
	}
	if scenario == "shrink" || scenario == "shrink-first" {
		// stable period afterwards (default schedule): the vanished address receives nothing further
		gone := map[string]string{"shrink": "127.0.11.2:7000", "shrink-first": "127.0.11.1:7000"}[scenario]
		for k := 0; k < 4; k++ {
			uaA.Send("127.0.0.1:5060", c09Req(fmt.Sprintf("P%d", k), "UDP", "127.0.0.9:5060", ""))
			s.Run()
		}
		for _, p := range s.EmittedAll() {
			if p.Proto != "dial" && p.To == gone && bytes.Contains(p.Data, []byte("Call-ID: c09-P")) {
				res.clause, res.detail = "request-to-removed-backend", fmt.Sprintf("%s no longer resolves for the host name, but a request sent after the change went to it", gone)
				return res
			}
		}
		if vd := s.Verdict(); vd != "" {
			res.clause, res.detail = "health", vd+"\n"+s.CrashDetail()
			return res
		}
	}
	res.outcome = strings.Join(oc, " ")
	return res
}

func c09RaceRun(c *Ctx) {
	type plan struct {
		scenario string
		bound    int
	}
	plans := []plan{{"two-clients", 2}, {"tcp-backend-churn", 1}, {"shrink", 1}, {"shrink-first", 1}, {"named-hops", 1}, {"static-routes", 2}, {"connections-lost", 1}, {"clients-hang-up", 2}}
	if c.Thorough() {
		plans = []plan{{"two-clients", 3}, {"three-clients", 3}, {"tcp-backend-churn", 2}, {"shrink", 2}, {"shrink-first", 2}, {"named-hops", 2}, {"static-routes", 2}, {"connections-lost", 2}, {"clients-hang-up", 3}}
	}
	if v := os_Getenv("VERIF_C09_BOUND"); v != "" {
		var b int
		fmt.Sscanf(v, "%d", &b)
		for i := range plans {
			plans[i].bound = b
		}
	}
	only := os_Getenv("VERIF_C09_ONLY") // development aid: one scenario
	for _, pl := range plans {
		pl := pl
		if only != "" && pl.scenario != only {
			continue
		}
		n, done := ExploreChoices(c, pl.bound, func(prefix []int) []vrt.Point {
			r := c09Exec(pl.scenario, prefix)
			cs := c09Case{pl.scenario, prefix}
			c.Res.Evaluations++
			c.Res.Executions++
			c.Res.Transitions += int64(len(r.trace))
			if len(prefix) > 0 {
				c.Res.Nontrivial++
			}
			if c.Res.Executions%500 == 1 {
				c.Sample(cs)
			}
			if r.clause != "" {
				c.Violate(r.clause+"|"+pl.scenario, r.clause, fmt.Sprintf("scenario %s, schedule %v:\n%s", pl.scenario, prefix, r.detail), cs)
			} else {
				c.Outcome(pl.scenario + ": " + r.outcome)
			}
			c.RaceCheck(cs)
			return r.trace
		})
		c.Res.States += n
		if done && pl.bound > c.Res.MaxDev {
			c.Res.MaxDev = pl.bound
		}
		if !done {
			c.Cap(fmt.Sprintf("schedule search of %s with %d deviations stopped by the internal deadline", pl.scenario, pl.bound))
		}
	}

	// two call flows at once (zz_flows2.go): every explored execution under the race detector
	if only != "" {
		return
	}
	RunFlowsConcurrentRace(c, flowExactlyOnce(true), flowExactlyOnce(false), flowTransparent)
}

var _ = net.IPv4zero

func init() {
	addCheck(&Check{ID: "C09", Level: "model_checking", Race: true,
		Rule:    "stateless depth-first search over schedules with deviation bounding (every non-default choice of the next goroutine or the firing select case costs one deviation) of the REAL proxy built with -race: two listens entries of one service (each UDP+TCP listener, each with its own UDP and TCP backend; one backend by host name), a UDP client on listener 1 and a TCP client on listener 2 (thorough: plus a UDP client on listener 2 announcing the same Via host), reactive backend doubles answering every request, and a membership change (remove + add) through the real resolver callback path, all injected without waiting, after a set-up that includes a CRLF keep-alive and a non-SIP datagram on the UDP listeners; scenarios two-clients (<=2 deviations, thorough <=3), three-clients (thorough <=2), tcp-backend-churn (host-name TCP backend connected, removed and replaced while three requests are dispatched; <=1, thorough <=2), shrink / shrink-first (a host name resolving to two of listener 1's three backends loses its second / its first address while three requests walk the rotation, followed by a stable period in which the vanished address must receive nothing; <=1, thorough <=2), named-hops (requests on both listeners carry Route headers naming next hops by host name, resolved through the simulated DNS, while the membership changes; <=1, thorough <=2), static-routes (requests on both listeners are routed by the shared static route table - wildcard and exact entries - at the same time; <=2), connections-lost (both TCP backend connections of listener 1 were closed by their peers; two requests that have to re-connect and a TCP client on listener 2 arrive at once; <=1, thorough <=2), clients-hang-up (a TCP client sends and closes at once, the TCP backend of the other entry sends a request over the connection the proxy dialled and hangs up, while requests are in flight; <=2, thorough <=3), and the concurrent flow pass (two canonical call flows at once through one proxy: second caller over the other transport / through a second listens entry / over a connection opened with its first message; <=1); every execution is checked by the oracle on the packet log AND by the Go race detector, whose hand-off-blind view is obtained by a norace spin scheduler; states = executions, transitions = choice points visited; non-trivial = execution with at least one deviation",
		Assume:  []string{"scheduling points are synchronisation operations, select, socket reads; unsynchronised accesses are reported by the race detector on every explored execution", "socket operations carry exactly the happens-before edges the Go runtime gives them on unix (per-descriptor ordering; global ioSync word for stream read/write; none for datagrams)", "a request whose chosen backend is removed concurrently may be lost (the statement's 'registered at that moment')"},
		Run:     func(c *Ctx) {},
		RaceRun: c09RaceRun,
		Replay: func(c *Ctx, raw json.RawMessage) string {
			var cs c09Case
			json.Unmarshal(raw, &cs)
			if cl, ok := replayDual(raw, flowExactlyOnce(true), flowExactlyOnce(false), flowTransparent); ok {
				return cl
			}
			r := c09Exec(cs.Scenario, cs.Choices)
			return r.clause
		}})
}
