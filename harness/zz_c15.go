//go:build verif && (c15 || all)

package main

import (
	"encoding/json"
	"fmt"
	"sort"
	"strings"
	"time"

	"github.com/ochinchina/sipproxy/vrt/vtime"
)

// C15 — dialog pins live exactly as long as promised and are forgotten on termination
// (DESIGN.md §4 C15). Time is the virtual clock: expiry is decided at T-1ms / T+1ms instead of
// by sleeping.

var c15T = 10 // dialogTimeout in seconds (a mode name ending in "@40" runs one execution with 40)

type c15Ev struct {
	Kind  string `json:"kind"` // est | probe | bye | notify | tick | traffic
	D     int    `json:"d"`
	Exp   string `json:"expires,omitempty"` // est/traffic: none | 5 | 30 | max
	Code  int    `json:"code,omitempty"`
	State string `json:"state,omitempty"`
	MS    int64  `json:"ms,omitempty"`
}

func (e c15Ev) String() string {
	switch e.Kind {
	case "est":
		return fmt.Sprintf("est%d(expires=%s)", e.D, e.Exp)
	case "probe":
		return fmt.Sprintf("probe%d", e.D)
	case "bye":
		return fmt.Sprintf("bye%d(%d)", e.D, e.Code)
	case "reinv":
		return fmt.Sprintf("re-invite%d(%d)", e.D, e.Code)
	case "notify":
		return fmt.Sprintf("notify%d(%s)", e.D, e.State)
	case "tick":
		return fmt.Sprintf("tick(%dms)", e.MS)
	case "traffic":
		return fmt.Sprintf("traffic(expires=%s)", e.Exp)
	}
	return e.Kind
}

func (e c15Ev) typ() string {
	switch e.Kind {
	case "est":
		return "est(" + e.Exp + ")"
	case "tick":
		return fmt.Sprintf("tick(%d)", e.MS)
	case "traffic":
		return "traffic(" + e.Exp + ")"
	case "notify":
		return "notify(" + e.State + ")"
	case "bye":
		return fmt.Sprintf("bye(%d)", e.Code)
	case "reinv":
		return fmt.Sprintf("re-invite(%d)", e.Code)
	}
	return e.Kind
}

type c15Case struct {
	Mode string  `json:"mode"` // yaml | env
	Hist []c15Ev `json:"history"`
}

func c15ExpSeconds(s string) int64 {
	switch s {
	case "5":
		return 5
	case "30":
		return 30
	case "max":
		return 2147483647
	case "080":
		return 80
	}
	return 0
}

// c15ExpText: how the value is written in the header (delta-seconds = 1*DIGIT: leading zeros are legal)
func c15ExpText(s string) string {
	if s == "080" {
		return "080"
	}
	return fmt.Sprint(c15ExpSeconds(s))
}

type c15World struct {
	w       *RelayWorld
	seq     int
	traffic []int64 // virtual times (ns) of events that relayed a request to a backend
}

func (x *c15World) now() int64 { return x.w.S.W.NowNS }

func (x *c15World) branch() string { x.seq++; return fmt.Sprintf("z9hG4bKq%d", x.seq) }

var c15Backends = []string{"127.0.1.1:7000", "127.0.1.2:7000", "127.0.1.3:7000"}

func c15Start(mode string) *c15World {
	cfg := RCfg{Name: "svc.example.com", DialogTimeout: c15T, Listens: []RListen{{Addr: "127.0.0.1", UDP: 5060, Backends: []string{"udp://" + c15Backends[0], "udp://" + c15Backends[1], "udp://" + c15Backends[2]}}}}
	o := SimOpts{}
	if mode == "env" {
		cfg.DialogTimeout = 0
		o.Env = map[string]string{"DEFAULT_DIALOG_TIMEOUT": fmt.Sprint(c15T)}
	}
	if mode == "main" {
		o.Main = true
	}
	return &c15World{w: StartRelayWorld(o, cfg)}
}

const c15UA, c15Lst = "127.0.0.9:5060", "127.0.0.1:5060"

// request sends a request to the service and returns the backend address(es) it went to.
func (x *c15World) request(method string, d int, inDialog bool, extra ...WHdr) ([]string, *WMsg) {
	to := "<sip:bob@svc.example.com>"
	if inDialog {
		to += fmt.Sprintf(";tag=t%d", d)
	}
	m := MsgSpec{Method: method, RURI: "sip:bob@svc.example.com", Vias: []string{"SIP/2.0/UDP " + c15UA + ";branch=" + x.branch()}, From: fmt.Sprintf("<sip:alice%d@ua.example.net>;tag=f%d", d, d), To: to,
		CallID: fmt.Sprintf("c15-%d", d), CSeq: fmt.Sprintf("%d %s", x.seq, method), Extra: extra}.Build()
	x.w.Observe()
	x.w.SendUDP(c15UA, c15Lst, m.Render())
	obs := x.w.Observe()
	var tos []string
	var rel *WMsg
	for _, p := range obs.Pkts {
		tos = append(tos, p.To)
		rel, _ = ReadWire(p.Data)
	}
	if len(tos) > 0 {
		x.traffic = append(x.traffic, x.now())
	}
	return tos, rel
}

// c15Exec replays a history; returns state key, violated clause, detail.
func c15Exec(mode string, hist []c15Ev) (string, string, string) {
	if strings.HasSuffix(mode, "@40") {
		// a dialog timeout above the 32 s of SIP's transaction timers
		mode = strings.TrimSuffix(mode, "@40")
		c15T = 40
		defer func() { c15T = 10 }()
	}
	x := c15Start(mode)
	defer x.w.Close()
	T := int64(c15T) * 1e9
	type dlg struct {
		backend string
		relayed *WMsg
		lo, hi  int64  // must hold before lo, must not hold after hi (virtual ns); 0/0 = never pinned
		pinned  string // "yes" | "no" | "unknown"
		est     int
	}
	ds := []*dlg{{pinned: "no"}, {pinned: "no"}}
	margin := int64(time.Millisecond)
	for i, ev := range hist {
		desc := fmt.Sprintf("step %d %v of %v (dialogTimeout %d s via %s)", i, ev, hist, c15T, mode)
		d := ds[ev.D]
		switch ev.Kind {
		case "tick":
			x.w.S.W.Advance(ev.MS * 1e6)
		case "traffic":
			var extra []WHdr
			if e := c15ExpSeconds(ev.Exp); e > 0 {
				extra = append(extra, WHdr{"Expires", fmt.Sprint(e)})
			}
			tos, _ := x.request("OPTIONS", 9, false, extra...)
			if len(tos) != 1 {
				return "", "unrelated-request-not-relayed-once", fmt.Sprintf("%s: %v", desc, tos)
			}
		case "est":
			if d.relayed == nil {
				tos, rel := x.request("INVITE", ev.D, false)
				if len(tos) != 1 || rel == nil {
					return "", "invite-not-relayed-once", fmt.Sprintf("%s: %v", desc, tos)
				}
				d.backend, d.relayed = tos[0], rel
			}
			if d.est >= 2 {
				return "", "invalid", ""
			}
			d.est++
			var extra []WHdr
			L := T
			if e := c15ExpSeconds(ev.Exp); e > 0 {
				extra = append(extra, WHdr{"Expires", c15ExpText(ev.Exp)})
				if e*1e9 > L {
					L = e * 1e9
				}
			}
			r := ResponseTo(d.relayed, 200, fmt.Sprintf("t%d", ev.D), extra...)
			t0 := x.now()
			x.w.Observe()
			x.w.SendUDP(d.backend, c15Lst, r.Render())
			x.w.Observe()
			t1 := x.now()
			// the pin must hold before the smallest and must not hold after the largest expiry of the
			// establishing responses seen since the pin was last dissolved
			if d.pinned == "no" || d.lo == 0 {
				d.lo, d.hi = t0+L, t1+L
			} else {
				if t0+L < d.lo {
					d.lo = t0 + L
				}
				if t1+L > d.hi {
					d.hi = t1 + L
				}
			}
			if d.pinned != "unknown" {
				d.pinned = "yes"
			}
		case "reinv":
			// a re-INVITE inside the established dialog that the answering backend rejects: the dialog goes on as
			// before. (The tree re-binds on every INVITE response that carries both tags, with the plain dialog
			// timeout; the reference counts the answer as one more establishing response without Expires.)
			if d.pinned != "yes" {
				return "", "invalid", ""
			}
			tos, rel := x.request("INVITE", ev.D, true)
			if len(tos) != 1 || rel == nil {
				return "", "reinvite-not-relayed-once", fmt.Sprintf("%s: %v", desc, tos)
			}
			t0 := x.now()
			x.w.SendUDP(tos[0], c15Lst, ResponseTo(rel, ev.Code, "").Render())
			x.w.Observe()
			t1 := x.now()
			if tos[0] == d.backend {
				if t0+T < d.lo {
					d.lo = t0 + T
				}
				if t1+T > d.hi {
					d.hi = t1 + T
				}
			} else {
				d.pinned = "unknown" // the re-INVITE itself strayed (judged by the probes of other histories)
			}
		case "probe":
			if d.relayed == nil {
				return "", "invalid", ""
			}
			// k+1 = 4 consecutive in-dialog requests: a pin sends all of them to the answering
			// backend, the rotation spreads them
			t0 := x.now()
			var seen []string
			for k := 0; k < 4; k++ {
				tos, _ := x.request("INFO", ev.D, true)
				if len(tos) != 1 {
					return "", "probe-not-relayed-once", fmt.Sprintf("%s: %v", desc, tos)
				}
				seen = append(seen, tos[0])
			}
			t1 := x.now()
			allPinned := true
			distinct := map[string]bool{}
			for _, s := range seen {
				distinct[s] = true
				if s != d.backend {
					allPinned = false
				}
			}
			switch {
			case d.pinned == "unknown":
			case d.pinned == "yes" && t1 < d.lo-margin:
				if !allPinned {
					return "", "pin-not-honoured-within-lifetime", fmt.Sprintf("%s: probes at +%.3f s after the first establishing response must reach %s (lifetime ends at +%.3f s at the earliest) but went to %v", desc, float64(t1)/1e9, d.backend, float64(d.lo)/1e9, seen)
				}
			case d.pinned == "no" || (d.pinned == "yes" && t0 > d.hi+margin):
				if len(distinct) < 3 {
					why := "the pin was dissolved"
					if d.pinned == "yes" {
						why = fmt.Sprintf("the lifetime ended at +%.3f s at the latest", float64(d.hi)/1e9)
					}
					return "", "pin-honoured-after-it-ended", fmt.Sprintf("%s: probes at +%.3f s must be load-balanced over the 3 backends (%s) but went to %v", desc, float64(t0)/1e9, why, seen)
				}
				d.pinned = "no"
			}
		case "bye":
			if d.pinned != "yes" {
				return "", "invalid", ""
			}
			tos, rel := x.request("BYE", ev.D, true)
			if len(tos) != 1 || rel == nil {
				return "", "bye-not-relayed-once", fmt.Sprintf("%s: %v", desc, tos)
			}
			r := ResponseTo(rel, ev.Code, "")
			x.w.SendUDP(tos[0], c15Lst, r.Render())
			x.w.Observe()
			d.pinned = "no"
			d.lo, d.hi = 0, 0
		case "notify":
			if d.pinned != "yes" {
				return "", "invalid", ""
			}
			tos, _ := x.request("NOTIFY", ev.D, true, WHdr{"Event", "dialog"}, WHdr{"Subscription-State", ev.State})
			if len(tos) != 1 {
				return "", "notify-not-relayed-once", fmt.Sprintf("%s: %v", desc, tos)
			}
			switch ev.State {
			case "terminated":
				d.pinned = "no"
				d.lo, d.hi = 0, 0
			case "terminated;reason=timeout":
				d.pinned = "unknown"
			}
		}
		if vd := x.w.S.Verdict(); vd != "" {
			return "", "health", desc + ": " + vd
		}
		// table invariant under ongoing traffic: no entry whose expiry lies more than 2T in the past
		if cl, det := c15Invariant(x, T, desc); cl != "" {
			return "", cl, det
		}
	}
	// state key: reference state + implementation table relative to now
	var b strings.Builder
	now := x.now()
	rel := func(t int64) int64 { return (t - now) / 1e6 }
	for i, d := range ds {
		fmt.Fprintf(&b, "d%d:%s,%s,%d,%d,%d|", i, d.backend, d.pinned, rel(d.lo), rel(d.hi), d.est)
	}
	nowT := vtime.Base().Add(time.Duration(now))
	pins, sweep, ok1 := wbDialogTable(x.w.S.Proxies()[0])
	rot, ok2 := wbRotation(x.w.S.RoundRobins()[0])
	if !ok1 || !ok2 {
		b.WriteString("wb:" + wbDump(x.w.S.Proxies()[0]) + wbDump(x.w.S.RoundRobins()[0]))
		return b.String(), "", ""
	}
	var keys []string
	ntx := 0
	for _, pin := range pins {
		if strings.Contains(pin.Key, "z9hG4bK") {
			ntx++
			continue
		}
		keys = append(keys, fmt.Sprintf("%s=%s@%d", pin.Key, pin.Backend, pin.Expire.Sub(nowT).Milliseconds()))
	}
	sort.Strings(keys)
	fmt.Fprintf(&b, "%s|ntx=%d|clean=%d|rr=%d", strings.Join(keys, ";"), ntx, sweep.Sub(nowT).Milliseconds(), rot.Index)
	// the sweep schedule depends on when traffic last flowed
	return b.String(), "", ""
}

// c15Invariant: "none survives more than one further dialog-timeout period of ongoing traffic". Traffic is
// ongoing since s, the start of the last run of traffic events with gaps <= T/2 that reaches up to now; an entry
// that expired at e must be gone once traffic has been ongoing for more than 2T (one period plus the phase of
// the sweep) since max(e, s) - whether or not the proxy was idle between e and s.
func c15Invariant(x *c15World, T int64, desc string) (string, string) {
	if len(x.traffic) == 0 || x.now()-x.traffic[len(x.traffic)-1] > 1e6 {
		return "", "" // only checked right after a traffic event
	}
	now := x.now()
	nowT := vtime.Base().Add(time.Duration(now))
	pins, _, ok := wbDialogTable(x.w.S.Proxies()[0])
	if !ok {
		return "", "" // white-box clause not available on this tree (reported as a cap); the pin-lifetime clauses still judge
	}
	s := x.traffic[len(x.traffic)-1]
	for i := len(x.traffic) - 2; i >= 0; i-- {
		if s-x.traffic[i] > T/2 {
			break
		}
		s = x.traffic[i]
	}
	for _, pin := range pins {
		age := nowT.Sub(pin.Expire).Nanoseconds()
		e := now - age
		from := e
		if s > from {
			from = s
		}
		if now-from > 2*T {
			return "expired-pin-not-purged", fmt.Sprintf("%s: entry %q expired %.3f s ago and traffic has been flowing with gaps <= %d s for the last %.3f s (more than two dialog-timeout periods of %d s); table holds %d entries", desc, pin.Key, float64(age)/1e9, c15T/2, float64(now-s)/1e9, c15T, len(pins))
		}
	}
	return "", ""
}

// c15LongRun: pins n dialogs (every 4th with a huge Expires on an unrelated request in between),
// lets them expire and keeps traffic flowing for 3T: the table must shrink back.
func c15LongRun(c *Ctx, n int, poison bool, quietSpell ...bool) {
	x := c15Start("yaml")
	defer x.w.Close()
	T := int64(c15T) * 1e9
	quiet := len(quietSpell) > 0 && quietSpell[0]
	name := fmt.Sprintf("long-run(n=%d,huge-expires=%v)", n, poison)
	mode := fmt.Sprintf("long:%d:%v", n, poison)
	if quiet {
		name = fmt.Sprintf("long-run(n=%d,then no traffic at all for %d s)", n, 3*c15T+3)
		mode = fmt.Sprintf("long-quiet:%d", n)
	}
	if poison {
		x.w.S.W.Advance(T + 1e9) // let the first sweep become due, then schedule the next one by a huge Expires
		x.request("OPTIONS", 9, false, WHdr{"Expires", "2147483647"})
	}
	for d := 0; d < n; d++ {
		to := "<sip:bob@svc.example.com>"
		m := MsgSpec{Method: "INVITE", RURI: "sip:bob@svc.example.com", Vias: []string{"SIP/2.0/UDP " + c15UA + ";branch=" + x.branch()}, From: fmt.Sprintf("<sip:u%d@ua.example.net>;tag=f%d", d, d), To: to,
			CallID: fmt.Sprintf("long-%d", d), CSeq: "1 INVITE"}.Build()
		x.w.Observe()
		x.w.SendUDP(c15UA, c15Lst, m.Render())
		obs := x.w.Observe()
		if len(obs.Pkts) != 1 {
			c.Violate("long-run-not-relayed", "invite-not-relayed-once", name, c15Case{"long", nil})
			return
		}
		rel, _ := ReadWire(obs.Pkts[0].Data)
		x.w.SendUDP(obs.Pkts[0].To, c15Lst, ResponseTo(rel, 200, fmt.Sprintf("t%d", d)).Render())
		x.w.Observe()
		x.traffic = append(x.traffic, x.now())
		// the whole population is pinned within 0.6 T: it also expires within one period
		step := int64(10e6)
		if int64(n)*step > T*6/10 {
			step = T * 6 / 10 / int64(n)
		}
		x.w.S.W.Advance(step)
		c.Res.Executions++
	}
	tableLen := func() int {
		pins, _, _ := wbDialogTable(x.w.S.Proxies()[0])
		return len(pins)
	}
	peak := tableLen()
	if quiet {
		// a quiet spell that covers whole sweep periods: everything expires while nothing flows
		x.w.S.W.Advance(int64(3*c15T+3) * 1e9)
	}
	// now only traffic ticks: one unrelated request per second for 3T + 5 s
	for s := 0; s < 3*c15T+5; s++ {
		x.w.S.W.Advance(1e9)
		x.request("OPTIONS", 9, false)
		c.Res.Executions++
		if cl, det := c15Invariant(x, T, fmt.Sprintf("%s, %d s after the last pin", name, s+1)); cl != "" {
			c.Violate(cl+"|"+fmt.Sprintf("long-run,huge-expires=%v,quiet=%v", poison, quiet), cl, det, c15Case{mode, nil})
			return
		}
	}
	c.Res.Evaluations++
	c.Res.Nontrivial++
	final := tableLen()
	if !quiet {
		c.Count(fmt.Sprintf("long_run_peak_entries_huge_%v", poison), int64(peak))
		c.Count(fmt.Sprintf("long_run_final_entries_huge_%v", poison), int64(final))
	} else {
		c.Count("long_run_after_quiet_spell_final_entries", int64(final))
	}
	if final > peak/4+50 {
		c.Violate("table-does-not-shrink|"+fmt.Sprintf("huge-expires=%v,quiet=%v", poison, quiet), "table-does-not-shrink", fmt.Sprintf("%s: %d entries at the peak, still %d entries after %d s of continuous traffic", name, peak, final, 3*c15T+5), c15Case{mode, nil})
	}
}

// c15Undeliverable: the backend answers the BYE of a dialog whose caller came over TCP, but the
// answer cannot be delivered: the caller's connection has gone (closed / reset by the caller) and
// nothing listens on the port it announced. "Dissolved when the backend answers a BYE" does not
// depend on the relay of that answer: afterwards the dialog's identifiers are load-balanced.
// variant: 0 healthy connection (control), 1 closed by the caller, 2 reset by the caller
func c15Undeliverable(c *Ctx, variant int) {
	cfg := RCfg{Name: "svc.example.com", DialogTimeout: c15T, Listens: []RListen{{Addr: "127.0.0.1", UDP: 5060, TCP: 5062, Backends: []string{"udp://" + c15Backends[0], "udp://" + c15Backends[1], "udp://" + c15Backends[2]}}}}
	w := StartRelayWorld(SimOpts{}, cfg)
	defer w.Close()
	name := fmt.Sprintf("bye-answer-undeliverable(%s)", []string{"connection healthy", "connection closed by the caller before the answer", "connection reset by the caller before the answer"}[variant])
	cs := c15Case{fmt.Sprintf("undeliverable:%d", variant), nil}
	c.Res.Evaluations++
	c.Res.Executions++
	conn := w.Client("ua", "127.0.0.9", "127.0.0.1:5062")
	seq := 0
	req := func(method string, toTag string, tcp bool) ([]string, *WMsg) {
		seq++
		to := "<sip:bob@svc.example.com>"
		if toTag != "" {
			to += ";tag=" + toTag
		}
		tr, sentBy := "UDP", c15UA
		if tcp {
			tr, sentBy = "TCP", "127.0.0.9:6001"
		}
		m := MsgSpec{Method: method, RURI: "sip:bob@svc.example.com", Vias: []string{fmt.Sprintf("SIP/2.0/%s %s;branch=z9hG4bKud%d", tr, sentBy, seq)}, From: "<sip:alice@ua.example.net>;tag=fu", To: to,
			CallID: "c15-undeliverable", CSeq: fmt.Sprintf("%d %s", seq, method)}.Build()
		w.Observe()
		if tcp {
			w.SendTCP(conn, m.Render())
		} else {
			w.SendUDP(c15UA, c15Lst, m.Render())
		}
		var tos []string
		var rel *WMsg
		for _, p := range w.Observe().Pkts {
			tos = append(tos, p.To)
			rel, _ = ReadWire(p.Data)
		}
		return tos, rel
	}
	tos, rel := req("INVITE", "", true)
	if len(tos) != 1 || rel == nil {
		return // not constructible (C03 / C12 judge that)
	}
	be := tos[0]
	w.SendUDP(be, c15Lst, ResponseTo(rel, 200, "tu").Render())
	w.Observe()
	tos, _ = req("ACK", "tu", true)
	if len(tos) != 1 || tos[0] != be {
		return // the pin does not hold at all: C04's matter
	}
	tos, rel = req("BYE", "tu", true)
	if len(tos) != 1 || rel == nil {
		return
	}
	switch variant {
	case 1:
		conn.Close()
	case 2:
		conn.Reset()
	}
	w.S.Run()
	w.Observe()
	w.SendUDP(tos[0], c15Lst, ResponseTo(rel, 200, "tu").Render())
	w.Observe()
	if vd := w.S.Verdict(); vd != "" {
		c.Violate("health|"+name, "health", name+": "+vd, cs)
		return
	}
	c.Res.Nontrivial++
	seen := map[string]bool{}
	var order []string
	for k := 0; k < 4; k++ {
		tos, _ := req("INFO", "tu", false)
		if len(tos) != 1 {
			c.Violate("probe-not-relayed-once|"+name, "probe-not-relayed-once", fmt.Sprintf("%s: probe %d went to %v", name, k, tos), cs)
			return
		}
		seen[tos[0]] = true
		order = append(order, tos[0])
	}
	if len(seen) < 3 {
		c.Violate("pin-honoured-after-it-ended|"+name, "pin-honoured-after-it-ended", fmt.Sprintf("%s: the backend %s answered the BYE with 200, yet four later requests with the dialog's identifiers went to %v (load balancing over three backends reaches at least three)", name, be, order), cs)
	}
}

// c15LongRepin: n dialogs pinned together expire together; while the purge of that population is
// under way some of them are established again, more dialogs follow, and the re-established ones
// must still be pinned (their new lifetime has only just begun).
func c15LongRepin(c *Ctx, n int) {
	x := c15Start("yaml")
	defer x.w.Close()
	T := int64(c15T) * 1e9
	name := fmt.Sprintf("long-run-repin(n=%d)", n)
	cs := c15Case{fmt.Sprintf("repin:%d", n), nil}
	est := func(d int) string {
		tos, rel := x.request("INVITE", d, false)
		if len(tos) != 1 || rel == nil {
			return ""
		}
		x.w.SendUDP(tos[0], c15Lst, ResponseTo(rel, 200, fmt.Sprintf("t%d", d)).Render())
		x.w.Observe()
		c.Res.Executions++
		return tos[0]
	}
	for d := 0; d < n; d++ {
		if est(d) == "" {
			c.Violate("long-run-not-relayed", "invite-not-relayed-once", name, cs)
			return
		}
		x.w.S.W.Advance(1e6)
	}
	x.w.S.W.Advance(T + T/2) // every pin has expired and a purge is due
	again := []int{0, n / 4, n / 2, 3 * n / 4, n - 1}
	pinned := map[int]string{}
	for _, d := range again {
		pinned[d] = est(d)
		x.w.S.W.Advance(1e6)
	}
	for d := n; d < n+8; d++ {
		est(d)
		x.w.S.W.Advance(1e6)
	}
	for _, d := range again {
		for k := 0; k < 4; k++ {
			tos, _ := x.request("INFO", d, true)
			if len(tos) != 1 || tos[0] != pinned[d] {
				c.Violate("pin-lost-during-purge|long-run-repin", "pin-lost-during-purge", fmt.Sprintf("%s: %d dialogs were pinned and expired together; %.1f s later dialog %d was established again through backend %s (then 4 more re-established, 8 new ones); %d ms into its new lifetime of %d s an in-dialog request went to %v",
					name, n, float64(T+T/2)/1e9, d, pinned[d], (x.now()-0)/1e6%1000, c15T, tos), cs)
				return
			}
		}
	}
	if vd := x.w.S.Verdict(); vd != "" {
		c.Violate("health|long-run-repin", "health", name+": "+vd, cs)
		return
	}
	c.Res.Evaluations++
	c.Res.Nontrivial++
}

func c15Events(two bool, thorough bool) []c15Ev {
	var evs []c15Ev
	nd := 1
	if two {
		nd = 2
	}
	for d := 0; d < nd; d++ {
		for _, e := range []string{"none", "5", "30", "max", "080"} {
			if e == "080" && d > 0 {
				continue // delta-seconds written with a leading zero: first dialog only
			}
			evs = append(evs, c15Ev{Kind: "est", D: d, Exp: e})
		}
		evs = append(evs, c15Ev{Kind: "probe", D: d})
		evs = append(evs, c15Ev{Kind: "bye", D: d, Code: 200}, c15Ev{Kind: "bye", D: d, Code: 481}, c15Ev{Kind: "bye", D: d, Code: 603})
		if thorough {
			evs = append(evs, c15Ev{Kind: "bye", D: d, Code: 503}, c15Ev{Kind: "bye", D: d, Code: 302}, c15Ev{Kind: "reinv", D: d, Code: 488})
		}
		for _, s := range []string{"active", "terminated", "terminated;reason=timeout"} {
			evs = append(evs, c15Ev{Kind: "notify", D: d, State: s})
		}
	}
	for _, ms := range []int64{1000, 5000, 6000, 9998, 11000, 31000} {
		evs = append(evs, c15Ev{Kind: "tick", MS: ms})
	}
	evs = append(evs, c15Ev{Kind: "traffic", Exp: "none"}, c15Ev{Kind: "traffic", Exp: "max"})
	return evs
}

func c15Run(c *Ctx) {
	type plan struct {
		mode  string
		two   bool
		depth int
	}
	plans := []plan{{"yaml", false, 5}, {"env", false, 3}, {"main", false, 3}, {"yaml", true, 4}, {"yaml@40", false, 4}}
	if c.Thorough() {
		plans = []plan{{"yaml", false, 6}, {"env", false, 4}, {"main", false, 4}, {"yaml", true, 5}, {"yaml@40", false, 6}}
	}
	for _, pl := range plans {
		pl := pl
		evs := c15Events(pl.two, c.Thorough())
		if pl.mode == "yaml@40" {
			// dialog timeout 40 s: establishment, rejected re-INVITE, probes, clock steps around 32 s and 40 s
			evs = []c15Ev{{Kind: "est", Exp: "none"}, {Kind: "est", Exp: "5"}, {Kind: "reinv", Code: 488}, {Kind: "reinv", Code: 401}, {Kind: "probe"}, {Kind: "bye", Code: 200},
				{Kind: "tick", MS: 1000}, {Kind: "tick", MS: 6000}, {Kind: "tick", MS: 33000}, {Kind: "tick", MS: 35000}, {Kind: "tick", MS: 41000}, {Kind: "traffic", Exp: "none"}}
		}
		st, tr, done := BFSReplay(c, pl.depth, evs, true, func(h []c15Ev) (string, bool) {
			// consecutive ticks commute and add up: explore them in non-decreasing order only
			if n := len(h); n >= 2 && h[n-1].Kind == "tick" && h[n-2].Kind == "tick" && h[n-1].MS < h[n-2].MS {
				return "", false
			}
			key, cl, detail := c15Exec(pl.mode, h)
			c.Res.Executions++
			if cl == "invalid" {
				return "", false
			}
			c.Res.Evaluations++
			if len(h) > 2 {
				c.Res.Nontrivial++
			}
			if cl != "" {
				var ts []string
				for _, e := range h {
					ts = append(ts, e.typ())
				}
				c.Violate(cl+"|"+strings.Join(ts, ">"), cl, detail, c15Case{pl.mode, h})
				return "", false
			}
			c.Outcome(key)
			if len(h) == pl.depth-1 {
				c.Sample(c15Case{pl.mode, h})
			}
			return key, true
		})
		c.Res.States += st
		c.Res.Transitions += tr
		if !done {
			c.Cap("history BFS stopped by the internal deadline")
		}
	}
	if c.Worker == 0 {
		c15LongRun(c, 200, false)
	}
	if c.Worker == 1%c.NWorkers {
		c15LongRun(c, 200, true)
	}
	if c.Worker == 4%c.NWorkers {
		// a population larger than any plausible batch limit of a purge
		n := 6000
		if c.Thorough() {
			n = 30000
		}
		c15LongRun(c, n, false)
	}
	if c.Worker == 2%c.NWorkers {
		c15LongRepin(c, 200)
	}
	if c.Worker == 5%c.NWorkers {
		c15LongRun(c, 200, false, true)
	}
	if c.Worker == 3%c.NWorkers {
		c15LongRepin(c, 1000)
	}
	for variant := 0; variant < 3; variant++ {
		if c.Worker == (6+variant)%c.NWorkers {
			c15Undeliverable(c, variant)
		}
	}
	cleanupYamlFiles()
}

func init() {
	addCheck(&Check{Flows: []flowOracle{flowPinned}, ID: "C15", Level: "model_checking", Collapse: true,
		Rule:   "explicit-state BFS by replay on the VIRTUAL clock (dialogTimeout 10 s through YAML, through DEFAULT_DIALOG_TIMEOUT and through the real main()): events {establishing 200 with Expires none/5/30/2147483647/080 (repeatable), probe = 4 consecutive in-dialog requests, BYE answered 200/481/603(/503/302), NOTIFY active/terminated/terminated;reason (don't-care), clock steps 1/5/6/9.998/11/31 s, unrelated request with Expires none/2147483647}, and a plan with dialogTimeout 40 s over {establishing 200 with Expires none/5, re-INVITE answered 488/401, probe, BYE, clock steps 1/6/33/35/41 s, unrelated request} to depth 4 (thorough 6; thorough also a rejected re-INVITE among the 10 s events); one dialog to depth 5 (thorough 6), two dialogs to depth 4 (5); oracle: pinned before min(t_i+max(T,Expires_i)), load-balanced after max(...) or after termination, don't-care in between and within 1 ms of an expiry; table invariant after every traffic event: no entry whose expiry AND the start of the current run of traffic (gaps <= T/2) both lie more than 2T back; plus long runs pinning 200 dialogs (one poisoned by a huge Expires) and 6000 (thorough 30000) dialogs followed by 35 s of traffic ticks (once after a quiet spell of 33 s without any traffic), and two long runs (200 and 1000 dialogs) whose population expires together and is partly re-established while the purge is under way; plus the answer to a BYE that cannot be delivered (TCP caller closed / reset its connection, nothing listens on the announced port): the identifiers are load-balanced afterwards; non-trivial = history longer than two events",
		Assume: []string{"real-time expiry on the real binary is not replayed: a wall-clock oracle at the scale of seconds alarms falsely under load (DESIGN.md §2.8)", "consecutive clock steps are explored in non-decreasing order only (they commute)"},
		Run:    c15Run,
		Replay: func(c *Ctx, raw json.RawMessage) string {
			defer cleanupYamlFiles()
			var cs c15Case
			json.Unmarshal(raw, &cs)
			if strings.HasPrefix(cs.Mode, "undeliverable:") {
				cc := &Ctx{ID: "C15x", Res: newResult(), vmap: map[string]*Violation{}, Deadline: c.Deadline, NWorkers: 1}
				var n int
				fmt.Sscanf(cs.Mode, "undeliverable:%d", &n)
				c15Undeliverable(cc, n)
				if len(cc.Res.Violations) > 0 {
					return cc.Res.Violations[0].Clause
				}
				return ""
			}
			if strings.HasPrefix(cs.Mode, "repin:") {
				cc := &Ctx{ID: "C15x", Res: newResult(), vmap: map[string]*Violation{}, Deadline: c.Deadline, NWorkers: 1}
				var n int
				fmt.Sscanf(cs.Mode, "repin:%d", &n)
				c15LongRepin(cc, n)
				if len(cc.Res.Violations) > 0 {
					return cc.Res.Violations[0].Clause
				}
				return ""
			}
			if strings.HasPrefix(cs.Mode, "long") {
				cc := &Ctx{ID: "C15x", Res: newResult(), vmap: map[string]*Violation{}, Deadline: c.Deadline, NWorkers: 1}
				n := 200
				if strings.HasPrefix(cs.Mode, "long-quiet:") {
					fmt.Sscanf(cs.Mode, "long-quiet:%d", &n)
					c15LongRun(cc, n, false, true)
				} else {
					fmt.Sscanf(cs.Mode, "long:%d:", &n)
					c15LongRun(cc, n, strings.HasSuffix(cs.Mode, "true"))
				}
				if len(cc.Res.Violations) > 0 {
					return cc.Res.Violations[0].Clause
				}
				return ""
			}
			_, cl, _ := c15Exec(cs.Mode, cs.Hist)
			return cl
		}})
}
