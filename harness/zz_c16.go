//go:build verif && (c16 || all)

package main

import (
	"bufio"
	"bytes"
	"encoding/json"
	"fmt"
	"sort"
	"strings"
)

// C16 — dialog identity is direction-independent and discriminating (DESIGN.md §4 C16).

var c16CallIDs = []string{"a", "a-b", "b", "a-t"}
var c16Tags = []string{"t", "u", "t-u", "a", ""} // "" = absent
// the last two: a user with an escaped ':' is not the user "c" with the password "1"
var c16URIs = []string{"sip:u@h", "sip:h", "sip:u@h:5060", "sip:v@h", "sip:u@g", "sips:u@h", "tel:+1", "urn:service:sos", "sip:c%3A1@h", "sip:c:1@h"}
var c16Decos = []string{"display", "uriparam", "urihdr", "hdrparam", "compact", "oddcase", "addrspec", "tag-last"}

type c16Case struct {
	CallID, FTag, TTag, FURI, TURI string
	Swap                           bool // From/To exchanged (the other party sends)
	Response                       bool
	Deco                           []string
}

func (c c16Case) has(d string) bool {
	for _, x := range c.Deco {
		if x == d {
			return true
		}
	}
	return false
}

func c16Party(c c16Case, uri, tag string) string {
	isSIP := strings.HasPrefix(uri, "sip")
	u := uri
	if c.has("uriparam") && isSIP {
		u += ";transport=tcp;lr"
	}
	if c.has("urihdr") && isSIP {
		u += "?subject=x"
	}
	var v string
	if c.has("addrspec") && !c.has("uriparam") && !c.has("urihdr") && !c.has("display") {
		v = u
	} else {
		v = "<" + u + ">"
		if c.has("display") {
			v = "\"Some One\" " + v
		}
	}
	var pars []string
	if tag != "" {
		pars = append(pars, "tag="+tag)
	}
	if c.has("hdrparam") {
		if c.has("tag-last") {
			pars = append([]string{"x=1", "flag"}, pars...)
		} else {
			pars = append(pars, "x=1", "flag")
		}
	}
	for _, p := range pars {
		v += ";" + p
	}
	return v
}

func c16Bytes(c c16Case) []byte {
	from, to := c16Party(c, c.FURI, c.FTag), c16Party(c, c.TURI, c.TTag)
	if c.Swap {
		from, to = c16Party(c, c.TURI, c.TTag), c16Party(c, c.FURI, c.FTag)
	}
	nm := map[string]string{"from": "From", "to": "To", "call-id": "Call-ID", "via": "Via", "cseq": "CSeq"}
	if c.has("compact") {
		nm = map[string]string{"from": "f", "to": "t", "call-id": "i", "via": "v", "cseq": "CSeq"}
	}
	if c.has("oddcase") {
		for k, v := range nm {
			if len(v) > 1 {
				nm[k] = strings.ToUpper(v[:1]) + strings.ToLower(v[1:2]) + strings.ToUpper(v[2:])
			} else {
				nm[k] = strings.ToUpper(v)
			}
		}
	}
	m := &WMsg{Start: "INFO sip:x@svc.example.com SIP/2.0"}
	if c.Response {
		m.Start = "SIP/2.0 200 OK"
	}
	m.Hdrs = []WHdr{{nm["via"], "SIP/2.0/UDP 10.0.0.1:5060;branch=z9hG4bKd"}, {nm["from"], from}, {nm["to"], to}, {nm["call-id"], c.CallID}, {nm["cseq"], "2 INFO"}, {"Content-Length", "0"}}
	return m.Render()
}

// reference key per the statement; "" = no dialog.
func c16Ref(c c16Case) string {
	if c.FTag == "" || c.TTag == "" {
		return ""
	}
	a := c.FTag + "\x00" + ParseAURI(c.FURI).Core()
	b := c.TTag + "\x00" + ParseAURI(c.TURI).Core()
	if b < a {
		a, b = b, a
	}
	return c.CallID + "\x01" + a + "\x01" + b
}

func c16Impl(c c16Case) (id string, bad string) {
	if cr := guard(func() { id, bad = c16ImplInner(c) }); cr != "" {
		return "", "panic: " + cr
	}
	return
}

func c16ImplInner(c c16Case) (string, string) {
	msg, err := ParseMessage(bufio.NewReader(bytes.NewReader(c16Bytes(c))))
	if err != nil {
		return "", "undecodable: " + err.Error()
	}
	d, err := msg.GetDialog()
	if err != nil {
		return "", ""
	}
	return d, ""
}

func c16DecoSets(thorough bool) [][]string {
	sets := [][]string{nil}
	for _, d := range c16Decos {
		if d != "tag-last" {
			sets = append(sets, []string{d})
		}
	}
	sets = append(sets, []string{"hdrparam", "tag-last"})
	if !thorough {
		// upper-case compact names (F, T, I, V)
		sets = append(sets, []string{"compact", "oddcase"})
	}
	if thorough {
		n := len(c16Decos)
		for mask := 1; mask < 1<<n; mask++ {
			var s []string
			for i := 0; i < n; i++ {
				if mask&(1<<i) != 0 {
					s = append(s, c16Decos[i])
				}
			}
			if len(s) > 1 {
				sets = append(sets, s)
			}
		}
	}
	return sets
}

// c16SplitSig: what distinguishes two messages of ONE dialog that were attributed differently.
func c16SplitSig(a, b c16Case) string {
	var d []string
	fromEnd := func(c c16Case) string {
		if c.Swap {
			return c.TTag + " " + ParseAURI(c.TURI).Core()
		}
		return c.FTag + " " + ParseAURI(c.FURI).Core()
	}
	// the essential difference: which endpoint is in From; else request/response; else decoration
	switch {
	case fromEnd(a) != fromEnd(b):
		d = append(d, "direction")
	case a.Response != b.Response:
		d = append(d, "kind")
	default:
		d = append(d, "deco:"+strings.Join(a.Deco, "+")+"/"+strings.Join(b.Deco, "+"))
	}
	if ParseAURI(a.FURI).Core() == ParseAURI(a.TURI).Core() {
		d = append(d, "equal-uris")
	}
	if a.FTag == a.TTag {
		d = append(d, "equal-tags")
	}
	return strings.Join(d, ",")
}

// c16MergeSig: which identity components differ between two messages of DIFFERENT dialogs that
// were given the same identifier.
func c16MergeSig(a, b c16Case) string {
	var d []string
	if a.CallID != b.CallID {
		d = append(d, "callid")
	}
	ea := []string{a.FTag + " " + ParseAURI(a.FURI).Core(), a.TTag + " " + ParseAURI(a.TURI).Core()}
	eb := []string{b.FTag + " " + ParseAURI(b.FURI).Core(), b.TTag + " " + ParseAURI(b.TURI).Core()}
	sort.Strings(ea)
	sort.Strings(eb)
	tagsA, tagsB := []string{a.FTag, a.TTag}, []string{b.FTag, b.TTag}
	sort.Strings(tagsA)
	sort.Strings(tagsB)
	if strings.Join(tagsA, " ") != strings.Join(tagsB, " ") {
		d = append(d, "tag")
	}
	urisA, urisB := []string{ParseAURI(a.FURI).Core(), ParseAURI(a.TURI).Core()}, []string{ParseAURI(b.FURI).Core(), ParseAURI(b.TURI).Core()}
	sort.Strings(urisA)
	sort.Strings(urisB)
	if strings.Join(urisA, " ") != strings.Join(urisB, " ") {
		d = append(d, "uri")
	}
	if len(d) == 0 && strings.Join(ea, "|") != strings.Join(eb, "|") {
		d = append(d, "tag-uri-pairing")
	}
	if strings.Contains(a.CallID+a.FTag+a.TTag+b.CallID+b.FTag+b.TTag, "-") {
		d = append(d, "dash-in-value")
	}
	return strings.Join(d, ",")
}

var c16E2EHosts = [][2]string{{"h.example.net", "127.0.5.1"}, {"g.example.net", "127.0.5.1"}, {"k.example.net", "127.0.5.2"}}

// c16E2EOne returns (constructible, violation detail).
func c16E2EOne(side, a, b string) (bool, string) {
	cfg := RCfg{Name: "svc.example.com, h.example.net, g.example.net, k.example.net, 127.0.5.1, 127.0.5.2", DialogTimeout: 1200, Hosts: c16E2EHosts,
		Listens: []RListen{{Addr: "127.0.0.1", UDP: 5060, Backends: []string{"udp://127.0.1.1:7000", "udp://127.0.1.2:7000", "udp://127.0.1.3:7000"}}}}
	w := StartRelayWorld(SimOpts{}, cfg)
	defer w.Close()
	seq := 0
	party := func(u string) (string, string) {
		if side == "from" {
			return "<" + u + ">;tag=fa", "<sip:bob@svc.example.com>"
		}
		return "<sip:alice@ua.example.net>;tag=fa", "<" + u + ">"
	}
	est := func(u string) string {
		seq++
		f, t := party(u)
		m := MsgSpec{Method: "INVITE", RURI: "sip:bob@svc.example.com", Vias: []string{fmt.Sprintf("SIP/2.0/UDP 127.0.0.9:5060;branch=z9hG4bKe%d", seq)}, From: f, To: t, CallID: "e2e", CSeq: "1 INVITE"}.Build()
		w.Observe()
		w.SendUDP("127.0.0.9:5060", "127.0.0.1:5060", m.Render())
		obs := w.Observe()
		if len(obs.Pkts) != 1 {
			return ""
		}
		rel, err := ReadWire(obs.Pkts[0].Data)
		if err != nil {
			return ""
		}
		w.SendUDP(obs.Pkts[0].To, "127.0.0.1:5060", ResponseTo(rel, 200, "tt").Render())
		w.Observe()
		return obs.Pkts[0].To
	}
	probe := func(u string) []string {
		seq++
		f, t := party(u)
		m := MsgSpec{Method: "INFO", RURI: "sip:bob@svc.example.com", Vias: []string{fmt.Sprintf("SIP/2.0/UDP 127.0.0.9:5060;branch=z9hG4bKe%d", seq)}, From: f, To: t + ";tag=tt", CallID: "e2e", CSeq: fmt.Sprintf("%d INFO", seq)}.Build()
		w.Observe()
		w.SendUDP("127.0.0.9:5060", "127.0.0.1:5060", m.Render())
		var to []string
		for _, p := range w.Observe().Pkts {
			to = append(to, p.To)
		}
		return to
	}
	x, y := est(a), est(b)
	if x == "" || y == "" || x == y {
		return false, ""
	}
	pa, pb := probe(a), probe(b)
	if len(pa) != 1 || pa[0] != x || len(pb) != 1 || pb[0] != y {
		return true, fmt.Sprintf("service with hosts %v: two dialogs with the same Call-ID and tags whose %s URIs are %s and %s were answered by %s and %s; afterwards a request of the first went to %v and one of the second to %v", c16E2EHosts, side, a, b, x, y, pa, pb)
	}
	return true, ""
}

// c16E2E: the identity as the running proxy uses it (a service with a hosts section): two dialogs that
// differ only in the host of one party's URI - a configured name, the address configured for it,
// another name configured with the same address - are established through different backends; each
// must keep its own pin.
func c16E2E(c *Ctx) {
	uris := []string{"sip:u@h.example.net", "sip:u@127.0.5.1", "sip:u@g.example.net", "sip:u@k.example.net", "sip:u@127.0.5.2:5060", "sip:u@127.0.5.2"}
	for _, side := range []string{"from", "to"} {
		for _, a := range uris {
			for _, b := range uris {
				if a == b {
					continue
				}
				ok, viol := c16E2EOne(side, a, b)
				c.Res.Evaluations++
				c.Res.Executions++
				if ok {
					c.Res.Nontrivial++
					c.Count("e2e_pairs_established_through_different_backends", 1)
				}
				if viol != "" {
					c.Violate("e2e-merge|"+side, "different-dialogs-share-a-pin", viol, map[string]string{"e2e_side": side, "a": a, "b": b})
				}
			}
		}
	}
}

func c16Hash(s string) uint64 {
	h := uint64(14695981039346656037)
	for i := 0; i < len(s); i++ {
		h = (h ^ uint64(s[i])) * 1099511628211
	}
	return h
}

func c16Run(c *Ctx) {
	if c.Worker != 0 {
		return
	}
	implToRef := map[string]c16Case{}
	refToImpl := map[string]c16Case{}
	implOf := map[string]string{}
	var allIDs []uint64 // hash of the identifier of every enumerated message, in enumeration order
	decos := c16DecoSets(c.Thorough())
	for _, cid := range c16CallIDs {
		for _, ft := range c16Tags {
			for _, tt := range c16Tags {
				for _, fu := range c16URIs {
					for _, tu := range c16URIs {
						for _, swap := range []bool{false, true} {
							for _, resp := range []bool{false, true} {
								for _, dc := range decos {
									if c.Expired() {
										return
									}
									cs := c16Case{cid, ft, tt, fu, tu, swap, resp, dc}
									ref := c16Ref(cs)
									impl, bad := c16Impl(cs)
									allIDs = append(allIDs, c16Hash(impl+"\x00"+bad))
									c.Res.Evaluations++
									c.Res.Executions++
									if ref != "" {
										c.Res.Nontrivial++
									}
									if c.Res.Evaluations%40000 == 1 {
										c.Sample(map[string]any{"case": cs, "text": string(c16Bytes(cs))})
									}
									if bad != "" {
										c.Violate("undecodable|"+strings.Join(dc, "+"), "undecodable", fmt.Sprintf("%q: %s", c16Bytes(cs), bad), cs)
										continue
									}
									if (ref == "") != (impl == "") {
										cl := "dialog-without-tags"
										if impl == "" {
											cl = "no-dialog-although-both-tags"
										}
										c.Violate(cl+"|"+strings.Join(dc, "+")+fmt.Sprintf("|ftag=%v,ttag=%v,furi=%s,turi=%s", ft != "", tt != "", ParseAURI(fu).Scheme, ParseAURI(tu).Scheme), cl, fmt.Sprintf("message %q: implementation dialog %q, reference says dialog=%v", c16Bytes(cs), impl, ref != ""), cs)
										continue
									}
									if ref == "" {
										continue
									}
									c.Outcome("dialog")
									if first, ok := refToImpl[ref]; ok {
										if implOf[ref] != impl {
											c.Violate("split|"+c16SplitSig(first, cs), "same-dialog-attributed-differently",
												fmt.Sprintf("both messages belong to one dialog (same Call-ID and endpoint pairs) but get different identifiers:\n%q -> %q\n%q -> %q", c16Bytes(first), implOf[ref], c16Bytes(cs), impl), []c16Case{first, cs})
										}
									} else {
										refToImpl[ref] = cs
										implOf[ref] = impl
									}
									if first, ok := implToRef[impl]; ok {
										if c16Ref(first) != ref {
											c.Violate("merge|"+c16MergeSig(first, cs), "different-dialogs-same-identifier",
												fmt.Sprintf("the two messages differ in Call-ID, a tag or an endpoint URI but get the same identifier %q:\n%q\n%q", impl, c16Bytes(first), c16Bytes(cs)), []c16Case{first, cs})
										}
									} else {
										implToRef[impl] = cs
									}
								}
							}
						}
					}
				}
			}
		}
	}
	// volume: a long-lived process sees many more dialogs; their identifiers are pairwise distinct and
	// the identifiers computed earlier do not change
	nvol := 12000
	if c.Thorough() {
		nvol = 60000
	}
	seenVol := map[string]int{}
	for i := 0; i < nvol; i++ {
		cs := c16Case{fmt.Sprintf("vol-%d", i%97), fmt.Sprintf("f%d", i), fmt.Sprintf("t%d", i/3), fmt.Sprintf("sip:u%d@h%d.example.net", i, i%11), "sip:bob@svc.example.com", i%2 == 1, i%3 == 1, nil}
		impl, bad := c16Impl(cs)
		c.Res.Evaluations++
		c.Res.Executions++
		if j, dup := seenVol[impl]; bad != "" || impl == "" || dup {
			c.Violate("merge|volume", "different-dialogs-same-identifier", fmt.Sprintf("volume run: dialog %d got identifier %q (undecodable: %q, identifier already used by dialog %d: %v)", i, impl, bad, j, dup), cs)
			break
		}
		seenVol[impl] = i
	}
	// second enumeration: every message again, in the same order
	k := 0
	unstable := false
	for _, cid := range c16CallIDs {
		for _, ft := range c16Tags {
			for _, tt := range c16Tags {
				for _, fu := range c16URIs {
					for _, tu := range c16URIs {
						for _, swap := range []bool{false, true} {
							for _, resp := range []bool{false, true} {
								for _, dc := range decos {
									if unstable || k >= len(allIDs) || c.Expired() {
										continue
									}
									cs := c16Case{cid, ft, tt, fu, tu, swap, resp, dc}
									impl, bad := c16Impl(cs)
									c.Res.Executions++
									if c16Hash(impl+"\x00"+bad) != allIDs[k] {
										unstable = true
										c.Violate("unstable|volume", "identifier-changes-over-time", fmt.Sprintf("message %q: the identifier computed now (%q), after the whole enumeration and %d further dialogs, differs from the one computed the first time", c16Bytes(cs), impl, nvol), map[string]string{"rerun": "whole-enumeration"})
									}
									k++
								}
							}
						}
					}
				}
			}
		}
	}
	c.Count("identifiers_recomputed_after_volume", int64(k))
	c16E2E(c)
	c.Res.States = int64(len(refToImpl))
	c.Count("distinct_reference_dialogs", int64(len(refToImpl)))
	c.Count("distinct_implementation_identifiers", int64(len(implToRef)))
}

func init() {
	addCheck(&Check{Flows: []flowOracle{flowPinned}, ID: "C16", Level: "exploration", Workers: 1,
		Rule: "all assignments of Call-ID (4) x from-tag (5 incl. absent) x to-tag (5) x From URI (10, incl. an escaped colon in the user against user + password) x To URI (10), each rendered in both orientations, as request and response, with every single decoration and upper-case compact names (thorough: every subset of 8 decorations); the partition induced by GetDialog() must coincide with the partition induced by the reference key (Call-ID, unordered pair of (tag, URI core)) - checked by hashing both keys, which is equivalent to comparing all pairs; then 12000 (thorough 60000) further dialogs (pairwise distinct identifiers) after which the whole enumeration is repeated and every identifier must be the one computed the first time; plus, through a running proxy whose service has a hosts section, every ordered pair of 6 URIs that differ in host spelling (configured name, its address, another name with the same address, with / without port) on the From and on the To side: two dialogs established through different backends keep their own pins; non-trivial = message carries both tags",
		Run:  c16Run,
		Replay: func(c *Ctx, raw json.RawMessage) string {
			var e2e map[string]string
			if json.Unmarshal(raw, &e2e) == nil && e2e["rerun"] != "" {
				// history-dependent: only the whole enumeration reproduces it
				cc := &Ctx{ID: "C16", Tier: c.Tier, Res: newResult(), vmap: map[string]*Violation{}, Deadline: c.Deadline, NWorkers: 1}
				c16Run(cc)
				for _, v := range cc.Res.Violations {
					if v.Clause == "identifier-changes-over-time" {
						return v.Clause
					}
				}
				return ""
			}
			if json.Unmarshal(raw, &e2e) == nil && e2e["e2e_side"] != "" {
				if _, viol := c16E2EOne(e2e["e2e_side"], e2e["a"], e2e["b"]); viol != "" {
					return "different-dialogs-share-a-pin"
				}
				return ""
			}
			var pair []c16Case
			if err := json.Unmarshal(raw, &pair); err != nil || len(pair) != 2 {
				var one c16Case
				json.Unmarshal(raw, &one)
				impl, bad := c16Impl(one)
				if bad != "" {
					return "undecodable"
				}
				if (c16Ref(one) == "") != (impl == "") {
					return "tags"
				}
				return ""
			}
			i0, _ := c16Impl(pair[0])
			i1, _ := c16Impl(pair[1])
			same := c16Ref(pair[0]) == c16Ref(pair[1])
			if same && i0 != i1 {
				return "same-dialog-attributed-differently"
			}
			if !same && i0 == i1 {
				return "different-dialogs-same-identifier"
			}
			return ""
		}})
}
