//go:build verif

package main

// Standard relaying world: configuration value -> YAML, peers at every address of the small
// address universe, and the reference routing model written from the property statements
// (DESIGN.md Appendix A). Shares no code with the repository.

import (
	"fmt"
	"regexp"
	"sort"
	"strconv"
	"strings"

	"github.com/ochinchina/sipproxy/vrt/vnet"
)

type RListen struct {
	Addr             string
	UDP, TCP         int
	Backends         []string // udp://ip:port | tcp://ip:port
	NoReceived       string   // "" absent | "true" | "false"
	MustRR           bool
	BackendLocalPort int    // backend-local-port (0 = omitted)
	BackendLocalAddr string // backend-local-address ("" = omitted)
}

type RRoute struct {
	Dests    []string
	Protocol string
	NextHop  string
}

type RCfg struct {
	Name          string
	KeepNextHop   string
	DialogTimeout int
	Listens       []RListen
	Routes        []RRoute
	Hosts         [][2]string
}

func yq(s string) string { return strconv.Quote(s) }

func (c RCfg) proxyYAML(b *strings.Builder) {
	fmt.Fprintf(b, "- name: %s\n", yq(c.Name))
	if c.DialogTimeout != 0 {
		fmt.Fprintf(b, "  dialogTimeout: %d\n", c.DialogTimeout)
	}
	if c.KeepNextHop != "" {
		fmt.Fprintf(b, "  keepNextHopRoute: %s\n", yq(c.KeepNextHop))
	}
	b.WriteString("  listens:\n")
	for _, l := range c.Listens {
		if l.Addr == "" {
			// no address: bound to every local address
			fmt.Fprintf(b, "  - udp-port: %d\n", l.UDP)
		} else {
			fmt.Fprintf(b, "  - address: %s\n", yq(l.Addr))
		}
		if l.UDP > 0 && l.Addr != "" {
			fmt.Fprintf(b, "    udp-port: %d\n", l.UDP)
		}
		if l.TCP > 0 {
			fmt.Fprintf(b, "    tcp-port: %d\n", l.TCP)
		}
		if len(l.Backends) > 0 {
			b.WriteString("    backends:\n")
			for _, x := range l.Backends {
				fmt.Fprintf(b, "    - %s\n", yq(x))
			}
		}
		if l.NoReceived != "" {
			fmt.Fprintf(b, "    no-received: %s\n", l.NoReceived)
		}
		if l.BackendLocalPort != 0 {
			fmt.Fprintf(b, "    backend-local-port: %d\n", l.BackendLocalPort)
		}
		if l.BackendLocalAddr != "" {
			fmt.Fprintf(b, "    backend-local-address: %s\n", l.BackendLocalAddr)
		}
		if l.MustRR {
			b.WriteString("    must-record-route: true\n")
		}
	}
	if len(c.Routes) > 0 {
		b.WriteString("  route:\n")
		for _, r := range c.Routes {
			b.WriteString("  - dests:\n")
			for _, d := range r.Dests {
				fmt.Fprintf(b, "    - %s\n", yq(d))
			}
			fmt.Fprintf(b, "    protocol: %s\n    nexthop: %s\n", yq(r.Protocol), yq(r.NextHop))
		}
	}
	if len(c.Hosts) > 0 {
		b.WriteString("  hosts:\n")
		for _, h := range c.Hosts {
			fmt.Fprintf(b, "  - name: %s\n    ip: %s\n", yq(h[0]), yq(h[1]))
		}
	}
}

// YAML renders one or several services into a configuration file.
func ConfigYAML(cfgs ...RCfg) string {
	var b strings.Builder
	b.WriteString("proxies:\n")
	for _, c := range cfgs {
		c.proxyYAML(&b)
	}
	return b.String()
}

func (c RCfg) hostIP(h string) (string, bool) {
	if isIPv4(h) {
		return h, true
	}
	for _, e := range c.Hosts {
		if e[0] == h {
			return e[1], true
		}
	}
	return "", false
}

func isIPv4(s string) bool {
	p := strings.Split(s, ".")
	if len(p) != 4 {
		return false
	}
	for _, x := range p {
		n, err := strconv.Atoi(x)
		if err != nil || n < 0 || n > 255 || x == "" {
			return false
		}
	}
	return true
}

func (c RCfg) keep() bool {
	switch strings.ToLower(c.KeepNextHop) {
	case "true", "yes", "1", "on", "t", "y":
		return true
	}
	return false
}

// received-support of a listens entry per the property statement (default on).
func (l RListen) received() bool { return l.NoReceived != "true" }

// ---- reference: service match ----

func (c RCfg) names() []string {
	var out []string
	for _, n := range strings.Split(c.Name, ",") {
		out = append(out, strings.TrimSpace(n))
	}
	return out
}

// refIsService: does the Request-URI address the service or the receiving listener (C03 (3))?
func (c RCfg) refIsService(ruri string, l RListen, lport int) bool {
	u := ParseAURI(ruri)
	subject := ruri
	if u.IsSIP() {
		subject = u.User + "@" + u.Host
		port := 5060
		if u.Port != "" {
			port, _ = strconv.Atoi(u.Port)
		}
		if u.Host == l.Addr && port == lport {
			return true
		}
	}
	for _, n := range c.names() {
		if u.IsSIP() {
			if at := strings.IndexByte(n, '@'); at >= 0 {
				if u.User == n[:at] && u.Host == n[at+1:] {
					return true
				}
			} else if u.Host == n {
				return true
			}
		} else if ruri == n {
			return true
		}
		if re, err := regexp.Compile(n); err == nil && re.MatchString(subject) {
			return true
		}
	}
	return false
}

// ---- reference: static route ----

type RefHopT struct {
	Kind      string // route | static | backend | drop
	Host      string
	Port      int
	Transport string // lower case
	Supported bool
	Dest      string // ip:port after host-table resolution ("" if unresolvable)
}

func (c RCfg) refStatic(host string) (RefHopT, bool) {
	var table []string
	var items []RRoute
	for _, r := range c.Routes {
		for _, d := range r.Dests {
			// a later entry with the same pattern replaces the earlier one
			replaced := false
			for i := range table {
				if table[i] == d {
					items[i] = r
					replaced = true
				}
			}
			if !replaced {
				table = append(table, d)
				items = append(items, r)
			}
		}
	}
	pick := -1
	for i, p := range table {
		if p == host {
			pick = i
		}
	}
	if pick < 0 {
		var w []int
		for i, p := range table {
			if p != "default" && strings.Contains(p, "*") && wildMatch(p, host) {
				w = append(w, i)
			}
		}
		if len(w) > 1 {
			return RefHopT{Kind: "ambiguous"}, true
		}
		if len(w) == 1 {
			pick = w[0]
		}
	}
	if pick < 0 {
		for i, p := range table {
			if p == "default" {
				pick = i
			}
		}
	}
	if pick < 0 {
		return RefHopT{}, false
	}
	r := items[pick]
	h := RefHopT{Kind: "static", Transport: strings.ToLower(r.Protocol), Host: r.NextHop, Port: 5060}
	if strings.EqualFold(r.Protocol, "tls") {
		h.Port = 5061
	}
	if i := strings.LastIndex(r.NextHop, ":"); i >= 0 {
		h.Host = r.NextHop[:i]
		h.Port, _ = strconv.Atoi(r.NextHop[i+1:])
	}
	return h, true
}

func wildMatch(pat, s string) bool {
	if pat == "" {
		return s == ""
	}
	if pat[0] == '*' {
		for i := 0; i <= len(s); i++ {
			if wildMatch(pat[1:], s[i:]) {
				return true
			}
		}
		return false
	}
	return s != "" && pat[0] == s[0] && wildMatch(pat[1:], s[1:])
}

// ---- reference: request routing decision (C03, C13) ----

type RefDecision struct {
	Hop     RefHopT
	PopOwn  bool        // the first Route entry designates the receiving listener and is consumed
	Routes  []ANameAddr // expected Route list of the relayed request
	NoModel string      // non-empty: outside the stated domain, no expectation
}

// refDecide: li = index of the receiving listens entry, lport = port of the receiving listener.
func (c RCfg) refDecide(m *WMsg, li int, lport int) RefDecision {
	var d RefDecision
	l := c.Listens[li]
	routes, err := m.NameAddrList("route")
	if err != nil {
		d.NoModel = "undecodable Route"
		return d
	}
	if len(routes) > 0 && routes[0].URI.IsSIP() {
		u := routes[0].URI
		port := 5060
		if u.Port != "" {
			port, _ = strconv.Atoi(u.Port)
		}
		same := u.Host == l.Addr
		if !same {
			a, ok1 := c.hostIP(u.Host)
			b, ok2 := c.hostIP(l.Addr)
			same = ok1 && ok2 && a == b
		}
		if port == lport && same {
			d.PopOwn = true
			routes = routes[1:]
		}
	}
	if len(routes) > 0 {
		u := routes[0].URI
		if !u.IsSIP() {
			d.NoModel = "next-hop Route entry is not a SIP URI"
			return d
		}
		h := RefHopT{Kind: "route", Host: u.Host, Port: 5060, Transport: "udp"}
		if u.Port != "" {
			h.Port, _ = strconv.Atoi(u.Port)
		}
		if p, ok := findPar(u.Pars, "transport"); ok {
			h.Transport = strings.ToLower(p.V)
		}
		if !c.keep() {
			routes = routes[1:]
		}
		d.Hop, d.Routes = h, routes
		c.finishHop(&d.Hop)
		return d
	}
	d.Routes = routes
	tos, err := m.NameAddrList("to")
	if err == nil && len(tos) == 1 && tos[0].URI.IsSIP() {
		if h, ok := c.refStatic(tos[0].URI.Host); ok {
			if h.Kind == "ambiguous" {
				d.NoModel = "several wildcard routes match the To host"
				return d
			}
			d.Hop = h
			c.finishHop(&d.Hop)
			return d
		}
	}
	if c.refIsService(m.RequestURI(), l, lport) {
		d.Hop = RefHopT{Kind: "backend", Supported: true}
		return d
	}
	d.Hop = RefHopT{Kind: "drop"}
	return d
}

func (c RCfg) finishHop(h *RefHopT) {
	h.Supported = h.Transport == "udp" || h.Transport == "tcp"
	if ip, ok := c.hostIP(h.Host); ok {
		h.Dest = ip + ":" + strconv.Itoa(h.Port)
	}
}

// ---- the world ----

// RelayWorld is a running proxy plus peers at every address of the universe.
type RelayWorld struct {
	S    *Sim
	Cfg  []RCfg
	udp  map[string]*UDPPeer
	tcp  map[string]*TCPPeerListener
	cli  map[string]*vnet.TCPConn // driver-side client connections by name
	acc  map[string][]*vnet.TCPConn
	Main bool
}

// Universe of peer addresses: every address a generated message can legitimately be sent to.
var relayPeerAddrs = []string{
	"127.0.1.1:7000", "127.0.1.2:7000", "127.0.1.3:7000", "127.0.1.4:7000", // backends
	"127.0.2.1:5060", "127.0.2.1:5070", "127.0.2.2:5060", "127.0.2.2:5070", // route next hops
	"127.0.3.1:5080", "127.0.3.2:5090", "127.0.3.3:5060", "127.0.3.3:5061", "127.0.3.4:5085", // static next hops
	"127.0.0.9:5060", "127.0.0.9:5070", "127.0.0.8:5060", "127.0.0.8:5070", "127.0.0.7:5060", // user agents / upstream hops
}

func StartRelayWorld(o SimOpts, cfgs ...RCfg) *RelayWorld {
	w := &RelayWorld{Cfg: cfgs, udp: map[string]*UDPPeer{}, tcp: map[string]*TCPPeerListener{}, cli: map[string]*vnet.TCPConn{}, acc: map[string][]*vnet.TCPConn{}}
	w.S = StartSim(ConfigYAML(cfgs...), o)
	for _, a := range relayPeerAddrs {
		w.udp[a] = w.S.UDPPeer(a)
		w.tcp[a] = w.S.TCPListen(a)
	}
	return w
}

func (w *RelayWorld) Close() { w.S.Close() }

// SendUDP injects a datagram from a peer address to a listener and runs to quiescence.
func (w *RelayWorld) SendUDP(from, to string, data []byte) {
	p, ok := w.udp[from]
	if !ok {
		p = w.S.UDPPeer(from)
		w.udp[from] = p
	}
	p.Send(to, data)
	w.S.Run()
}

// Client returns (creating on first use) the named driver-side TCP client connection.
func (w *RelayWorld) Client(name, fromIP, to string) *vnet.TCPConn {
	if c, ok := w.cli[name]; ok {
		return c
	}
	c, err := w.S.TCPDial(fromIP+":0", to)
	if err != nil {
		panic("harness: dial " + to + ": " + err.Error())
	}
	w.cli[name] = c
	w.S.Run()
	return c
}

func (w *RelayWorld) SendTCP(c *vnet.TCPConn, data []byte) {
	c.Write(data)
	w.S.Run()
}

// Obs is what the network saw after one stimulus.
type Obs struct {
	Pkts  []vnet.Packet // data packets emitted by the proxy
	Dials []string      // dial attempts made by the proxy
}

func (w *RelayWorld) Observe() Obs {
	var o Obs
	for _, p := range w.S.EmittedAll() {
		if p.Proto == "dial" {
			o.Dials = append(o.Dials, p.To)
		} else {
			o.Pkts = append(o.Pkts, p)
		}
	}
	// keep peers' queues bounded
	for _, a := range relayPeerAddrs {
		if p, ok := w.udp[a]; ok {
			p.Take()
		}
		if l, ok := w.tcp[a]; ok {
			for {
				c := l.Accept()
				if c == nil {
					break
				}
				w.acc[a] = append(w.acc[a], c)
			}
		}
	}
	return o
}

func (o Obs) Summary() string {
	var s []string
	for _, p := range o.Pkts {
		s = append(s, p.Proto+"->"+p.To)
	}
	for _, d := range o.Dials {
		s = append(s, "dial->"+d)
	}
	sort.Strings(s)
	if len(s) == 0 {
		return "nothing"
	}
	return strings.Join(s, " ")
}
