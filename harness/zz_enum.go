//go:build verif

package main

import (
	"encoding/json"
	"fmt"
	"os"
	"runtime"
	"sort"
	"strings"
)

// Feat is one dimension of an enumerated input space: named value classes, Vals[0] is neutral.
type Feat struct {
	Name  string
	Vals  []string
	Quick int // number of leading values used in the quick tier (0 = all)
}

// EnumSpec describes an input enumeration: the complete product of the feature domains,
// restricted by Valid, each element evaluated once by Eval (DESIGN.md §2.4, §2.7).
type EnumSpec struct {
	Feats []Feat
	Valid func(v []int) bool // optional: prune combinations that make no sense
	// Reduce (optional): combinations that make sense but are left out of the full product to keep it
	// small. They are not lost: every such combination in which at most t features are non-neutral
	// (t = 3 in the quick tier, 4 in the thorough tier) is evaluated by the t-way pass of Run.
	Reduce func(v []int) bool
	Eval   func(v []int) (clause, detail string, nontrivial bool) // runs one case; clause "" = holds
	// OutcomeOf (optional) classifies the observed behaviour for the distinct-outcome count
	Sample int64 // record a sample every n cases (0 = 2000)
	// Seqs: groups of features that form a sequence (trailing elements neutral); the minimiser
	// may delete an element by shifting the later ones left
	Seqs [][]string
}

type EnumCase struct {
	V    []int             `json:"v"`
	Vals map[string]string `json:"values"`
}

func (s *EnumSpec) caseOf(v []int) EnumCase {
	m := map[string]string{}
	for i, f := range s.Feats {
		m[f.Name] = f.Vals[v[i]]
	}
	return EnumCase{V: append([]int(nil), v...), Vals: m}
}

func (s *EnumSpec) idx(name string) int {
	for i, f := range s.Feats {
		if f.Name == name {
			return i
		}
	}
	panic("no feature " + name)
}

// Val returns the value class of a feature in a vector.
func (s *EnumSpec) Val(v []int, name string) string {
	i := s.idx(name)
	return s.Feats[i].Vals[v[i]]
}

func (s *EnumSpec) sig(clause string, v []int) string {
	var parts []string
	for i, f := range s.Feats {
		if v[i] != 0 {
			parts = append(parts, f.Name+"="+f.Vals[v[i]])
		}
	}
	sort.Strings(parts)
	return clause + "|" + strings.Join(parts, ",")
}

// minimise: greedy 1-minimal vector that still violates the property (any clause: a root cause
// often surfaces under different clauses depending on the other features; the signature uses the
// clause of the minimal vector, and every other cause has its own minimal vector in the product).
func (s *EnumSpec) minimise(v []int, clause string) []int {
	cur := append([]int(nil), v...)
	for changed := true; changed; {
		changed = false
		for _, grp := range s.Seqs {
			for gi := 0; gi < len(grp); gi++ {
				if cur[s.idx(grp[gi])] == 0 {
					continue
				}
				t := append([]int(nil), cur...)
				for k := gi; k < len(grp); k++ {
					if k+1 < len(grp) {
						t[s.idx(grp[k])] = cur[s.idx(grp[k+1])]
					} else {
						t[s.idx(grp[k])] = 0
					}
				}
				if s.Valid != nil && !s.Valid(t) {
					continue
				}
				if cl, _, _ := s.Eval(t); cl != "" {
					cur = t
					changed = true
					gi--
				}
			}
		}
		for i := range cur {
			if cur[i] == 0 {
				continue
			}
			t := append([]int(nil), cur...)
			t[i] = 0
			if s.Valid != nil && !s.Valid(t) {
				continue
			}
			if cl, _, _ := s.Eval(t); cl != "" {
				cur = t
				changed = true
			}
		}
	}
	return cur
}

// Run enumerates the product (sharded over workers by case index).
func (s *EnumSpec) Run(c *Ctx) {
	n := len(s.Feats)
	dom := make([]int, n)
	for i, f := range s.Feats {
		dom[i] = len(f.Vals)
		if !c.Thorough() && f.Quick > 0 && f.Quick < dom[i] {
			dom[i] = f.Quick
		}
	}
	every := s.Sample
	if every == 0 {
		every = 2000
	}
	v := make([]int, n)
	var idx int64
	var mins []enumMin
	for {
		if (s.Valid == nil || s.Valid(v)) && (s.Reduce == nil || !s.Reduce(v)) {
			idx++
			if c.Mine(idx) {
				if c.Expired() {
					return
				}
				cl, detail, nt := s.Eval(v)
				c.Res.Evaluations++
				c.Res.Executions++
				if nt {
					c.Res.Nontrivial++
				}
				if idx%every == 1 {
					c.Sample(s.caseOf(v).Vals)
				}
				if cl != "" {
					s.attribute(c, v, cl, detail, &mins)
				}
			}
		}
		// next vector (mixed radix, last feature fastest)
		i := n - 1
		for ; i >= 0; i-- {
			v[i]++
			if v[i] < dom[i] {
				break
			}
			v[i] = 0
		}
		if i < 0 {
			break
		}
	}
	if s.Reduce == nil {
		return
	}
	// t-way pass over what Reduce left out: every choice of at most t features, every tuple of
	// non-neutral values for them, all other features neutral
	t := 3
	if c.Thorough() {
		t = 4
	}
	var rec func(start, left int)
	rec = func(start, left int) {
		if (s.Valid == nil || s.Valid(v)) && s.Reduce(v) {
			idx++
			if c.Mine(idx) && !c.Expired() {
				cl, detail, nt := s.Eval(v)
				c.Res.Evaluations++
				c.Res.Executions++
				c.Count("t_way_cases_outside_the_reduced_product", 1)
				if nt {
					c.Res.Nontrivial++
				}
				if cl != "" {
					s.attribute(c, v, cl, detail, &mins)
				}
			}
		}
		if left == 0 {
			return
		}
		for f := start; f < n; f++ {
			for x := 1; x < dom[f]; x++ {
				v[f] = x
				rec(f+1, left-1)
			}
			v[f] = 0
		}
	}
	for i := range v {
		v[i] = 0
	}
	rec(0, t)
}

type enumMin struct {
	clause string
	mv     []int
	sig    string
}

// attribute maps a failing vector to a minimal signature. A vector that contains an already
// known minimal vector is attributed to it only if neutralising that vector's features makes
// the failure disappear; otherwise the remainder is minimised on its own (another cause).
func (s *EnumSpec) attribute(c *Ctx, v []int, cl, detail string, mins *[]enumMin) {
	cur := append([]int(nil), v...)
	for round := 0; round < 4; round++ {
		var hit *enumMin
		for i := range *mins {
			m := &(*mins)[i]
			sup := true
			for j := range m.mv {
				if m.mv[j] != 0 && cur[j] != m.mv[j] {
					sup = false
					break
				}
			}
			if sup {
				hit = m
				break
			}
		}
		if hit == nil {
			break
		}
		t := append([]int(nil), cur...)
		any := false
		for j := range hit.mv {
			if hit.mv[j] != 0 {
				t[j] = 0
				any = true
			}
		}
		if !any || (s.Valid != nil && !s.Valid(t)) {
			c.Violate(hit.sig, hit.clause, detail, s.caseOf(hit.mv))
			return
		}
		if cl2, _, _ := s.Eval(t); cl2 == "" {
			c.Violate(hit.sig, hit.clause, detail, s.caseOf(hit.mv))
			return
		}
		cur = t // still failing without that cause: look for another one
	}
	mv := s.minimise(cur, cl)
	cl2, d2, _ := s.Eval(mv)
	if cl2 == "" {
		cl2, d2, mv = cl, detail, cur
	}
	sg := s.sig(cl2, mv)
	*mins = append(*mins, enumMin{cl2, mv, sg})
	c.Violate(sg, cl2, d2, s.caseOf(mv))
}

// Replay re-executes a recorded case.
func (s *EnumSpec) Replay(raw json.RawMessage) string {
	var cs EnumCase
	if err := json.Unmarshal(raw, &cs); err != nil {
		return "harness: bad case"
	}
	v := make([]int, len(s.Feats))
	for i, f := range s.Feats {
		want, ok := cs.Vals[f.Name]
		if !ok {
			continue
		}
		found := false
		for j, x := range f.Vals {
			if x == want {
				v[i], found = j, true
			}
		}
		if !found {
			return "harness: value " + want + " of feature " + f.Name + " no longer exists"
		}
	}
	cl, _, _ := s.Eval(v)
	return cl
}

func trailingAbsent(s *EnumSpec, v []int, names ...string) bool {
	seenAbsent := false
	for _, n := range names {
		if v[s.idx(n)] == 0 {
			seenAbsent = true
		} else if seenAbsent {
			return false
		}
	}
	return true
}

func joinNonAbsent(s *EnumSpec, v []int, pre string, names ...string) string {
	out := ""
	for _, n := range names {
		if x := s.Val(v, n); x != "absent" {
			out += pre + x
		}
	}
	return out
}

// AgedSpec is the second pass of an input enumeration: instead of one fresh world per case, all
// cases of one configuration are fed, one after the other, into ONE long-lived world, and every
// observation is judged by the same oracle. A case that holds on a fresh world but fails here
// depends on what the proxy processed earlier (a cache or memo gone stale, an object shared
// between messages and mutated later, state leaking between listeners) although the reference
// decision is a function of the message and the configuration alone.
type AgedSpec struct {
	Spec  *EnumSpec
	Group func(v []int) string // cases with equal key share a world; "" = not part of this pass
	Open  func(v []int) any
	Close func(w any)
	Eval  func(w any, v []int) (clause, detail string)
}

const agedMaxCases = 100000

type AgedCase struct {
	Group   string            `json:"group"`
	Vectors [][]int           `json:"vectors"` // fed in this order; the last one fails
	Values  map[string]string `json:"values_of_failing_case"`
}

func (a *AgedSpec) runSeq(vs [][]int) (string, string) {
	w := a.Open(vs[0])
	defer a.Close(w)
	cl, d := "", ""
	for i, v := range vs {
		cl, d = a.Eval(w, v)
		if cl != "" && i != len(vs)-1 {
			return "", "" // an earlier case of the sequence fails: not the scenario asked for
		}
	}
	return cl, d
}

func (a *AgedSpec) Run(c *Ctx) {
	s := a.Spec
	n := len(s.Feats)
	dom := make([]int, n)
	for i, f := range s.Feats {
		dom[i] = len(f.Vals)
		if !c.Thorough() && f.Quick > 0 && f.Quick < dom[i] {
			dom[i] = f.Quick
		}
	}
	// two passes over the product: the first fixes the order of the groups (first appearance), the
	// second collects the vectors of the groups this worker owns only
	groups := map[string][][]int{}
	var order []string
	index := map[string]int{}
	enumerate := func(visit func(v []int, k string)) {
		v := make([]int, n)
		for {
			if (s.Valid == nil || s.Valid(v)) && (s.Reduce == nil || !s.Reduce(v)) {
				if k := a.Group(v); k != "" {
					visit(v, k)
				}
			}
			i := n - 1
			for ; i >= 0; i-- {
				v[i]++
				if v[i] < dom[i] {
					break
				}
				v[i] = 0
			}
			if i < 0 {
				break
			}
		}
	}
	enumerate(func(v []int, k string) {
		if _, ok := index[k]; !ok {
			index[k] = len(order)
			order = append(order, k)
		}
	})
	enumerate(func(v []int, k string) {
		if c.Mine(int64(index[k])) {
			groups[k] = append(groups[k], append([]int(nil), v...))
		}
	})
	for gi, k := range order {
		if !c.Mine(int64(gi)) {
			continue
		}
		vs := groups[k]
		w := a.Open(vs[0])
		start := 0
		for i, v := range vs {
			if c.Expired() {
				a.Close(w)
				return
			}
			// a world lives for at most agedMaxCases cases (its packet log, connection table and
			// goroutines grow with every case); the next one starts from scratch
			if i-start >= agedMaxCases {
				a.Close(w)
				runtime.GC()
				w = a.Open(vs[0])
				start = i
				c.Count("aged_world_restarts", 1)
			}
			cl, detail := a.Eval(w, v)
			c.Res.Evaluations++
			c.Res.Executions++
			c.Res.Nontrivial++
			c.Count("aged_world_cases", 1)
			if os_Getenv("VERIF_AGED_MEM") != "" && (i-start)%500 == 499 && c.Worker == 0 {
				var ms runtime.MemStats
				runtime.GC()
				runtime.ReadMemStats(&ms)
				fmt.Fprintf(os.Stderr, "aged-mem group=%s age=%d heap=%dMB goroutines=%d\n", k, i-start+1, ms.HeapAlloc>>20, runtime.NumGoroutine())
			}
			if cl == "" {
				continue
			}
			// restart the world (it may be damaged) and find a short history that reproduces the failure
			a.Close(w)
			hist := vs[start : i+1]
			best := hist
			for k2 := 1; k2 < len(hist); k2 *= 2 {
				cand := hist[len(hist)-k2-1:]
				if cl2, _ := a.runSeq(cand); cl2 != "" {
					best = cand
					break
				}
			}
			alone, _ := a.runSeq([][]int{v})
			clause := "history-dependent-" + cl
			if alone != "" {
				clause = cl
			}
			cs := AgedCase{Group: k, Vectors: best, Values: s.caseOf(v).Vals}
			c.Violate(clause+"|aged|"+k, clause, fmt.Sprintf("configuration group %s: after %d earlier messages in the same world (alone on a fresh world: %q)\n%s", k, len(best)-1, alone, detail), cs)
			w = a.Open(vs[0])
			start = i + 1
		}
		a.Close(w)
	}
}

// Replay re-runs the recorded sequence.
func (a *AgedSpec) Replay(raw json.RawMessage) (string, bool) {
	var cs AgedCase
	if err := json.Unmarshal(raw, &cs); err != nil || len(cs.Vectors) == 0 {
		return "", false
	}
	cl, _ := a.runSeq(cs.Vectors)
	return cl, true
}
