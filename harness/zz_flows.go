//go:build verif

package main

// Canonical SIP call flows driven through the real proxy (DESIGN.md §2.4 "flow pass"). The input
// enumerations vary one message, the history searches a handful of event kinds; the flows add the
// exchange patterns a deployment produces: provisional and repeated responses, forked 200s, CANCEL,
// ACK for a non-2xx, re-INVITE accepted / rejected / sent by the callee, in-dialog OPTIONS /
// MESSAGE / UPDATE / PRACK / INFO, SUBSCRIBE / NOTIFY / refresh / un-SUBSCRIBE, REGISTER with a
// challenge, retransmitted requests, requests sent by the callee, two calls interleaved. Every flow
// is run for every configuration of flowCfgs; each property applies its own oracle to the recorded
// steps (Flows(...).Check). The set of flows x configurations x interleavings is fixed and run
// completely: nothing is sampled.

import (
	"bytes"
	"encoding/json"
	"fmt"
	"strconv"
	"strings"

	"github.com/ochinchina/sipproxy/vrt/vnet"
)

type flowCfg struct {
	CallerTCP  bool
	MustRR     bool
	NoReceived bool
	CallerRR   bool // the caller's requests already carry a Record-Route (an upstream proxy recorded itself)
	TwoVias    bool // the caller's requests come through an upstream proxy: two Via entries ...
	Joined     bool // ... comma-joined into one line (also: responses echo the Via values joined)
	lazy       bool // a TCP caller connects when it sends its first message (concurrent pass only)
	second     bool // the service has a second listens entry (127.0.0.2, own backends); only the concurrent pass sets it
}

func (c flowCfg) String() string {
	return fmt.Sprintf("caller-tcp=%v,must-rr=%v,no-received=%v,caller-rr=%v,two-vias=%v,joined=%v", c.CallerTCP, c.MustRR, c.NoReceived, c.CallerRR, c.TwoVias, c.Joined)
}

func flowCfgs() []flowCfg {
	var out []flowCfg
	for _, tcp := range []bool{false, true} {
		out = append(out, flowCfg{CallerTCP: tcp}, flowCfg{CallerTCP: tcp, MustRR: true}, flowCfg{CallerTCP: tcp, NoReceived: true}, flowCfg{CallerTCP: tcp, CallerRR: true},
			flowCfg{CallerTCP: tcp, TwoVias: true}, flowCfg{CallerTCP: tcp, TwoVias: true, Joined: true}, flowCfg{CallerTCP: tcp, TwoVias: true, Joined: true, CallerRR: true, MustRR: true})
	}
	return out
}

type flowEv struct {
	Flow, Step string
	From       string // caller | callee
	Src        string // source address on the wire
	Sent       *WMsg
	Expect     string // "" any one backend | a backend address | "caller" | "none" (must not be relayed) | "free" (no expectation)
	Pkts       []vnet.Packet
	Dials      []string
}

func (e *flowEv) relayed() *WMsg {
	if len(e.Pkts) != 1 {
		return nil
	}
	m, err := ReadWire(e.Pkts[0].Data)
	if err != nil {
		return nil
	}
	return m
}

func (e *flowEv) dest() string {
	if len(e.Pkts) != 1 {
		return ""
	}
	return e.Pkts[0].To
}

type flowRun struct {
	w      *RelayWorld
	cfg    flowCfg
	flow   string
	evs    []*flowEv
	seq    int
	conn   *vnet.TCPConn
	abort  string
	health string
	pert   *flowPert // one environment event placed before the injection with index pert.At (nil: none)
	inj    int       // injections so far
	caller string    // the caller's address (flowCaller unless two flows share one world)
	brPfx  string    // prefix of the branches this flow's parties generate
	co     *dualCoord
	lstIP  string   // address of the listens entry this flow enters through (ports 5060 udp / 5062 tcp)
	backs  []string // the backends of that entry
}

func (f *flowRun) lst() string    { return f.lstIP + ":5060" }
func (f *flowRun) lstTCP() string { return f.lstIP + ":5062" }

func (f *flowRun) callerIP() string { return strings.Split(f.caller, ":")[0] }

// flowPert is one behaviour-neutral environment event placed between two steps of a flow: time
// passing (the resolver period, the transaction timers, half a dialog timeout), traffic the
// statements say is dropped (garbage, a request no rule matches, a response without a further Via),
// another TCP client coming and going, a keep-alive of the caller. None of them may change what the
// proxy does with the flow's own messages, so the oracles are applied unchanged.
type flowPert struct {
	At   int    `json:"pert_at"`
	Kind string `json:"pert_kind"`
}

var flowPertKinds = []string{"tick-2.5s", "tick-33s", "tick-599s", "garbage-udp", "dropped-request", "stray-response", "tcp-visitor", "tcp-visitor-garbage", "caller-keepalive", "resolver-round"}

const flowStranger = "127.0.0.7:5060"

func (f *flowRun) perturb() {
	k := f.inj
	f.inj++
	if f.pert == nil || f.pert.At != k {
		return
	}
	w := f.w
	switch f.pert.Kind {
	case "tick-2.5s":
		w.S.W.Advance(2500e6)
		w.S.Run()
	case "tick-33s":
		w.S.W.Advance(33e9)
		w.S.Run()
	case "tick-599s":
		w.S.W.Advance(599e9)
		w.S.Run()
	case "resolver-round":
		// five periods of the resolver, one at a time
		for i := 0; i < 5; i++ {
			w.S.W.Advance(2001e6)
			w.S.Run()
		}
	case "garbage-udp":
		w.SendUDP(flowStranger, flowLst, []byte("\r\n\r\n"))
		w.SendUDP(flowStranger, flowLst, []byte("GARBAGE that is not SIP\r\n\r\n"))
		w.SendUDP(flowStranger, flowLst, []byte("INVITE sip:cut@svc.example.com SIP/2.0\r\nVia: SIP/2.0/UDP 127.0.0.7:5060;branch=z9hG4bKcut\r\nContent-Le"))
	case "dropped-request":
		m := MsgSpec{Method: "OPTIONS", RURI: "sip:nobody@nowhere.invalid", Vias: []string{"SIP/2.0/UDP " + flowStranger + ";branch=z9hG4bKstranger" + strconv.Itoa(k)}, From: "<sip:stranger@nowhere.invalid>;tag=s", To: "<sip:nobody@nowhere.invalid>",
			CallID: "stranger-" + strconv.Itoa(k), CSeq: "1 OPTIONS"}.Build().Render()
		w.SendUDP(flowStranger, flowLst, m)
	case "stray-response":
		m := []byte("SIP/2.0 200 OK\r\nVia: SIP/2.0/UDP 127.0.0.1:5060;branch=z9hG4bKstray\r\nFrom: <sip:stranger@nowhere.invalid>;tag=s\r\nTo: <sip:nobody@nowhere.invalid>;tag=t\r\nCall-ID: stray-" + strconv.Itoa(k) + "\r\nCSeq: 1 OPTIONS\r\nContent-Length: 0\r\n\r\n")
		w.SendUDP(flowStranger, flowLst, m)
	case "tcp-visitor", "tcp-visitor-garbage":
		c, err := w.S.TCPDial("127.0.0.7:0", flowLstTCP)
		if err == nil {
			w.S.Run()
			if f.pert.Kind == "tcp-visitor" {
				w.SendTCP(c, []byte("\r\n\r\n"))
			} else {
				w.SendTCP(c, []byte("GARBAGE that is not SIP\r\n\r\n"))
			}
			if !c.IsClosed() {
				c.Close()
			}
			w.S.Run()
		}
	case "caller-keepalive":
		if f.conn != nil {
			w.SendTCP(f.conn, []byte("\r\n\r\n"))
		} else {
			w.SendUDP(flowCaller, flowLst, []byte("\r\n\r\n"))
		}
	default:
		panic("harness: unknown flow perturbation " + f.pert.Kind)
	}
}

const flowCaller, flowLst, flowLstTCP = "127.0.0.9:5060", "127.0.0.1:5060", "127.0.0.1:5062"

var flowBackends = []string{"127.0.1.1:7000", "127.0.1.2:7000", "127.0.1.3:7000"}
var flowBackends2 = []string{"127.0.1.4:7000", "127.0.1.5:7000", "127.0.1.6:7000"}

func startFlow(cfg flowCfg, flow string) *flowRun {
	l := RListen{Addr: "127.0.0.1", UDP: 5060, TCP: 5062, MustRR: cfg.MustRR, Backends: []string{"udp://" + flowBackends[0], "udp://" + flowBackends[1], "udp://" + flowBackends[2]}}
	if cfg.NoReceived {
		l.NoReceived = "true"
	}
	ls := []RListen{l}
	if cfg.second {
		l2 := l
		l2.Addr = "127.0.0.2"
		l2.Backends = []string{"udp://" + flowBackends2[0], "udp://" + flowBackends2[1], "udp://" + flowBackends2[2]}
		ls = append(ls, l2)
	}
	rc := RCfg{Name: "svc.example.com", DialogTimeout: 1200, Listens: ls,
		Routes: []RRoute{{Dests: []string{"static.example.org"}, Protocol: "udp", NextHop: "127.0.3.1:5080"}, {Dests: []string{"static2.example.org"}, Protocol: "udp", NextHop: "127.0.3.3:5060"}}}
	f := &flowRun{w: StartRelayWorld(SimOpts{}, rc), cfg: cfg, flow: flow, caller: flowCaller, brPfx: "fl", lstIP: "127.0.0.1", backs: flowBackends}
	if cfg.CallerTCP && !cfg.lazy {
		f.conn = f.w.Client("caller", "127.0.0.9", flowLstTCP)
	}
	return f
}

func (f *flowRun) close() { f.w.Close() }

func (f *flowRun) record(step, from, src string, m *WMsg, expect string) *flowEv {
	obs := f.w.Observe()
	e := &flowEv{Flow: f.flow, Step: step, From: from, Src: src, Sent: m, Expect: expect, Pkts: obs.Pkts, Dials: obs.Dials}
	f.evs = append(f.evs, e)
	if vd := f.w.S.Verdict(); vd != "" && f.health == "" {
		f.health = fmt.Sprintf("after step %s: %s\n%s", step, vd, f.w.S.CrashDetail())
	}
	return e
}

// fromCaller injects a message of the caller (over its UDP socket or its TCP connection).
func (f *flowRun) fromCaller(step string, m *WMsg, expect string) *flowEv {
	if f.co != nil {
		return f.co.step(f, step, "caller", f.caller, m, expect)
	}
	f.perturb()
	f.w.Observe()
	if f.cfg.CallerTCP {
		f.w.SendTCP(f.conn, m.Render())
	} else {
		f.w.SendUDP(f.caller, f.lst(), m.Render())
	}
	return f.record(step, "caller", f.caller, m, expect)
}

// fromBackend injects a message of a backend (UDP from its configured address).
func (f *flowRun) fromBackend(step, backend string, m *WMsg, expect string) *flowEv {
	if f.co != nil {
		return f.co.step(f, step, "callee", backend, m, expect)
	}
	f.perturb()
	f.w.Observe()
	f.w.SendUDP(backend, f.lst(), m.Render())
	return f.record(step, "callee", backend, m, expect)
}

func (f *flowRun) branch() string { f.seq++; return fmt.Sprintf("z9hG4bK%s%d", f.brPfx, f.seq) }

type flowDlg struct {
	k       int
	fromTag string
	toTag   string
	backend string
	cseq    int
	rcseq   int // the callee's own sequence
}

func (f *flowRun) callID(k int) string { return fmt.Sprintf("flow-%s-%d@ua", f.flow, k) }

// callerReq builds a request of the caller in dialog d (toTag "" = not yet known).
func (f *flowRun) callerReq(method string, d *flowDlg, toTag string, branch string, extra ...WHdr) *WMsg {
	tr := "UDP"
	if f.cfg.CallerTCP {
		tr = "TCP"
	}
	freshBranch := branch == ""
	if branch == "" {
		branch = f.branch()
	}
	vias := []string{"SIP/2.0/" + tr + " " + f.caller + ";branch=" + branch + ";rport"}
	// CANCEL and the ACK for a non-2xx are hop-by-hop: they carry the top Via of the INVITE only (RFC 3261 9.1, 17.1.1.3)
	hopByHop := method == "CANCEL" || (method == "ACK" && !freshBranch)
	if f.cfg.TwoVias && !hopByHop {
		up := "SIP/2.0/UDP 10.2.2.2:5060;branch=" + branch + "up"
		if f.cfg.Joined {
			vias = []string{vias[0] + ", " + up}
		} else {
			vias = append(vias, up)
		}
	}
	to := "<sip:bob@svc.example.com>"
	if toTag != "" {
		to += ";tag=" + toTag
	}
	if method != "ACK" && method != "CANCEL" {
		d.cseq++
	}
	sp := MsgSpec{Method: method, RURI: "sip:bob@svc.example.com", Vias: vias, From: "\"Alice\" <sip:alice@ua.example.net>;tag=" + d.fromTag, To: to, CallID: f.callID(d.k),
		CSeq: fmt.Sprintf("%d %s", d.cseq, method), Extra: append([]WHdr{{"Contact", "<sip:alice@" + f.caller + ">"}}, extra...)}
	if f.cfg.CallerRR {
		sp.RRs = []string{"<sip:10.8.0.1;lr>"}
	}
	if method == "INVITE" || method == "UPDATE" || method == "MESSAGE" {
		sp.Body = []byte(fmt.Sprintf("v=0\r\no=alice %d %d IN IP4 %s\r\ns=%s-%s-%d\r\n", d.k, d.cseq, f.callerIP(), f.flow, method, d.cseq))
		sp.Extra = append(sp.Extra, WHdr{"Content-Type", "application/sdp"})
	}
	return sp.Build()
}

// calleeReq builds a request sent by the callee (the backend of dialog d) towards the caller; it
// reaches the caller by a Route entry.
func (f *flowRun) calleeReq(method string, d *flowDlg, extra ...WHdr) *WMsg {
	d.rcseq++
	route := "<sip:" + f.caller + ";lr>"
	if f.cfg.CallerTCP {
		route = "<sip:" + f.caller + ";transport=tcp;lr>"
	}
	sp := MsgSpec{Method: method, RURI: "sip:alice@" + f.caller, Vias: []string{"SIP/2.0/UDP " + d.backend + ";branch=" + f.branch()}, Routes: []string{route},
		From: "<sip:bob@svc.example.com>;tag=" + d.toTag, To: "\"Alice\" <sip:alice@ua.example.net>;tag=" + d.fromTag, CallID: f.callID(d.k), CSeq: fmt.Sprintf("%d %s", 100+d.rcseq, method),
		Extra: append([]WHdr{{"Contact", "<sip:bob@" + d.backend + ">"}}, extra...)}
	return sp.Build()
}

// resp builds the response of whoever received `relayed`.
func (f *flowRun) resp(relayed *WMsg, code int, toTag string, extra ...WHdr) *WMsg {
	r := ResponseTo(relayed, code, toTag, extra...)
	if f.cfg.Joined {
		// the answering side echoes the Via values joined into one line
		var vals []string
		var rest []WHdr
		at := -1
		for i, h := range r.Hdrs {
			if canonName(h.Name) == "via" {
				vals = append(vals, h.Value)
				if at < 0 {
					at = i
				}
			} else {
				rest = append(rest, h)
			}
		}
		if at >= 0 && len(vals) > 1 {
			r.Hdrs = append(append(append([]WHdr{}, rest[:at]...), WHdr{"Via", strings.Join(vals, ", ")}), rest[at:]...)
		}
	}
	return r
}

// ---- the flows ----

type flowFn func(f *flowRun, k int)

// establish: INVITE, 100, 180, 200, ACK. Returns the dialog (nil if the flow broke).
func (f *flowRun) establish(k int) *flowDlg {
	d := &flowDlg{k: k, fromTag: fmt.Sprintf("f%d", k), toTag: fmt.Sprintf("t%d", k)}
	e := f.fromCaller("INVITE", f.callerReq("INVITE", d, "", ""), "")
	rel := e.relayed()
	if rel == nil {
		f.abort = "INVITE not relayed once"
		return nil
	}
	d.backend = e.dest()
	f.fromBackend("100", d.backend, f.resp(rel, 100, ""), "caller")
	f.fromBackend("180", d.backend, f.resp(rel, 180, d.toTag), "caller")
	f.fromBackend("200", d.backend, f.resp(rel, 200, d.toTag, WHdr{"Contact", "<sip:bob@" + d.backend + ">"}), "caller")
	f.fromCaller("ACK", f.callerReq("ACK", d, d.toTag, ""), d.backend)
	return d
}

func (f *flowRun) bye(d *flowDlg) {
	e := f.fromCaller("BYE", f.callerReq("BYE", d, d.toTag, ""), d.backend)
	if rel := e.relayed(); rel != nil {
		f.fromBackend("200-BYE", e.dest(), f.resp(rel, 200, ""), "caller")
	}
}

func flowBasic(f *flowRun, k int) {
	if d := f.establish(k); d != nil {
		f.bye(d)
	}
}

func flowCalleeBye(f *flowRun, k int) {
	d := f.establish(k)
	if d == nil {
		return
	}
	e := f.fromBackend("BYE-by-callee", d.backend, f.calleeReq("BYE", d), "caller")
	if rel := e.relayed(); rel != nil {
		f.fromCaller("200-BYE-by-caller", f.resp(rel, 200, ""), d.backend)
	}
}

func flowCancel(f *flowRun, k int) {
	d := &flowDlg{k: k, fromTag: fmt.Sprintf("f%d", k), toTag: fmt.Sprintf("t%d", k)}
	br := f.branch()
	e := f.fromCaller("INVITE", f.callerReq("INVITE", d, "", br), "")
	rel := e.relayed()
	if rel == nil {
		f.abort = "INVITE not relayed once"
		return
	}
	d.backend = e.dest()
	f.fromBackend("100", d.backend, f.resp(rel, 100, ""), "caller")
	f.fromBackend("180", d.backend, f.resp(rel, 180, d.toTag), "caller")
	// CANCEL: same branch, same CSeq number, method CANCEL; it has no to-tag: any one backend (the statement pins by dialog)
	ce := f.fromCaller("CANCEL", f.callerReq("CANCEL", d, "", br), "")
	if crel := ce.relayed(); crel != nil {
		f.fromBackend("200-CANCEL", ce.dest(), f.resp(crel, 200, ""), "caller")
	}
	f.fromBackend("487", d.backend, f.resp(rel, 487, d.toTag), "caller")
	f.fromCaller("ACK-487", f.callerReq("ACK", d, d.toTag, br), d.backend)
}

func flowReject(f *flowRun, k int) {
	d := &flowDlg{k: k, fromTag: fmt.Sprintf("f%d", k), toTag: fmt.Sprintf("t%d", k)}
	br := f.branch()
	e := f.fromCaller("INVITE", f.callerReq("INVITE", d, "", br), "")
	rel := e.relayed()
	if rel == nil {
		f.abort = "INVITE not relayed once"
		return
	}
	d.backend = e.dest()
	f.fromBackend("486", d.backend, f.resp(rel, 486, d.toTag), "caller")
	f.fromCaller("ACK-486", f.callerReq("ACK", d, d.toTag, br), d.backend)
	// a new call with new identifiers afterwards
	flowBasic(f, k+50)
}

func flowRetransmit(f *flowRun, k int) {
	d := &flowDlg{k: k, fromTag: fmt.Sprintf("f%d", k), toTag: fmt.Sprintf("t%d", k)}
	inv := f.callerReq("INVITE", d, "", "")
	e := f.fromCaller("INVITE", inv, "")
	rel := e.relayed()
	if rel == nil {
		f.abort = "INVITE not relayed once"
		return
	}
	d.backend = e.dest()
	// the same bytes again (timer A): no dialog yet, so any one backend
	f.fromCaller("INVITE-retransmitted", inv.Clone(), "")
	f.fromBackend("180", d.backend, f.resp(rel, 180, d.toTag), "caller")
	f.fromBackend("180-again", d.backend, f.resp(rel, 180, d.toTag), "caller")
	ok := f.resp(rel, 200, d.toTag, WHdr{"Contact", "<sip:bob@" + d.backend + ">"})
	f.fromBackend("200", d.backend, ok, "caller")
	f.fromBackend("200-retransmitted", d.backend, ok.Clone(), "caller-later-final")
	ack := f.callerReq("ACK", d, d.toTag, "")
	f.fromCaller("ACK", ack, d.backend)
	f.fromCaller("ACK-retransmitted", ack.Clone(), d.backend)
	info := f.callerReq("INFO", d, d.toTag, "")
	f.fromCaller("INFO", info, d.backend)
	f.fromCaller("INFO-retransmitted", info.Clone(), d.backend)
	f.bye(d)
}

func flowForked(f *flowRun, k int) {
	d := &flowDlg{k: k, fromTag: fmt.Sprintf("f%d", k), toTag: fmt.Sprintf("tx%d", k)}
	e := f.fromCaller("INVITE", f.callerReq("INVITE", d, "", ""), "")
	rel := e.relayed()
	if rel == nil {
		f.abort = "INVITE not relayed once"
		return
	}
	d.backend = e.dest()
	d2 := &flowDlg{k: k, fromTag: d.fromTag, toTag: fmt.Sprintf("ty%d", k), backend: d.backend, cseq: d.cseq}
	f.fromBackend("180-leg-x", d.backend, f.resp(rel, 180, d.toTag), "caller")
	f.fromBackend("183-leg-y", d.backend, f.resp(rel, 183, d2.toTag), "caller")
	f.fromBackend("200-leg-x", d.backend, f.resp(rel, 200, d.toTag, WHdr{"Contact", "<sip:bobx@" + d.backend + ">"}), "caller")
	f.fromBackend("200-leg-y", d.backend, f.resp(rel, 200, d2.toTag, WHdr{"Contact", "<sip:boby@" + d.backend + ">"}), "caller-later-final")
	f.fromCaller("ACK-leg-x", f.callerReq("ACK", d, d.toTag, ""), d.backend)
	f.fromCaller("ACK-leg-y", f.callerReq("ACK", d2, d2.toTag, ""), d.backend)
	f.fromCaller("INFO-leg-y", f.callerReq("INFO", d2, d2.toTag, ""), d.backend)
	f.bye(d2)
	f.bye(d)
}

func flowReInvite(f *flowRun, k int) {
	d := f.establish(k)
	if d == nil {
		return
	}
	// an unrelated new call in between (the rotation moves on)
	flowBasic(f, k+50)
	// accepted re-INVITE by the caller
	e := f.fromCaller("re-INVITE", f.callerReq("INVITE", d, d.toTag, ""), d.backend)
	if rel := e.relayed(); rel != nil {
		f.fromBackend("200-re-INVITE", e.dest(), f.resp(rel, 200, d.toTag), "caller")
		f.fromCaller("ACK-re-INVITE", f.callerReq("ACK", d, d.toTag, ""), d.backend)
	}
	// new requests of other callers: the rotation is not disturbed by the re-INVITE
	for i := 0; i < 3; i++ {
		o := &flowDlg{k: k + 60 + i, fromTag: fmt.Sprintf("o%d", i)}
		f.fromCaller(fmt.Sprintf("OPTIONS-new-%d", i), f.callerReq("OPTIONS", o, "", ""), "")
	}
	// rejected re-INVITE (491) and its ACK on the same branch
	br := f.branch()
	e = f.fromCaller("re-INVITE-2", f.callerReq("INVITE", d, d.toTag, br), d.backend)
	if rel := e.relayed(); rel != nil {
		f.fromBackend("491", e.dest(), f.resp(rel, 491, d.toTag), "caller")
		f.fromCaller("ACK-491", f.callerReq("ACK", d, d.toTag, br), d.backend)
	}
	f.fromCaller("INFO-after-491", f.callerReq("INFO", d, d.toTag, ""), d.backend)
	// re-INVITE sent by the callee
	e = f.fromBackend("re-INVITE-by-callee", d.backend, f.calleeReq("INVITE", d), "caller")
	if rel := e.relayed(); rel != nil {
		f.fromCaller("200-re-INVITE-by-caller", f.resp(rel, 200, ""), d.backend)
	}
	f.fromCaller("UPDATE", f.callerReq("UPDATE", d, d.toTag, ""), d.backend)
	f.bye(d)
}

func flowInDialog(f *flowRun, k int) {
	d := f.establish(k)
	if d == nil {
		return
	}
	for _, m := range []string{"OPTIONS", "MESSAGE", "INFO", "UPDATE", "PRACK", "REFER", "NOTIFY", "PUBLISH", "X-CUSTOM"} {
		var extra []WHdr
		if m == "NOTIFY" {
			extra = []WHdr{{"Event", "dialog"}, {"Subscription-State", "active;expires=60"}}
		}
		e := f.fromCaller(m, f.callerReq(m, d, d.toTag, "", extra...), d.backend)
		if rel := e.relayed(); rel != nil {
			f.fromBackend("200-"+m, e.dest(), f.resp(rel, 200, ""), "caller")
		}
		// an unrelated request in between, so that a load-balanced in-dialog request cannot hit its backend by luck
		o := &flowDlg{k: k + 70, fromTag: "oo"}
		f.fromCaller("OPTIONS-new-after-"+m, f.callerReq("OPTIONS", o, "", ""), "")
	}
	e := f.fromBackend("OPTIONS-by-callee", d.backend, f.calleeReq("OPTIONS", d), "caller")
	if rel := e.relayed(); rel != nil {
		f.fromCaller("200-OPTIONS-by-caller", f.resp(rel, 200, ""), d.backend)
	}
	f.bye(d)
}

func flowSubscribe(f *flowRun, k int) {
	// (a) a subscription issued by the caller: the statement (C04) pins INVITE dialogs and subscriptions
	// issued by a backend only, so its later requests are load-balanced like new ones
	d := &flowDlg{k: k, fromTag: fmt.Sprintf("f%d", k), toTag: fmt.Sprintf("t%d", k)}
	e := f.fromCaller("SUBSCRIBE", f.callerReq("SUBSCRIBE", d, "", "", WHdr{"Event", "presence"}, WHdr{"Expires", "3600"}), "")
	rel := e.relayed()
	if rel == nil {
		f.abort = "SUBSCRIBE not relayed once"
		return
	}
	d.backend = e.dest()
	f.fromBackend("200-SUBSCRIBE", d.backend, f.resp(rel, 200, d.toTag, WHdr{"Expires", "3600"}), "caller")
	ne := f.fromBackend("NOTIFY-by-callee", d.backend, f.calleeReq("NOTIFY", d, WHdr{"Event", "presence"}, WHdr{"Subscription-State", "active;expires=3600"}), "caller")
	if nrel := ne.relayed(); nrel != nil {
		f.fromCaller("200-NOTIFY", f.resp(nrel, 200, ""), d.backend)
	}
	re := f.fromCaller("SUBSCRIBE-refresh", f.callerReq("SUBSCRIBE", d, d.toTag, "", WHdr{"Event", "presence"}, WHdr{"Expires", "3600"}), "")
	if rrel := re.relayed(); rrel != nil {
		f.fromBackend("200-refresh", re.dest(), f.resp(rrel, 200, d.toTag, WHdr{"Expires", "3600"}), "caller")
	}
	// (b) a subscription issued by a backend and answered by the caller: pinned to that backend
	b := &flowDlg{k: k + 1, fromTag: "as1", toTag: "bs1", backend: f.backs[1]}
	se := f.fromBackend("SUBSCRIBE-by-backend", b.backend, f.calleeReq("SUBSCRIBE", b, WHdr{"Event", "presence"}, WHdr{"Expires", "3600"}), "caller")
	srel := se.relayed()
	if srel == nil {
		return
	}
	f.fromCaller("200-SUBSCRIBE-by-caller", f.resp(srel, 200, "", WHdr{"Expires", "3600"}), b.backend)
	for i := 0; i < 2; i++ {
		o := &flowDlg{k: k + 40 + i, fromTag: fmt.Sprintf("q%d", i)}
		f.fromCaller(fmt.Sprintf("OPTIONS-new-%d", i), f.callerReq("OPTIONS", o, "", ""), "")
		// the notifier's NOTIFY is addressed to the service and belongs to the backend's subscription
		f.fromCaller(fmt.Sprintf("NOTIFY-%d", i), f.callerReq("NOTIFY", b, b.toTag, "", WHdr{"Event", "presence"}, WHdr{"Subscription-State", "active;expires=3000"}), b.backend)
	}
}

func flowRegister(f *flowRun, k int) {
	d := &flowDlg{k: k, fromTag: fmt.Sprintf("f%d", k)}
	e := f.fromCaller("REGISTER", f.callerReq("REGISTER", d, "", "", WHdr{"Expires", "600"}), "")
	if rel := e.relayed(); rel != nil {
		f.fromBackend("401", e.dest(), f.resp(rel, 401, "reg", WHdr{"WWW-Authenticate", "Digest realm=\"svc\", nonce=\"n1\""}), "caller")
	}
	e = f.fromCaller("REGISTER-with-credentials", f.callerReq("REGISTER", d, "", "", WHdr{"Expires", "600"}, WHdr{"Authorization", "Digest username=\"alice\", realm=\"svc\", nonce=\"n1\", uri=\"sip:svc.example.com\", response=\"00\""}), "")
	if rel := e.relayed(); rel != nil {
		f.fromBackend("200-REGISTER", e.dest(), f.resp(rel, 200, "reg2", WHdr{"Contact", "<sip:alice@" + f.caller + ">;expires=600"}), "caller")
	}
	for i := 0; i < 3; i++ {
		o := &flowDlg{k: k + 80 + i, fromTag: fmt.Sprintf("p%d", i)}
		pe := f.fromCaller(fmt.Sprintf("OPTIONS-ping-%d", i), f.callerReq("OPTIONS", o, "", ""), "")
		if rel := pe.relayed(); rel != nil {
			f.fromBackend(fmt.Sprintf("200-ping-%d", i), pe.dest(), f.resp(rel, 200, "pp"), "caller")
		}
	}
}

// two calls whose steps alternate
func flowInterleaved(f *flowRun, k int) {
	a := &flowDlg{k: k, fromTag: "fa", toTag: "ta"}
	b := &flowDlg{k: k + 1, fromTag: "fb", toTag: "tb"}
	ea := f.fromCaller("INVITE-a", f.callerReq("INVITE", a, "", ""), "")
	eb := f.fromCaller("INVITE-b", f.callerReq("INVITE", b, "", ""), "")
	ra, rb := ea.relayed(), eb.relayed()
	if ra == nil || rb == nil {
		f.abort = "INVITE not relayed once"
		return
	}
	a.backend, b.backend = ea.dest(), eb.dest()
	f.fromBackend("180-b", b.backend, f.resp(rb, 180, b.toTag), "caller")
	f.fromBackend("180-a", a.backend, f.resp(ra, 180, a.toTag), "caller")
	f.fromBackend("200-b", b.backend, f.resp(rb, 200, b.toTag), "caller")
	f.fromCaller("ACK-b", f.callerReq("ACK", b, b.toTag, ""), b.backend)
	f.fromBackend("200-a", a.backend, f.resp(ra, 200, a.toTag), "caller")
	f.fromCaller("INFO-b", f.callerReq("INFO", b, b.toTag, ""), b.backend)
	f.fromCaller("ACK-a", f.callerReq("ACK", a, a.toTag, ""), a.backend)
	f.fromCaller("INFO-a", f.callerReq("INFO", a, a.toTag, ""), a.backend)
	f.bye(b)
	f.fromCaller("INFO-a-2", f.callerReq("INFO", a, a.toTag, ""), a.backend)
	f.bye(a)
}

// a call that leaves by a static route (To host); afterwards the far side sends requests of the same
// call through the proxy: each is routed on its own To host / Request-URI
func flowStaticCall(f *flowRun, k int) {
	d := &flowDlg{k: k, fromTag: fmt.Sprintf("f%d", k), toTag: fmt.Sprintf("t%d", k)}
	hop := "127.0.3.1:5080"
	toStatic := func(m *WMsg) *WMsg {
		for i := range m.Hdrs {
			if m.Hdrs[i].Name == "To" {
				m.Hdrs[i].Value = strings.Replace(m.Hdrs[i].Value, "svc.example.com", "static.example.org", 1)
			}
		}
		m.Start = strings.Replace(m.Start, "sip:bob@svc.example.com", "sip:bob@far.example.net", 1)
		return m
	}
	// the far side is known to the proxy (it has sent a request through it before): the proxy stays on the path
	pre := MsgSpec{Method: "OPTIONS", RURI: "sip:x@nowhere.example.net", Vias: []string{"SIP/2.0/UDP " + hop + ";branch=" + f.branch()}, From: "<sip:far@static.example.org>;tag=p", To: "<sip:x@nowhere.example.net>", CallID: "far-pre", CSeq: "1 OPTIONS"}.Build()
	f.fromBackend("far-side-seen", hop, pre, "free")
	e := f.fromCaller("INVITE-static", toStatic(f.callerReq("INVITE", d, "", "")), hop)
	rel := e.relayed()
	if rel == nil || e.dest() != hop {
		f.abort = "INVITE not relayed to the static next hop"
		return
	}
	if vs, _ := rel.ViaStack(); len(vs) < 2 || vs[0].Host != f.lstIP {
		f.abort = "the proxy did not stay on the path"
		return
	}
	f.fromBackend("200-static", hop, f.resp(rel, 200, d.toTag), "caller")
	f.fromCaller("ACK-static", toStatic(f.callerReq("ACK", d, d.toTag, "")), hop)
	// the far side hangs up / updates: To is the caller (no static route); the Request-URI names the service
	farReq := func(method, toHost string) *WMsg {
		d.rcseq++
		return MsgSpec{Method: method, RURI: "sip:bob@svc.example.com", Vias: []string{"SIP/2.0/UDP " + hop + ";branch=" + f.branch()},
			From: "<sip:bob@static.example.org>;tag=" + d.toTag, To: "\"Alice\" <sip:alice@" + toHost + ">;tag=" + d.fromTag, CallID: f.callID(d.k), CSeq: fmt.Sprintf("%d %s", 200+d.rcseq, method)}.Build()
	}
	f.fromBackend("UPDATE-by-far-side", hop, farReq("UPDATE", "ua.example.net"), "")
	f.fromBackend("INFO-by-far-side-to-static2", hop, farReq("INFO", "static2.example.org"), "127.0.3.3:5060")
	f.fromBackend("BYE-by-far-side", hop, farReq("BYE", "ua.example.net"), "")
	// and a later call of the caller to the other static destination
	d2 := &flowDlg{k: k + 1, fromTag: "g1"}
	m := f.callerReq("OPTIONS", d2, "", "")
	for i := range m.Hdrs {
		if m.Hdrs[i].Name == "To" {
			m.Hdrs[i].Value = "<sip:x@static2.example.org>"
		}
	}
	m.Start = "OPTIONS sip:x@far.example.net SIP/2.0"
	f.fromCaller("OPTIONS-static2", m, "127.0.3.3:5060")
}

var flowList = []struct {
	Name string
	Fn   flowFn
}{
	{"basic", flowBasic}, {"callee-bye", flowCalleeBye}, {"cancel", flowCancel}, {"reject", flowReject}, {"retransmit", flowRetransmit}, {"forked", flowForked},
	{"re-invite", flowReInvite}, {"in-dialog-methods", flowInDialog}, {"subscribe", flowSubscribe}, {"register", flowRegister}, {"interleaved", flowInterleaved}, {"static-route-call", flowStaticCall},
}

// ---- oracles ----

type flowViolation struct{ Clause, Detail string }

type flowOracle func(f *flowRun) []flowViolation

func flowDesc(f *flowRun, e *flowEv, what string) string {
	o := "nothing"
	if len(e.Pkts) > 0 {
		o = fmt.Sprintf("%s->%s %s", e.Pkts[0].Proto, e.Pkts[0].To, short(e.Pkts[0].Data))
	}
	var dials string
	if len(e.Dials) > 0 {
		dials = fmt.Sprintf(" (connection attempts: %v)", e.Dials)
	}
	return fmt.Sprintf("flow %s, configuration %s, step %s (sent by the %s from %s): %s\nsent: %s\nemitted (%d)%s: %s", f.flow, f.cfg, e.Step, e.From, e.Src, what, short(e.Sent.Render()), len(e.Pkts), dials, o)
}

// flowHealth: no crash, no deadlock in any flow (all properties).
func flowHealth(f *flowRun) []flowViolation {
	if f.health != "" {
		return []flowViolation{{"health", fmt.Sprintf("flow %s, configuration %s: %s", f.flow, f.cfg, f.health)}}
	}
	return nil
}

// flowTransparent (C01, C10): what is relayed for a step is that step's message, unchanged.
func flowTransparent(f *flowRun) []flowViolation {
	var out []flowViolation
	for _, e := range f.evs {
		for _, p := range e.Pkts {
			if cl, d := relayDiff(e.Sent, p.Data); cl != "" {
				out = append(out, flowViolation{cl, flowDesc(f, e, d)})
			}
		}
	}
	return out
}

// flowExactlyOnce: requests (C03) / responses (C02) are relayed exactly once, to the expected side.
func flowExactlyOnce(requests bool) flowOracle {
	return func(f *flowRun) []flowViolation {
		var out []flowViolation
		for _, e := range f.evs {
			if e.Sent.IsRequest() != requests || e.Expect == "free" {
				continue
			}
			if e.Expect == "caller-later-final" && f.cfg.CallerTCP {
				// a further final response of the transaction (retransmitted or forked 200): C12 leaves the
				// connection open, C02 asks for the Via entry's target - the connection or an attempt towards it
				if len(e.Pkts) == 1 && e.Pkts[0].Proto == "tcp" && (e.Pkts[0].Conn == f.conn.Peer().ID() || e.Pkts[0].To == f.caller) {
					continue
				}
				if len(e.Pkts) == 0 && len(e.Dials) > 0 && strings.HasPrefix(e.Dials[0], f.callerIP()+":") {
					continue
				}
				out = append(out, flowViolation{"response-not-relayed-once", flowDesc(f, e, "expected on the caller's connection or a connection attempt towards the caller")})
				continue
			}
			if len(e.Pkts) != 1 {
				out = append(out, flowViolation{map[bool]string{true: "request-not-relayed-once", false: "response-not-relayed-once"}[requests], flowDesc(f, e, "expected exactly one relayed copy")})
				continue
			}
			to := e.Pkts[0].To
			switch {
			case e.Expect == "caller" || e.Expect == "caller-later-final":
				if f.cfg.CallerTCP {
					if e.Sent.IsRequest() {
						// a request of the callee reaches the caller by its Route entry (a connection to its address)
						if e.Pkts[0].Proto != "tcp" || to != f.caller {
							out = append(out, flowViolation{"request-wrong-destination", flowDesc(f, e, "expected over TCP to "+f.caller)})
						}
					} else if e.Pkts[0].Proto != "tcp" || e.Pkts[0].Conn != f.conn.Peer().ID() || len(e.Dials) != 0 {
						out = append(out, flowViolation{"response-not-on-the-callers-connection", flowDesc(f, e, "expected on the TCP connection the request arrived on, no new connection")})
					}
				} else if to != f.caller || e.Pkts[0].Proto != "udp" {
					out = append(out, flowViolation{map[bool]string{true: "request-wrong-destination", false: "response-wrong-destination"}[requests], flowDesc(f, e, "expected over UDP to "+f.caller)})
				}
			case strings.HasPrefix(e.Expect, "127.0.3."):
				if to != e.Expect {
					out = append(out, flowViolation{"request-wrong-destination", flowDesc(f, e, "expected the static next hop "+e.Expect)})
				}
			default:
				isB := false
				for _, b := range f.backs {
					if to == b {
						isB = true
					}
				}
				if !isB {
					out = append(out, flowViolation{"request-wrong-destination", flowDesc(f, e, "expected one backend of the service")})
				}
			}
		}
		return out
	}
}

// flowPinned (C04, C15): requests of a dialog reach the backend that answered it.
func flowPinned(f *flowRun) []flowViolation {
	var out []flowViolation
	for _, e := range f.evs {
		if !e.Sent.IsRequest() || e.From != "caller" || e.Expect == "" || e.Expect == "free" || e.Expect == "caller" || strings.HasPrefix(e.Expect, "127.0.3.") {
			continue
		}
		if len(e.Pkts) != 1 || e.Pkts[0].To != e.Expect {
			out = append(out, flowViolation{"in-dialog-request-not-to-answering-backend", flowDesc(f, e, "its dialog was answered by "+e.Expect)})
		}
	}
	return out
}

// flowRotation (C05): requests without a dialog walk the rotation: three consecutive ones reach three backends.
func flowRotation(f *flowRun) []flowViolation {
	if f.co != nil {
		return nil // two flows share the rotation: "consecutive" dispatches of one flow are not consecutive
	}
	var seq []string
	var steps []string
	for _, e := range f.evs {
		if e.Sent.IsRequest() && e.From == "caller" && e.Expect == "" && len(e.Pkts) == 1 {
			seq = append(seq, e.Pkts[0].To)
			steps = append(steps, e.Step)
		}
	}
	for i := 0; i+3 <= len(seq); i++ {
		if seq[i] == seq[i+1] || seq[i] == seq[i+2] || seq[i+1] == seq[i+2] {
			return []flowViolation{{"rotation-window", fmt.Sprintf("flow %s, configuration %s: the requests without a dialog %v were dispatched to %v: three consecutive dispatches do not reach the three backends", f.flow, f.cfg, steps, seq)}}
		}
	}
	return nil
}

// flowViaRR (C06): a request handed to a backend carries exactly one new top Via of the listener with a fresh
// branch above the sender's stack, and the Record-Route entry the policy asks for.
func flowViaRR(f *flowRun) []flowViolation {
	var out []flowViolation
	seen := map[string]string{}
	for _, e := range f.evs {
		if !e.Sent.IsRequest() || e.From != "caller" || len(e.Pkts) != 1 || strings.HasPrefix(e.Pkts[0].To, "127.0.3.") {
			continue
		}
		rel := e.relayed()
		if rel == nil {
			continue
		}
		in, _ := e.Sent.ViaStack()
		got, err := rel.ViaStack()
		if err != nil || len(got) != len(in)+1 {
			out = append(out, flowViolation{"via-not-exactly-one-inserted", flowDesc(f, e, fmt.Sprintf("Via stack %q, expected one new entry above %q", viaStrs(got), viaStrs(in)))})
			continue
		}
		top := got[0]
		br, ok := findPar(top.Pars, "branch")
		if top.Host != f.lstIP || top.Port != "5060" || top.Transport != "UDP" || !ok || !strings.HasPrefix(br.V, "z9hG4bK") {
			out = append(out, flowViolation{"via-names-wrong-listener", flowDesc(f, e, "top Via "+top.String())})
			continue
		}
		if prev, dup := seen[br.V]; dup {
			out = append(out, flowViolation{"branch-not-fresh", flowDesc(f, e, "branch "+br.V+" was already used at step "+prev)})
		}
		seen[br.V] = e.Step
		for i := range in {
			a, b := got[i+1], in[i]
			if i == 0 {
				a, b = flowUnstamped(a), flowUnstamped(b)
			}
			if a.String() != b.String() {
				out = append(out, flowViolation{"existing-via-altered-or-reordered", flowDesc(f, e, fmt.Sprintf("entry %d: %q became %q", i, b.String(), a.String()))})
				break
			}
		}
		inR, _ := e.Sent.NameAddrList("record-route")
		gotR, _ := rel.NameAddrList("record-route")
		want := len(inR)
		if len(inR) > 0 || f.cfg.MustRR {
			want++
		}
		if len(gotR) != want || (want > len(inR) && (gotR[0].URI.Host != f.lstIP || gotR[0].URI.Port != "5060")) || naList(gotR[len(gotR)-len(inR):]) != naList(inR) {
			out = append(out, flowViolation{"record-route-policy", flowDesc(f, e, fmt.Sprintf("Record-Route %s, expected %d entries (the listener's ahead of %s)", naList(gotR), want, naList(inR)))})
		}
	}
	return out
}

func flowUnstamped(v AVia) AVia {
	var ps []Par
	for _, p := range v.Pars {
		if p.K != "received" && p.K != "rport" {
			ps = append(ps, p)
		}
	}
	v.Pars = ps
	return v
}

// flowStamped (C07): the sender's Via of every relayed request carries the true source (received, and
// rport when asked for) on a received-enabled listener, and is untouched otherwise.
func flowStamped(f *flowRun) []flowViolation {
	var out []flowViolation
	for _, e := range f.evs {
		if !e.Sent.IsRequest() || len(e.Pkts) != 1 {
			continue
		}
		rel := e.relayed()
		in, _ := e.Sent.ViaStack()
		if rel == nil || len(in) == 0 {
			continue
		}
		got, err := rel.ViaStack()
		if err != nil || len(got) < len(in) {
			continue
		}
		mine := got[len(got)-len(in)]
		srcIP := strings.Split(e.Src, ":")[0]
		srcPort := strings.Split(e.Src, ":")[1]
		if e.From == "caller" && f.cfg.CallerTCP {
			ls := f.conn.LocalString()
			srcPort = ls[strings.LastIndex(ls, ":")+1:]
		}
		if f.cfg.NoReceived {
			if mine.String() != in[0].String() {
				out = append(out, flowViolation{"sender-via-altered-although-disabled", flowDesc(f, e, fmt.Sprintf("sender's Via %q became %q", in[0].String(), mine.String()))})
			}
			continue
		}
		rc, ok := findPar(mine.Pars, "received")
		if !ok || rc.V != srcIP {
			out = append(out, flowViolation{"sender-via-not-stamped", flowDesc(f, e, fmt.Sprintf("sender's Via relayed as %q, expected received=%s", mine.String(), srcIP))})
			continue
		}
		if _, asked := findPar(in[0].Pars, "rport"); asked {
			if rp, ok := findPar(mine.Pars, "rport"); !ok || rp.V != srcPort {
				out = append(out, flowViolation{"rport-not-true-source-port", flowDesc(f, e, fmt.Sprintf("sender's Via relayed as %q, expected rport=%s", mine.String(), srcPort))})
			}
		}
	}
	return out
}

// flowResponseVia (C02): the response handed back carries exactly the Via stack its request had
// when it reached the proxy (top entry modulo received / rport).
func flowResponseVia(f *flowRun) []flowViolation {
	var out []flowViolation
	for _, e := range f.evs {
		if e.Sent.IsRequest() || len(e.Pkts) != 1 {
			continue
		}
		rel := e.relayed()
		in, err1 := e.Sent.ViaStack()
		if rel == nil || err1 != nil || len(in) < 2 {
			continue
		}
		got, err := rel.ViaStack()
		if err != nil || len(got) != len(in)-1 {
			out = append(out, flowViolation{"remaining-via-altered", flowDesc(f, e, fmt.Sprintf("Via stack %q, expected %q", viaStrs(got), viaStrs(in[1:])))})
			continue
		}
		for i := range got {
			if got[i].String() != in[i+1].String() {
				out = append(out, flowViolation{"remaining-via-altered", flowDesc(f, e, fmt.Sprintf("entry %d: %q became %q", i, in[i+1].String(), got[i].String()))})
				break
			}
		}
	}
	return out
}

// relayDiff: the emission against the message it relays (fields other than the routing headers the
// proxy manages, start line, body, one Content-Length that equals the body length).
func relayDiff(m *WMsg, data []byte) (string, string) {
	out, err := ReadWire(data)
	if err != nil {
		return "unreadable-emission", err.Error()
	}
	if out.Start != m.Start {
		return "start-line", fmt.Sprintf("start line %q became %q", m.Start, out.Start)
	}
	others := func(x *WMsg) []WHdr {
		var o []WHdr
		for _, h := range x.Hdrs {
			switch canonName(h.Name) {
			case "via", "route", "record-route", "content-length":
			default:
				o = append(o, h)
			}
		}
		return o
	}
	a, b := others(m), others(out)
	for i := 0; i < len(a) || i < len(b); i++ {
		switch {
		case i >= len(b):
			return "field-dropped", fmt.Sprintf("field %q: %s is missing from the relayed message", a[i].Name, short([]byte(a[i].Value)))
		case i >= len(a):
			return "field-added", fmt.Sprintf("field %q: %s was added", b[i].Name, short([]byte(b[i].Value)))
		case a[i].Name != b[i].Name:
			return "field-name-or-order", fmt.Sprintf("position %d: field %q became %q", i, a[i].Name, b[i].Name)
		case a[i].Value != b[i].Value:
			return "field-value", fmt.Sprintf("field %q: value %s became %s", a[i].Name, short([]byte(a[i].Value)), short([]byte(b[i].Value)))
		}
	}
	cls := out.All("content-length")
	if len(cls) != 1 {
		return "content-length-count", fmt.Sprintf("%d Content-Length fields in the relayed message: %v", len(cls), cls)
	}
	if n, err := strconv.Atoi(cls[0]); err != nil || n != len(out.Body) {
		return "content-length-value", fmt.Sprintf("Content-Length %q but %d body bytes follow", cls[0], len(out.Body))
	}
	if !bytes.Equal(out.Body, m.Body) {
		return "body", fmt.Sprintf("body of %d bytes became %d bytes", len(m.Body), len(out.Body))
	}
	return "", ""
}

// RunFlows runs every flow under every configuration and applies the oracles; violations are
// reported as "flow|<clause>|<flow>" with the (flow, configuration) as the replayable case.
func RunFlows(c *Ctx, oracles ...flowOracle) {
	var idx int64
	for _, fl := range flowList {
		for ci, cfg := range flowCfgs() {
			idx++
			if !c.Mine(idx) || c.Expired() {
				continue
			}
			vs, inj := runOneFlowP(fl.Name, ci, nil, oracles...)
			for _, v := range vs {
				c.Violate("flow|"+v.Clause+"|"+fl.Name, "flow-"+v.Clause, v.Detail, map[string]any{"flow": fl.Name, "cfg": ci})
			}
			c.Res.Evaluations++
			c.Res.Executions++
			c.Res.Nontrivial++
			c.Count("call_flows_run", 1)
			_ = cfg
			if len(vs) > 0 {
				continue // the unperturbed flow already fails: the perturbed runs would only repeat it
			}
			// perturbed pass: one behaviour-neutral environment event before every injection of the flow
			// (quick: the two default configurations; thorough: all)
			if c.Tier != "thorough" && ci != 0 && ci != len(flowCfgs())/2 {
				continue
			}
			for at := 0; at < inj; at++ {
				for _, kind := range flowPertKinds {
					if c.Expired() {
						break
					}
					pvs, _ := runOneFlowP(fl.Name, ci, &flowPert{At: at, Kind: kind}, oracles...)
					for _, v := range pvs {
						// one signature per clause and kind of event: the first failing (flow, position) is the replayable case
						c.Violate("flow|"+v.Clause+"|perturbed:"+kind, "flow-"+v.Clause, v.Detail, map[string]any{"flow": fl.Name, "cfg": ci, "pert_at": at, "pert_kind": kind})
					}
					c.Res.Evaluations++
					c.Res.Executions++
					c.Res.Nontrivial++
					c.Count("call_flows_run_with_an_environment_event_between_two_steps", 1)
				}
			}
		}
	}
	// every ordered pair of flows through one proxy (default configuration, caller over UDP and over TCP)
	for _, a := range flowList {
		for _, b := range flowList {
			for _, ci := range []int{0, len(flowCfgs()) / 2} {
				idx++
				if !c.Mine(idx) || c.Expired() {
					continue
				}
				name := a.Name + "+" + b.Name
				for _, v := range runOneFlow(name, ci, oracles...) {
					// one signature per clause for all pairs: the first failing pair is the replayable case
					c.Violate("flow|"+v.Clause+"|pairs", "flow-"+v.Clause, v.Detail, map[string]any{"flow": name, "cfg": ci})
				}
				c.Res.Evaluations++
				c.Res.Executions++
				c.Res.Nontrivial++
				c.Count("call_flow_pairs_run", 1)
			}
		}
	}
}

// runOneFlow: name is a flow or "A+B" (flow B run after flow A through the same proxy, with other
// call identifiers: every flow also starts from the state another flow left behind).
func runOneFlow(name string, ci int, oracles ...flowOracle) []flowViolation {
	vs, _ := runOneFlowP(name, ci, nil, oracles...)
	return vs
}

// runOneFlowP: the same with one environment event (flowPert) placed before one injection; also
// returns the number of injections the flow made.
func runOneFlowP(name string, ci int, pert *flowPert, oracles ...flowOracle) ([]flowViolation, int) {
	cfg := flowCfgs()[ci]
	var fns []flowFn
	for _, part := range strings.Split(name, "+") {
		for _, fl := range flowList {
			if fl.Name == part {
				fns = append(fns, fl.Fn)
			}
		}
	}
	f := startFlow(cfg, name)
	f.pert = pert
	defer f.close()
	if cr := guard(func() {
		for i, fn := range fns {
			fn(f, 1+100*i)
		}
	}); cr != "" {
		return []flowViolation{{"health", fmt.Sprintf("flow %s, configuration %s: %s", name, cfg, cr)}}, f.inj
	}
	out := flowHealth(f)
	seen := map[string]bool{}
	for _, o := range oracles {
		for _, v := range o(f) {
			if !seen[v.Clause] {
				seen[v.Clause] = true
				out = append(out, v)
			}
		}
	}
	if pert != nil {
		for i := range out {
			out[i].Detail = fmt.Sprintf("[environment event %q placed before injection %d of the flow] ", pert.Kind, pert.At) + out[i].Detail
		}
	}
	return out, f.inj
}

// RunFlowLayoutPairs (C17): every flow under "two Via values on separate lines" and under "the same
// values comma-joined (requests and echoed responses)": step by step the same destinations.
func RunFlowLayoutPairs(c *Ctx) {
	var idx int64
	for _, fl := range flowList {
		for _, tcp := range []bool{false, true} {
			for _, rr := range []bool{false, true} {
				idx++
				if !c.Mine(idx+1000) || c.Expired() {
					continue
				}
				if d := flowLayoutPair(fl.Name, tcp, rr); d != "" {
					c.Violate("flow|destination|"+fl.Name, "flow-layout-destination", d, map[string]any{"layout_flow": fl.Name, "tcp": tcp, "rr": rr})
				}
				c.Res.Evaluations++
				c.Res.Executions += 2
				c.Res.Nontrivial++
			}
		}
	}
}

func flowLayoutPair(name string, tcp, rr bool) string {
	var fn flowFn
	for _, fl := range flowList {
		if fl.Name == name {
			fn = fl.Fn
		}
	}
	run := func(joined bool) []string {
		f := startFlow(flowCfg{CallerTCP: tcp, TwoVias: true, Joined: joined, CallerRR: rr, MustRR: rr}, name)
		defer f.close()
		guard(func() { fn(f, 1) })
		var out []string
		for _, e := range f.evs {
			var ds []string
			for _, p := range e.Pkts {
				to := p.To
				if p.Proto == "tcp" && f.conn != nil && p.Conn == f.conn.Peer().ID() {
					to = "the caller's connection"
				}
				ds = append(ds, p.Proto+">"+to)
			}
			for _, d := range e.Dials {
				ds = append(ds, "dial>"+d)
			}
			out = append(out, e.Step+": "+strings.Join(ds, " "))
		}
		if f.health != "" {
			out = append(out, "health: "+f.health)
		}
		return out
	}
	a, b := run(false), run(true)
	for i := 0; i < len(a) || i < len(b); i++ {
		x, y := "<no such step>", "<no such step>"
		if i < len(a) {
			x = a[i]
		}
		if i < len(b) {
			y = b[i]
		}
		if x != y {
			return fmt.Sprintf("flow %s (caller over tcp: %v, record-routed: %v): with the two Via values on separate lines -> %q; with the same values comma-joined -> %q", name, tcp, rr, x, y)
		}
	}
	return ""
}

// ReplayFlow re-runs a recorded (flow, configuration) case; ok=false if raw is not a flow case.
func ReplayFlow(raw []byte, oracles ...flowOracle) (string, bool) {
	var lp struct {
		Flow string `json:"layout_flow"`
		TCP  bool   `json:"tcp"`
		RR   bool   `json:"rr"`
	}
	if json.Unmarshal(raw, &lp) == nil && lp.Flow != "" {
		if flowLayoutPair(lp.Flow, lp.TCP, lp.RR) != "" {
			return "flow-layout-destination", true
		}
		return "", true
	}
	if cl, ok := replayDual(raw, oracles...); ok {
		return cl, true
	}
	var cs struct {
		Flow string `json:"flow"`
		Cfg  int    `json:"cfg"`
		At   int    `json:"pert_at"`
		Kind string `json:"pert_kind"`
	}
	if json.Unmarshal(raw, &cs) != nil || cs.Flow == "" {
		return "", false
	}
	var pert *flowPert
	if cs.Kind != "" {
		pert = &flowPert{At: cs.At, Kind: cs.Kind}
	}
	vs, _ := runOneFlowP(cs.Flow, cs.Cfg, pert, oracles...)
	if len(vs) == 0 {
		return "", true
	}
	return "flow-" + vs[0].Clause, true
}
