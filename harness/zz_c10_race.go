//go:build verif && (c10 || all)

package main

import (
	"bytes"
	"fmt"
	"strings"

	"github.com/ochinchina/sipproxy/vrt"
)

// C10 race tier: every interleaving (within the deviation bound) of the receive, parse and loop
// goroutines for back-to-back datagrams from two sources, under the race detector.

func c10SchedExec(seq []string, prefix []int) SchedResult {
	// scenario "2L" + sequence: two listens entries, odd positions arrive on the second UDP listener
	two := len(seq) > 0 && seq[0] == "2L"
	if two {
		seq = seq[1:]
	}
	// the alone references first: worlds must not be nested
	refs := make([][]string, len(seq))
	for i, sh := range seq {
		src := "127.0.0.9:5060"
		if i%2 == 1 {
			src = "127.0.0.8:5060"
		}
		refs[i] = c10AloneRefAt(sh, i, src, two)
	}
	cfg := c10Cfg
	if two {
		cfg = c10Cfg2
	}
	w := StartRelayWorld(SimOpts{}, cfg)
	defer w.Close()
	w.Observe()
	w.S.W.SetExplore(vrt.KSched|vrt.KSelect, prefix)
	for i, sh := range seq {
		src := "127.0.0.9:5060"
		if i%2 == 1 {
			src = "127.0.0.8:5060"
		}
		w.udp[src].Send(c10Lst(two, i), c10Datagram(sh, i))
	}
	w.S.Run()
	res := SchedResult{Trace: w.S.W.TraceCopy()}
	if vd := w.S.Verdict(); vd != "" {
		res.Clause, res.Detail = "health", vd+"\n"+w.S.CrashDetail()
		return res
	}
	obs := w.Observe()
	per := map[int][]string{}
	for _, p := range obs.Pkts {
		owner := -1
		for i, sh := range seq {
			if bytes.Contains(p.Data, []byte(fmt.Sprintf("Call-ID: c10-%d-%s", i, sh))) {
				owner = i
			}
		}
		if owner < 0 {
			res.Clause, res.Detail = "unattributable-emission", short(p.Data)
			return res
		}
		per[owner] = append(per[owner], p.To+" "+c10Mask(p.Data))
	}
	for i, sh := range seq {
		if c10MustDiscard[sh] && len(per[i]) > 0 {
			res.Clause, res.Detail = "incomplete-datagram-relayed", fmt.Sprintf("datagram %d (%s) was relayed: %s", i, sh, short([]byte(per[i][0])))
			return res
		}
		if strings.Join(per[i], "\x00") != strings.Join(refs[i], "\x00") {
			res.Clause, res.Detail = "depends-on-other-datagrams", fmt.Sprintf("datagram %d (%s) of %v relayed differently under this schedule than alone", i, sh, seq)
			return res
		}
	}
	res.Outcome = fmt.Sprint(len(obs.Pkts), " relayed")
	return res
}

func c10RaceRun(c *Ctx) {
	shapes := []string{"small", "body", "overdeclared", "cut-body", "large"}
	bound := 2
	if c.Thorough() {
		bound = 3
	}
	var seqs [][]string
	for _, a := range shapes {
		for _, b := range shapes {
			seqs = append(seqs, []string{a, b})
		}
	}
	// two UDP listeners of one process receiving at the same time
	for _, pr := range [][]string{{"body", "body"}, {"small", "overdeclared"}, {"large", "body"}, {"cut-body", "small"}} {
		seqs = append(seqs, append([]string{"2L"}, pr...))
	}
	if c.Thorough() {
		seqs = append(seqs, []string{"2L", "body", "small", "body"}, []string{"2L", "overdeclared", "body", "cut-body", "small"})
	}
	if c.Thorough() {
		for _, a := range []string{"body", "cut-body", "large"} {
			for _, b := range []string{"small", "overdeclared"} {
				for _, d := range []string{"cut-startline", "body"} {
					seqs = append(seqs, []string{a, b, d})
				}
			}
		}
	}
	// warm the alone references on the default schedule (they are a function of the datagram alone)
	for si, seq := range seqs {
		if !c.Mine(int64(si)) {
			continue
		}
		seq := seq
		// one scenario per sequence: the schedule search itself is not sharded further
		cc := *c
		cc.NWorkers, cc.Worker = 1, 0
		ExploreSchedules(&cc, strings.Join(seq, ">"), bound, func(p []int) SchedResult { return c10SchedExec(seq, p) })
		c.capped = c.capped || cc.capped
	}
}

func init() {
	raceRuns["C10"] = c10RaceRun
	schedReplays["C10"] = func(cs SchedCase) string { return c10SchedExec(strings.Split(cs.Scenario, ">"), cs.Choices).Clause }
}
