//go:build verif

// Harness entry point. The binary is built from an instrumented scratch copy of /repo plus the
// files of /verif/harness and /verif/rt. One binary serves one property (build tag cNN) or all.
//
//	h run <ID> <tier>            parent: shards the work over worker processes, merges, writes evidence
//	h worker <ID> <tier> i n out worker i of n, writes its partial result to <out>
//	h replay <file>              re-executes one recorded violation
package main

import (
	"encoding/json"
	"fmt"
	"os"
	"os/exec"
	"runtime"
	"sort"
	"strconv"
	"strings"
	"sync"
	"time"

	"github.com/ochinchina/sipproxy/vrt"
)

// Check is one property's decision procedure.
type Check struct {
	ID         string
	Level      string // evidence level: exploration | model_checking | fault_enumeration
	Rule       string // how cases are enumerated and what makes one non-trivial
	Assume     []string
	Workers    int                                    // 0 = 16
	Run        func(c *Ctx)                           // executed in every worker
	Replay     func(c *Ctx, r json.RawMessage) string // re-execute one recorded case; returns the violated clause or ""
	Flows      []flowOracle                           // oracles this property applies to the canonical call flows (zz_flows.go); run after Run
	Race       bool                                   // needs the -race build (informational for bin/check)
	RaceRun    func(c *Ctx)                           // executed in every worker of the -race build (schedule exploration under the race detector)
	Finalize   func(c *Ctx, merged *Result)           // parent-side cross-shard checks (optional)
	Collapse   bool                                   // violations of one clause collapse into the shortest signature (history searches)
	Journal    bool                                   // workers journal the case they are about to run; a worker that dies is attributed and resumed
	StallS     int                                    // watchdog period in seconds (0 = 120)
	MemLimit   int64                                  // address-space limit of a worker in bytes (0 = none)
	JournalSig func(raw json.RawMessage) string       // signature suffix for a case attributed through the journal
	TimeQuick  time.Duration
	TimeThor   time.Duration
}

var checks = map[string]*Check{}

func addCheck(c *Check) { checks[c.ID] = c }

type Violation struct {
	Sig    string          `json:"sig"`    // fingerprint (clause + minimal features), matched against KNOWN_FINDINGS.txt
	Clause string          `json:"clause"` // which oracle clause failed
	Detail string          `json:"detail"` // human readable: expected vs observed
	Case   json.RawMessage `json:"case"`   // replayable description of the failing case
	Count  int64           `json:"count"`  // how many enumerated cases collapsed into this signature
}

type Result struct {
	Evaluations int64            `json:"evaluations"`
	Nontrivial  int64            `json:"nontrivial"`
	States      int64            `json:"states"`
	Transitions int64            `json:"transitions"`
	Executions  int64            `json:"executions"`
	MaxDev      int              `json:"max_deviations_completed"`
	Outcomes    map[string]int64 `json:"outcomes"`
	Violations  []*Violation     `json:"violations"`
	Samples     []any            `json:"samples"`
	Caps        []string         `json:"caps"`
	Exhaustive  bool             `json:"exhaustive"`
	Extra       map[string]any   `json:"extra"`
	Notes       []string         `json:"notes"`
	Counters    map[string]int64 `json:"counters"`
	Replayed    int64            `json:"determinism_replays"`
}

type Ctx struct {
	ID       string
	Tier     string
	Seed     int64
	Worker   int
	NWorkers int
	Res      *Result
	Deadline time.Time
	vmap     map[string]*Violation
	capped   bool
	journal  *os.File
	skip     map[string]bool
	Resume   int64 // cases with index < Resume were handled by an earlier incarnation of this worker
	out      string
}

// Begin journals the case that is about to run (write-ahead), so that an unrecoverable runtime
// abort (fatal error: out of memory, stack overflow) is attributed to its input.
func (c *Ctx) Begin(idx int64, cs any) {
	vrt.CurrentCase = fmt.Sprint(idx)
	if c.journal == nil {
		return
	}
	b, _ := json.Marshal(map[string]any{"idx": idx, "case": cs})
	c.journal.Truncate(0)
	c.journal.WriteAt(b, 0)
}

// SkipSig: a case with this journal signature already killed an earlier incarnation of this worker
// (stall / runtime abort); running more cases of the same signature would only repeat the wait.
func (c *Ctx) SkipSig(sig string) bool {
	if c.skip == nil {
		c.skip = map[string]bool{}
		for _, s := range strings.Split(os.Getenv("VERIF_SKIP_SIGS"), "\n") {
			if s != "" {
				c.skip[s] = true
			}
		}
	}
	if c.skip[sig] {
		c.Count("cases_skipped_after_worker_death_with_same_signature", 1)
		return true
	}
	return false
}

// Flush writes the partial result (called periodically by long enumerations with a journal).
func (c *Ctx) Flush() {
	if c.out != "" {
		b, _ := json.Marshal(c.Res)
		os.WriteFile(c.out+".partial", b, 0644)
	}
}

func (c *Ctx) Thorough() bool { return c.Tier == "thorough" }

// Mine: static sharding by case index.
func (c *Ctx) Mine(idx int64) bool { return int(idx%int64(c.NWorkers)) == c.Worker }

// Expired: the internal deadline has passed; the check stops, reports what it covered and exits 0.
func (c *Ctx) Expired() bool {
	if c.capped {
		return true
	}
	if time.Now().After(c.Deadline) {
		c.capped = true
		c.Cap("internal deadline reached")
		return true
	}
	return false
}

func (c *Ctx) Cap(s string) {
	for _, x := range c.Res.Caps {
		if x == s {
			return
		}
	}
	c.Res.Caps = append(c.Res.Caps, s)
	c.Res.Exhaustive = false
}

func (c *Ctx) Outcome(s string) {
	if len(s) > 200 {
		s = s[:200]
	}
	c.Res.Outcomes[s]++
}

func (c *Ctx) Count(name string, n int64) { c.Res.Counters[name] += n }

func (c *Ctx) Sample(v any) {
	if len(c.Res.Samples) < 6 {
		c.Res.Samples = append(c.Res.Samples, v)
	}
}

// Violate records a violation under its signature (first case wins as the replay).
func (c *Ctx) Violate(sig, clause, detail string, cs any) {
	if ck := checks[c.ID]; ck != nil && ck.Collapse {
		for _, v := range c.Res.Violations {
			if v.Clause == clause && (len(v.Sig) < len(sig) || (len(v.Sig) == len(sig) && v.Sig <= sig)) {
				v.Count++
				return
			}
		}
	}
	if v, ok := c.vmap[sig]; ok {
		v.Count++
		return
	}
	raw, _ := json.Marshal(cs)
	if len(detail) > 4000 {
		detail = detail[:4000] + "...[cut]"
	}
	v := &Violation{Sig: sig, Clause: clause, Detail: detail, Case: raw, Count: 1}
	c.vmap[sig] = v
	c.Res.Violations = append(c.Res.Violations, v)
}

func newResult() *Result {
	return &Result{Outcomes: map[string]int64{}, Extra: map[string]any{}, Counters: map[string]int64{}, Exhaustive: true}
}

func env(name, def string) string {
	if v := os.Getenv(name); v != "" {
		return v
	}
	return def
}

func verifDir() string { return env("VERIF_DIR", "/verif") }

// outDir: where evidence and replays are written (a scratch directory for mutation runs).
func outDir() string { return env("VERIF_OUT", verifDir()) }

func main() {
	if len(os.Args) < 2 {
		usage()
	}
	vrt.DropUnmanaged = true
	switch os.Args[1] {
	case "run":
		if len(os.Args) < 4 {
			usage()
		}
		os.Exit(runParent(os.Args[2], os.Args[3]))
	case "worker":
		if len(os.Args) < 7 {
			usage()
		}
		i, _ := strconv.Atoi(os.Args[4])
		n, _ := strconv.Atoi(os.Args[5])
		os.Exit(runWorker(os.Args[2], os.Args[3], i, n, os.Args[6]))
	case "raceworker":
		if len(os.Args) < 7 {
			usage()
		}
		i, _ := strconv.Atoi(os.Args[4])
		n, _ := strconv.Atoi(os.Args[5])
		raceMode = true
		os.Exit(runWorker(os.Args[2], os.Args[3], i, n, os.Args[6]))
	case "replay":
		if len(os.Args) < 3 {
			usage()
		}
		os.Exit(runReplay(os.Args[2]))
	case "conform-dump":
		if len(os.Args) < 3 {
			usage()
		}
		os.Exit(conformDump(os.Args[2]))
	case "list":
		var ids []string
		for id := range checks {
			ids = append(ids, id)
		}
		sort.Strings(ids)
		fmt.Println(strings.Join(ids, " "))
	default:
		usage()
	}
}

var raceMode bool

func usage() {
	fmt.Fprintln(os.Stderr, "usage: h run <ID> <tier> | h worker <ID> <tier> <i> <n> <out> | h replay <file> | h list")
	os.Exit(2)
}

func seed() int64 {
	s, err := strconv.ParseInt(env("VERIF_SEED", "0"), 10, 64)
	if err != nil {
		return 0
	}
	return s
}

func budget(ck *Check, tier string) time.Duration {
	d := ck.TimeQuick
	if d == 0 {
		d = 4 * time.Minute
	}
	if tier == "thorough" {
		d = ck.TimeThor
		if d == 0 {
			d = 25 * time.Minute
		}
	}
	if v := os.Getenv("VERIF_BUDGET_S"); v != "" {
		if n, err := strconv.Atoi(v); err == nil {
			d = time.Duration(n) * time.Second
		}
	}
	return d
}

// watchdog: the only wall-clock element. An execution that does not reach a gate for a long
// time is an infinite loop in the program (or a real block): a stall verdict for CurrentCase.
func startWatchdog(stallS int, onStall func(cs string)) {
	limit := 120 * time.Second
	if stallS > 0 {
		limit = time.Duration(stallS) * time.Second
	}
	if v := os.Getenv("VERIF_STALL_S"); v != "" {
		if n, err := strconv.Atoi(v); err == nil {
			limit = time.Duration(n) * time.Second
		}
	}
	go func() {
		last := vrt.Progress
		lastCase := vrt.CurrentCase
		since := time.Now()
		for {
			time.Sleep(500 * time.Millisecond)
			if vrt.Progress != last || vrt.CurrentCase != lastCase || vrt.CurrentCase == "" {
				last, lastCase, since = vrt.Progress, vrt.CurrentCase, time.Now()
				continue
			}
			if time.Since(since) > limit {
				onStall(lastCase)
			}
		}
	}()
}

func runWorker(id, tier string, i, n int, out string) int {
	ck, ok := checks[id]
	if !ok {
		fmt.Fprintf(os.Stderr, "unknown check %s (built with the wrong tags?)\n", id)
		return 2
	}
	c := &Ctx{ID: id, Tier: tier, Seed: seed(), Worker: i, NWorkers: n, Res: newResult(), vmap: map[string]*Violation{}, out: out}
	c.Deadline = time.Now().Add(budget(ck, tier))
	if v := os.Getenv("VERIF_DEADLINE_UNIX"); v != "" {
		if t, err := strconv.ParseInt(v, 10, 64); err == nil {
			c.Deadline = time.Unix(t, 0)
		}
	}
	if v := os.Getenv("VERIF_RESUME"); v != "" {
		c.Resume, _ = strconv.ParseInt(v, 10, 64)
		// continue from the partial result of the previous incarnation
		if b, err := os.ReadFile(out + ".partial"); err == nil {
			r := newResult()
			if json.Unmarshal(b, r) == nil {
				c.Res = r
				for _, v := range r.Violations {
					c.vmap[v.Sig] = v
				}
			}
		}
	}
	if ck.Journal {
		c.journal, _ = os.Create(out + ".journal")
	}
	if ck.MemLimit > 0 {
		setMemLimit(ck.MemLimit)
	}
	write := func() {
		b, _ := json.Marshal(c.Res)
		os.WriteFile(out, b, 0644)
	}
	startWatchdog(ck.StallS, func(cs string) {
		c.Violate("stall", "stall", "execution made no progress for the watchdog period (infinite loop or real block) in case: "+cs, map[string]string{"stalled_case": cs})
		write()
		fmt.Fprintf(os.Stderr, "worker %d: STALL in case %s\n", i, cs)
		os.Exit(3)
	})
	func() {
		defer func() {
			if r := recover(); r != nil {
				buf := make([]byte, 1<<16)
				buf = buf[:runtime.Stack(buf, false)]
				fmt.Fprintf(os.Stderr, "worker %d: HARNESS PANIC: %v\n%s\n", i, r, buf)
				write()
				os.Exit(4)
			}
		}()
		if raceMode {
			if !vrt.RaceEnabled {
				panic("raceworker needs the -race build")
			}
			c.initRaceLog()
			if ck.RaceRun != nil {
				ck.RaceRun(c)
			} else if rr, ok := raceRuns[id]; ok {
				rr(c)
			}
		} else {
			ck.Run(c)
			if len(ck.Flows) > 0 {
				RunFlows(c, ck.Flows...)
				if c.NWorkers > 1 { // a single-worker check (C16) leaves the concurrent pass to the checks that share its oracle (C04, C15)
					RunFlowsConcurrent(c, ck.Flows...)
				}
			}
			for _, s := range WBCaps() {
				c.Cap(s)
			}
		}
	}()
	vrt.CurrentCase = ""
	write()
	return 0
}

func merge(dst, src *Result) {
	dst.Evaluations += src.Evaluations
	dst.Nontrivial += src.Nontrivial
	dst.States += src.States
	dst.Transitions += src.Transitions
	dst.Executions += src.Executions
	dst.Replayed += src.Replayed
	if src.MaxDev > dst.MaxDev {
		dst.MaxDev = src.MaxDev
	}
	for k, v := range src.Outcomes {
		dst.Outcomes[k] += v
	}
	for k, v := range src.Counters {
		dst.Counters[k] += v
	}
	for k, v := range src.Extra {
		dst.Extra[k] = v
	}
	for _, s := range src.Samples {
		if len(dst.Samples) < 8 {
			dst.Samples = append(dst.Samples, s)
		}
	}
	for _, cp := range src.Caps {
		found := false
		for _, x := range dst.Caps {
			if x == cp {
				found = true
			}
		}
		if !found {
			dst.Caps = append(dst.Caps, cp)
		}
	}
	if !src.Exhaustive {
		dst.Exhaustive = false
	}
	dst.Notes = append(dst.Notes, src.Notes...)
outer:
	for _, v := range src.Violations {
		for _, w := range dst.Violations {
			if w.Sig == v.Sig {
				w.Count += v.Count
				continue outer
			}
		}
		dst.Violations = append(dst.Violations, v)
	}
}

type knownFinding struct {
	kind, prop, sig, text string
}

func loadKnown() []knownFinding {
	b, err := os.ReadFile(verifDir() + "/KNOWN_FINDINGS.txt")
	if err != nil {
		return nil
	}
	var out []knownFinding
	for _, l := range strings.Split(string(b), "\n") {
		l = strings.TrimSpace(l)
		if l == "" || strings.HasPrefix(l, "#") {
			continue
		}
		f := strings.Fields(l)
		if len(f) < 3 {
			continue
		}
		k := knownFinding{kind: strings.TrimSuffix(f[0], ":")}
		rest := f[1:]
		for len(rest) > 0 && (strings.HasPrefix(rest[0], "property=") || strings.HasPrefix(rest[0], "sig=")) {
			if strings.HasPrefix(rest[0], "property=") {
				k.prop = strings.TrimPrefix(rest[0], "property=")
			} else {
				k.sig = strings.TrimPrefix(rest[0], "sig=")
			}
			rest = rest[1:]
		}
		k.text = strings.Join(rest, " ")
		out = append(out, k)
	}
	return out
}

func runParent(id, tier string) int {
	t0 := time.Now()
	ck, ok := checks[id]
	if !ok {
		fmt.Fprintf(os.Stderr, "unknown check %s (built with the wrong tags?)\n", id)
		return 2
	}
	if tier != "quick" && tier != "thorough" {
		fmt.Fprintln(os.Stderr, "tier must be quick or thorough")
		return 2
	}
	n := ck.Workers
	if n == 0 {
		n = 16
	}
	if v := os.Getenv("VERIF_WORKERS"); v != "" {
		if k, err := strconv.Atoi(v); err == nil && k > 0 {
			n = k
		}
	}
	tmp, err := os.MkdirTemp("", "vfout")
	if err != nil {
		fmt.Fprintln(os.Stderr, err)
		return 2
	}
	defer os.RemoveAll(tmp)
	self, _ := os.Executable()
	var wg sync.WaitGroup
	var codes []int
	deadline := time.Now().Add(budget(ck, tier))
	raceBin := os.Getenv("VERIF_RACE_BIN")
	type job struct {
		bin, cmd string
		i        int
		out      string
	}
	var jobs []job
	if os.Getenv("VERIF_ONLY_RACE") == "" {
		for i := 0; i < n; i++ {
			jobs = append(jobs, job{self, "worker", i, fmt.Sprintf("%s/w%d.json", tmp, i)})
		}
	}
	if _, ok := raceRuns[id]; ck.RaceRun != nil || ok {
		if raceBin == "" {
			fmt.Fprintln(os.Stderr, "HARNESS-ERROR: the race tier of this check needs VERIF_RACE_BIN (run through bin/check)")
			return 2
		}
		for i := 0; i < n; i++ {
			jobs = append(jobs, job{raceBin, "raceworker", i, fmt.Sprintf("%s/r%d.json", tmp, i)})
		}
	}
	codes = make([]int, len(jobs))
	sem := make(chan struct{}, n)
	var extraMu sync.Mutex
	var extra []*Violation
	for ji, jb := range jobs {
		wg.Add(1)
		go func(i int, jb job) {
			defer wg.Done()
			sem <- struct{}{}
			defer func() { <-sem }()
			out := jb.out
			resume := int64(0)
			var deadSigs []string
			for attempt := 0; attempt < 40; attempt++ {
				cmd := exec.Command(jb.bin, jb.cmd, id, tier, strconv.Itoa(jb.i), strconv.Itoa(n), out)
				cmd.Env = append(os.Environ(), "GOMAXPROCS="+env("VERIF_WORKER_PROCS", "1"), "GORACE=halt_on_error=0 exitcode=0 history_size=3 log_path="+tmp+"/race"+strconv.Itoa(jb.i),
					"VERIF_DEADLINE_UNIX="+strconv.FormatInt(deadline.Unix(), 10))
				if resume > 0 {
					cmd.Env = append(cmd.Env, "VERIF_RESUME="+strconv.FormatInt(resume, 10), "VERIF_SKIP_SIGS="+strings.Join(deadSigs, "\n"))
				}
				var errBuf strings.Builder
				cmd.Stdout = os.Stderr
				cmd.Stderr = &errBuf
				err := cmd.Run()
				codes[i] = 0
				if err != nil {
					if ee, ok := err.(*exec.ExitError); ok {
						codes[i] = ee.ExitCode()
					} else {
						codes[i] = 99
					}
				}
				es := errBuf.String()
				if codes[i] == 0 || !ck.Journal || codes[i] == 4 {
					os.Stderr.WriteString(es)
					return
				}
				// the worker died (runtime abort, kill, stall): attribute to the journaled case and resume after it
				jb, jerr := os.ReadFile(out + ".journal")
				var j struct {
					Idx  int64           `json:"idx"`
					Case json.RawMessage `json:"case"`
				}
				if jerr != nil || json.Unmarshal(jb, &j) != nil || j.Idx < resume {
					os.Stderr.WriteString(es)
					return
				}
				what := "worker process died"
				for _, l := range strings.Split(es, "\n") {
					if strings.HasPrefix(l, "fatal error:") || strings.HasPrefix(l, "runtime:") || strings.Contains(l, "STALL") {
						what = strings.TrimSpace(l)
						break
					}
				}
				clause := "fatal-runtime-abort"
				if codes[i] == 3 {
					clause = "stall"
				}
				v := &Violation{Sig: clause + "|journal", Clause: clause, Detail: fmt.Sprintf("worker %d died (exit %d: %s) while handling the journaled case", i, codes[i], what), Case: j.Case, Count: 1}
				if ck.JournalSig != nil {
					v.Sig = clause + "|" + ck.JournalSig(j.Case)
					deadSigs = append(deadSigs, ck.JournalSig(j.Case))
				}
				extraMu.Lock()
				extra = append(extra, v)
				extraMu.Unlock()
				resume = j.Idx + 1
				codes[i] = 0
			}
		}(ji, jb)
	}
	wg.Wait()
	total := newResult()
	harnessErr := false
	for i := range jobs {
		b, err := os.ReadFile(jobs[i].out)
		if err != nil {
			fmt.Fprintf(os.Stderr, "worker %d produced no result (exit %d)\n", i, codes[i])
			harnessErr = true
			continue
		}
		r := newResult()
		if err := json.Unmarshal(b, r); err != nil {
			harnessErr = true
			continue
		}
		merge(total, r)
		if codes[i] != 0 && codes[i] != 3 {
			fmt.Fprintf(os.Stderr, "worker %d exited with %d\n", i, codes[i])
			harnessErr = true
		}
	}
	if ck.Collapse {
		best := map[string]*Violation{}
		for _, v := range total.Violations {
			b, ok := best[v.Clause]
			if !ok {
				best[v.Clause] = v
				continue
			}
			if len(v.Sig) < len(b.Sig) || (len(v.Sig) == len(b.Sig) && v.Sig < b.Sig) {
				v.Count += b.Count
				best[v.Clause] = v
			} else {
				b.Count += v.Count
			}
		}
		total.Violations = nil
		for _, v := range best {
			total.Violations = append(total.Violations, v)
		}
	}
	for _, v := range extra {
		merge(total, &Result{Violations: []*Violation{v}, Exhaustive: true})
	}
	c := &Ctx{ID: id, Tier: tier, Seed: seed(), NWorkers: n, Res: total, vmap: map[string]*Violation{}}
	for _, v := range total.Violations {
		c.vmap[v.Sig] = v
	}
	if ck.Finalize != nil {
		ck.Finalize(c, total)
	}
	// classify violations against KNOWN_FINDINGS.txt
	known := loadKnown()
	var lines []string
	unknown := 0
	sort.Slice(total.Violations, func(i, j int) bool { return total.Violations[i].Sig < total.Violations[j].Sig })
	os.MkdirAll(outDir()+"/replays/"+id, 0755)
	for _, v := range total.Violations {
		isKnown := false
		for _, k := range known {
			if k.kind == "known" && k.prop == id && k.sig == v.Sig {
				lines = append(lines, fmt.Sprintf("KNOWN-FINDING: property=%s sig=%s %s (cases=%d)", id, v.Sig, k.text, v.Count))
				isKnown = true
			}
		}
		// the failing case is written for tracked findings too (bin/check --replay reproduces them)
		path := fmt.Sprintf("%s/replays/%s/%s.json", outDir(), id, sanitize(v.Sig))
		rf := map[string]any{"property": id, "tier": tier, "sig": v.Sig, "clause": v.Clause, "detail": v.Detail, "case": v.Case, "count": v.Count, "tracked_finding": isKnown}
		b, _ := json.MarshalIndent(rf, "", " ")
		os.WriteFile(path, b, 0644)
		if isKnown {
			continue
		}
		unknown++
		lines = append(lines, fmt.Sprintf("VIOLATION property=%s replay=%s", id, path))
		fmt.Fprintf(os.Stderr, "--- violation %s (cases=%d)\n    clause: %s\n    %s\n", v.Sig, v.Count, v.Clause, strings.ReplaceAll(v.Detail, "\n", "\n    "))
	}
	writeEvidence(ck, tier, total, time.Since(t0), unknown)
	fmt.Printf("check %s tier=%s evaluations=%d nontrivial=%d states=%d transitions=%d executions=%d outcomes=%d exhaustive=%v caps=%v wall=%.1fs\n",
		id, tier, total.Evaluations, total.Nontrivial, total.States, total.Transitions, total.Executions, len(total.Outcomes), total.Exhaustive, total.Caps, time.Since(t0).Seconds())
	for _, l := range lines {
		fmt.Println(l)
	}
	if harnessErr {
		fmt.Println("HARNESS-ERROR: a worker failed; see stderr")
		return 2
	}
	if unknown > 0 {
		return 1
	}
	return 0
}

func sanitize(s string) string {
	var b strings.Builder
	for _, r := range s {
		if (r >= 'a' && r <= 'z') || (r >= 'A' && r <= 'Z') || (r >= '0' && r <= '9') || r == '-' || r == '_' || r == '.' {
			b.WriteRune(r)
		} else {
			b.WriteByte('_')
		}
	}
	out := b.String()
	if len(out) > 120 {
		out = out[:120]
	}
	return out
}

func writeEvidence(ck *Check, tier string, r *Result, wall time.Duration, unknown int) {
	cov := map[string]any{
		"evaluations":         r.Evaluations,
		"distinct_nontrivial": r.Nontrivial,
		"rule":                ck.Rule,
		"samples":             r.Samples,
		"exhaustive":          r.Exhaustive,
		"caps_hit":            r.Caps,
		"distinct_outcomes":   len(r.Outcomes),
		"executions":          r.Executions,
		"counters":            r.Counters,
		"determinism_replays": r.Replayed,
	}
	if len(r.Samples) == 0 {
		cov["samples"] = []any{"(no sample recorded)"}
	}
	if ck.Level == "model_checking" {
		// a check without an explicit state count explores one history / schedule per execution
		if r.States == 0 {
			r.States = r.Executions
		}
		if r.Transitions == 0 {
			r.Transitions = r.Executions
		}
		cov["states"] = r.States
		cov["transitions"] = r.Transitions
		// every state/transition is produced by executing the real (instrumented) implementation;
		// there is no separate model whose traces would need replaying
		cov["traces_validated_against_impl"] = r.Executions
		cov["max_deviations_completed"] = r.MaxDev
	}
	for k, v := range r.Extra {
		cov[k] = v
	}
	top := make([]string, 0, len(r.Outcomes))
	for k := range r.Outcomes {
		top = append(top, k)
	}
	sort.Slice(top, func(i, j int) bool { return r.Outcomes[top[i]] > r.Outcomes[top[j]] })
	if len(top) > 12 {
		top = top[:12]
	}
	oc := map[string]int64{}
	for _, k := range top {
		oc[k] = r.Outcomes[k]
	}
	cov["top_outcomes"] = oc
	var vs []map[string]any
	for _, v := range r.Violations {
		vs = append(vs, map[string]any{"sig": v.Sig, "clause": v.Clause, "cases": v.Count})
	}
	cov["violation_signatures"] = vs
	ev := map[string]any{
		"property_id": ck.ID,
		"tier":        tier,
		"seed":        seed(),
		"level":       ck.Level,
		"coverage":    cov,
		"assumptions": append([]string{"bounded exhaustive exploration of the real implementation inside a deterministic simulation (scheduler, clock, network, DNS, map order owned by the harness); see DESIGN.md §2-§3"}, ck.Assume...),
		"wall_s":      wall.Seconds(),
		"violations":  unknown,
		"notes":       r.Notes,
	}
	b, _ := json.MarshalIndent(ev, "", " ")
	os.MkdirAll(outDir()+"/evidence", 0755)
	os.WriteFile(outDir()+"/evidence/"+ck.ID+".json", b, 0644)
}

func runReplay(path string) int {
	b, err := os.ReadFile(path)
	if err != nil {
		fmt.Fprintln(os.Stderr, err)
		return 2
	}
	var rf struct {
		Property string          `json:"property"`
		Tier     string          `json:"tier"`
		Sig      string          `json:"sig"`
		Case     json.RawMessage `json:"case"`
	}
	if err := json.Unmarshal(b, &rf); err != nil {
		fmt.Fprintln(os.Stderr, err)
		return 2
	}
	ck, ok := checks[rf.Property]
	if !ok || ck.Replay == nil {
		fmt.Fprintf(os.Stderr, "no replay support for %s in this binary\n", rf.Property)
		return 2
	}
	c := &Ctx{ID: rf.Property, Tier: rf.Tier, NWorkers: 1, Res: newResult(), vmap: map[string]*Violation{}}
	c.Deadline = time.Now().Add(10 * time.Minute)
	replay := ck.Replay
	var sc SchedCase
	if f, ok := schedReplays[rf.Property]; ok && json.Unmarshal(rf.Case, &sc) == nil && sc.Scenario != "" {
		replay = func(c *Ctx, raw json.RawMessage) string { return f(sc) }
	}
	if len(ck.Flows) > 0 {
		if _, isFlow := ReplayFlow(rf.Case, ck.Flows...); isFlow {
			replay = func(c *Ctx, raw json.RawMessage) string {
				cl, _ := ReplayFlow(raw, ck.Flows...)
				return cl
			}
		}
	}
	c1 := replay(c, rf.Case)
	c2 := replay(c, rf.Case)
	if c1 != c2 {
		fmt.Printf("HARNESS-ERROR: replay is not deterministic (%q vs %q)\n", c1, c2)
		return 2
	}
	if c1 == "" {
		fmt.Printf("replay of %s: property holds on this case\n", rf.Sig)
		return 0
	}
	fmt.Printf("replay of %s: violated clause: %s\n", rf.Sig, c1)
	fmt.Printf("VIOLATION property=%s replay=%s\n", rf.Property, path)
	return 1
}
