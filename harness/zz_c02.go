//go:build verif && (c02 || all)

package main

import (
	"bytes"
	"encoding/json"
	"fmt"
	"strconv"
	"strings"

	"github.com/ochinchina/sipproxy/vrt/vnet"
)

// C02 — responses follow the Via chain: pop one entry, go to the next (DESIGN.md §4 C02).

var c02Spec *EnumSpec

var c02Cfg = RCfg{Name: "svc.example.com", Listens: []RListen{{Addr: "127.0.0.1", UDP: 5060, TCP: 5062, Backends: []string{"udp://127.0.1.1:7000", "tcp://127.0.1.2:7000"}}},
	Hosts: [][2]string{{"nh.example.net", "127.0.2.1"}, {"ua.example.net", "127.0.0.9"}}}

// the entry that decides the route (second from the top)
func c02Second(s *EnumSpec, v []int) string {
	switch s.Val(v, "second") {
	case "none":
		return ""
	case "empty":
		return " "
	case "no-sent-by":
		return "SIP/2.0/UDP"
	case "three-colons":
		return "SIP/2.0/UDP 127.0.2.1:50:60"
	case "no-transport":
		return "SIP/2.0 127.0.2.1:5060"
	case "bad-port":
		return "SIP/2.0/UDP 127.0.2.1:port"
	}
	e := "SIP/2.0/" + s.Val(v, "transport") + " " + map[string]string{"ip": "127.0.2.1", "name": "nh.example.net", "dns-name": c02DNSName}[s.Val(v, "host")]
	if p := s.Val(v, "port"); p != "absent" {
		e += ":" + p
	}
	switch s.Val(v, "extra") {
	case "branch-ttl":
		e += ";branch=z9hG4bKsec;ttl=1"
	case "pct":
		e += ";branch=z9hG4bKsec;p=%41%s"
	case "eq":
		// '=' inside parameter values (base64 padding, a quoted pair)
		e += ";branch=z9hG4bKYWJjZA==;cookie=\"k=v\";x=a=b"
	}
	switch s.Val(v, "rport") {
	case "valueless":
		e += ";rport"
	case "numeric":
		e += ";rport=5070"
	case "non-numeric":
		e += ";rport=abc"
	}
	if s.Val(v, "received") == "ipv4" {
		e += ";received=127.0.2.2"
	}
	return e
}

var c02Rest = map[string][]string{
	"none": nil, "one": {"SIP/2.0/UDP 10.1.1.1;branch=z9hG4bKr1"}, "two": {"SIP/2.0/TCP h3.example.com:5061;branch=z9hG4bKr1;rport=9;received=10.2.2.2", "SIP/2.0/UDP 10.1.1.2:5060"},
	"four": {"SIP/2.0/UDP 10.1.1.1;branch=z9hG4bKr1", "SIP/2.0/TLS h4.example.com;ttl=3", "SIP/2.0/SCTP 10.1.1.3:1", "SIP/2.0/UDP 10.1.1.4:65535;x;y=%41"},
}

func c02Top(s *EnumSpec, v []int) string {
	switch s.Val(v, "top") {
	case "proxy-tcp":
		return "SIP/2.0/TCP 127.0.0.1:5062;branch=z9hG4bKtop"
	case "foreign":
		return "SIP/2.0/UDP 10.7.7.7:5099;branch=z9hG4bKtop;received=10.8.8.8;rport=1"
	case "undecodable":
		return "SIP/2.0/UDP"
	}
	return "SIP/2.0/UDP 127.0.0.1:5060;branch=z9hG4bKtop"
}

// c02CfgFor: the configuration a vector asks for. Response routing is the same under all of them.
func c02CfgFor(s *EnumSpec, v []int) RCfg {
	cfg := c02Cfg
	cfg.Listens = []RListen{cfg.Listens[0]}
	switch s.Val(v, "config") {
	case "no-received":
		cfg.Listens[0].NoReceived = "true"
	case "must-rr-keep":
		cfg.Listens[0].MustRR = true
		cfg.KeepNextHop = "true"
	case "two-entries-mixed":
		// a second listens entry with the opposite received setting; the response still arrives on the first
		cfg.Listens[0].NoReceived = "true"
		cfg.Listens = append(cfg.Listens, RListen{Addr: "127.0.0.2", UDP: 5060, TCP: 5062, Backends: []string{"udp://127.0.1.3:7000"}})
	}
	return cfg
}

// a sent-by name that is not in the hosts section of the configuration: only the (simulated) DNS knows it
const c02DNSName = "nhdns.example.net"

func c02Start(cfg RCfg) *RelayWorld {
	preStart = func() { vnet.SetHost(c02DNSName, false, "127.0.2.1") }
	defer func() { preStart = nil }()
	return StartRelayWorld(SimOpts{}, cfg)
}

func c02Eval(v []int) (string, string, bool) {
	w := c02Start(c02CfgFor(c02Spec, v))
	defer w.Close()
	return c02EvalIn(w, v, 0)
}

func c02EvalIn(w *RelayWorld, v []int, seq int) (string, string, bool) {
	s := c02Spec
	entries := []string{c02Top(s, v)}
	if sec := c02Second(s, v); sec != "" {
		entries = append(entries, sec)
		entries = append(entries, c02Rest[s.Val(v, "rest")]...)
	}
	// layout: bit i set = entry i+1 starts a new header line
	mask := v[s.idx("layout")]
	var lines []string
	cur := entries[0]
	for i := 1; i < len(entries); i++ {
		if mask&(1<<(i-1)) != 0 {
			lines = append(lines, cur)
			cur = entries[i]
		} else {
			cur += "," + entries[i]
		}
	}
	lines = append(lines, cur)
	st, _ := strconv.Atoi(s.Val(v, "status"))
	var body []byte
	if s.Val(v, "body") == "2000" {
		// beyond every path-MTU rule of thumb (RFC 3261 18.1.1 speaks of 1300 bytes)
		body = bytes.Repeat([]byte("0123456789abcdef"), 125)
	}
	m := MsgSpec{Status: st, Reason: "Reason", Vias: lines, From: "<sip:alice@ua.example.net>;tag=f1", To: "<sip:bob@svc.example.com>;tag=t1", CallID: "c02", CSeq: "1 INVITE", Body: body}.Build()
	names := s.Val(v, "names")
	k := 0
	for i := range m.Hdrs {
		if m.Hdrs[i].Name == "Via" {
			if names == "compact" || (names == "mixed" && k%2 == 1) {
				m.Hdrs[i].Name = "v"
			} else if names == "upper" {
				m.Hdrs[i].Name = "VIA"
			}
			k++
		}
	}
	if seq > 0 {
		for i := range m.Hdrs {
			if m.Hdrs[i].Name == "Call-ID" {
				m.Hdrs[i].Value = fmt.Sprintf("c02-%d", seq)
			}
		}
	}
	w.Observe()
	if s.Val(v, "arrival") == "tcp" {
		w.SendTCP(w.Client("b", "127.0.1.2", "127.0.0.1:5062"), m.Render())
	} else {
		w.SendUDP("127.0.1.1:7000", "127.0.0.1:5060", m.Render())
	}
	obs := w.Observe()
	desc := func(exp string) string {
		o := "nothing"
		if len(obs.Pkts) > 0 {
			o = short(obs.Pkts[0].Data)
		}
		return fmt.Sprintf("response %s\nexpected: %s\nobserved (%s): %s", short(m.Render()), exp, obs.Summary(), o)
	}
	if vd := w.S.Verdict(); vd != "" {
		return "health", desc(vd), true
	}
	// reference
	in, err := m.ViaStack()
	decodable := err == nil
	if !decodable {
		// which entry is undecodable? only the first two are generated undecodable
		if len(obs.Pkts)+len(obs.Dials) != 0 {
			return "relayed-with-undecodable-via", desc("nothing (a Via that must be consulted cannot be decoded)"), true
		}
		return "", "", true
	}
	if len(in) < 2 {
		if len(obs.Pkts)+len(obs.Dials) != 0 {
			return "relayed-without-remaining-via", desc("nothing (no Via entry remains after the topmost one is discarded)"), true
		}
		return "", "", true
	}
	hop := in[1]
	tr := strings.ToLower(hop.Transport)
	if tr != "udp" && tr != "tcp" {
		if len(obs.Pkts)+len(obs.Dials) != 0 {
			return "unsupported-transport-sent", desc("nothing (transport " + hop.Transport + " is not supported)"), true
		}
		return "", "", true
	}
	addr, _ := c02Cfg.hostIP(hop.Host)
	if hop.Host == c02DNSName {
		addr = "127.0.2.1"
	}
	port := 5060
	if hop.Port != "" {
		port, _ = strconv.Atoi(hop.Port)
	}
	if rc, ok := findPar(hop.Pars, "received"); ok {
		addr = rc.V
		if rp, ok := findPar(hop.Pars, "rport"); ok && rp.HasV {
			if n, err := strconv.Atoi(rp.V); err == nil {
				port = n
			}
		}
	}
	want := fmt.Sprintf("%s:%d", addr, port)
	exp := fmt.Sprintf("exactly one packet over %s to %s carrying the Via entries %q", tr, want, viaStrs(in[1:]))
	if len(obs.Pkts) != 1 {
		return "response-exactly-one", desc(exp), true
	}
	p := obs.Pkts[0]
	if p.To != want {
		return "response-wrong-destination", desc(exp), true
	}
	if p.Proto != tr {
		return "response-wrong-transport", desc(exp), true
	}
	for _, d := range obs.Dials {
		if d != want {
			return "response-stray-dial", desc(exp), true
		}
	}
	out, err := ReadWire(p.Data)
	if err != nil {
		return "unreadable-emission", desc(exp) + "\n" + err.Error(), true
	}
	got, err := out.ViaStack()
	if err != nil || strings.Join(viaStrs(got), " | ") != strings.Join(viaStrs(in[1:]), " | ") {
		return "remaining-via-altered", desc(exp) + fmt.Sprintf("\nrelayed Via entries %q", viaStrs(got)), true
	}
	return "", "", true
}

type c02Aged struct {
	w *RelayWorld
	n int
}

func c02AgedSpec() *AgedSpec {
	s := c02Spec
	return &AgedSpec{Spec: s,
		Group: func(v []int) string {
			return fmt.Sprintf("top=%s,arrival=%s,names=%s,rest=%s,config=%s", s.Val(v, "top"), s.Val(v, "arrival"), s.Val(v, "names"), s.Val(v, "rest"), s.Val(v, "config"))
		},
		Open:  func(v []int) any { return &c02Aged{w: c02Start(c02CfgFor(s, v))} },
		Close: func(w any) { w.(*c02Aged).w.Close() },
		Eval: func(w any, v []int) (string, string) {
			a := w.(*c02Aged)
			a.n++
			cl, d, _ := c02EvalIn(a.w, v, a.n)
			return cl, d
		}}
}

// ---- history part: concurrent transactions through two backends ----

type c02Ev struct {
	Kind string `json:"kind"` // req | ans
	T    int    `json:"t"`    // transaction 0..2
	Code int    `json:"code,omitempty"`
}

func (e c02Ev) String() string {
	if e.Kind == "req" {
		return fmt.Sprintf("req%d", e.T)
	}
	return fmt.Sprintf("ans%d(%d)", e.T, e.Code)
}

type c02Hist struct {
	Received string  `json:"received"`
	Hist     []c02Ev `json:"history"`
}

// transactions: 0 = UDP user agent A, 1 = TCP user agent B, 2 = UDP user agent A again (other branch)
func c02HistExec(received string, hist []c02Ev) (string, string, string) {
	cfg := c02Cfg
	cfg.Listens = []RListen{cfg.Listens[0]}
	if received == "off" {
		cfg.Listens[0].NoReceived = "true"
	}
	w := StartRelayWorld(SimOpts{}, cfg)
	defer w.Close()
	type txn struct {
		sent    bool
		req     *WMsg  // what the user agent sent
		relayed *WMsg  // what the backend received
		backend string // address of the backend that got it
		bconn   *vnet.TCPConn
		final   bool
		nans    int
	}
	tx := make([]*txn, 3)
	for i := range tx {
		tx[i] = &txn{}
	}
	var cliB *vnet.TCPConn
	mk := func(t int) *WMsg {
		tr, src := "UDP", "127.0.0.9:5060"
		if t == 1 {
			tr, src = "TCP", "127.0.0.8:5060"
		}
		return MsgSpec{Method: "INVITE", RURI: "sip:bob@svc.example.com", Vias: []string{"SIP/2.0/" + tr + " " + src + fmt.Sprintf(";branch=z9hG4bKt%d;rport", t), "SIP/2.0/UDP 10.4.4.4:5060;branch=z9hG4bKlow"},
			From: fmt.Sprintf("<sip:ua%d@ua.example.net>;tag=f%d", t, t), To: "<sip:bob@svc.example.com>", CallID: fmt.Sprintf("c02h%d", t), CSeq: "1 INVITE"}.Build()
	}
	for i, ev := range hist {
		desc := fmt.Sprintf("step %d %v of %v (received-support %s)", i, ev, hist, received)
		t := tx[ev.T]
		w.Observe()
		switch ev.Kind {
		case "req":
			if t.sent {
				return "", "invalid", ""
			}
			t.sent = true
			t.req = mk(ev.T)
			if ev.T == 1 {
				if cliB == nil {
					cliB = w.Client("B", "127.0.0.8", "127.0.0.1:5062")
					w.Observe()
				}
				w.SendTCP(cliB, t.req.Render())
			} else {
				w.SendUDP("127.0.0.9:5060", "127.0.0.1:5060", t.req.Render())
			}
			obs := w.Observe()
			if len(obs.Pkts) != 1 {
				return "", "request-not-relayed-once", desc + ": " + obs.Summary()
			}
			t.backend = obs.Pkts[0].To
			if t.backend != "127.0.1.1:7000" && t.backend != "127.0.1.2:7000" {
				return "", "request-to-unknown-backend", desc + ": " + obs.Summary()
			}
			rel, err := ReadWire(obs.Pkts[0].Data)
			if err != nil {
				return "", "unreadable-emission", desc
			}
			t.relayed = rel
			if obs.Pkts[0].Proto == "tcp" {
				acc := w.acc["127.0.1.2:7000"]
				if len(acc) == 0 {
					return "", "harness", "no accepted backend connection"
				}
				t.bconn = acc[len(acc)-1]
				t.bconn.Drain()
			}
		case "ans":
			if !t.sent || (t.final && ev.Code < 200) {
				return "", "invalid", ""
			}
			if t.final && t.nans > 3 {
				return "", "invalid", ""
			}
			t.nans++
			resp := ResponseTo(t.relayed, ev.Code, fmt.Sprintf("tt%d", ev.T))
			retrans := t.final
			if ev.Code >= 200 {
				t.final = true
			}
			if cliB != nil {
				cliB.Drain()
			}
			if t.bconn != nil {
				w.SendTCP(t.bconn, resp.Render())
			} else {
				// a UDP backend answers to the sent-by of the topmost Via (the proxy's listener)
				w.SendUDP(t.backend, "127.0.0.1:5060", resp.Render())
			}
			obs := w.Observe()
			if retrans && ev.T == 1 {
				// later final responses of a TCP transaction are outside the statement (see C12)
				continue
			}
			if len(obs.Pkts) != 1 {
				return "", "response-not-relayed-once", fmt.Sprintf("%s: %s\nresponse handed to the proxy: %s", desc, obs.Summary(), short(resp.Render()))
			}
			p := obs.Pkts[0]
			if ev.T == 1 {
				if p.Proto != "tcp" || cliB == nil || p.Conn != cliB.Peer().ID() {
					return "", "response-not-to-requesting-hop", fmt.Sprintf("%s: the response of the TCP user agent's transaction went %s instead of its connection", desc, obs.Summary())
				}
			} else if p.Proto != "udp" || p.To != "127.0.0.9:5060" {
				return "", "response-not-to-requesting-hop", fmt.Sprintf("%s: the response went %s instead of udp->127.0.0.9:5060", desc, obs.Summary())
			}
			out, err := ReadWire(p.Data)
			if err != nil {
				return "", "unreadable-emission", desc
			}
			got, err := out.ViaStack()
			sent, _ := t.req.ViaStack()
			if err != nil || len(got) != len(sent) {
				return "", "via-stack-differs", fmt.Sprintf("%s: user agent sent %q, response carries %q", desc, viaStrs(sent), viaStrs(got))
			}
			for k := range sent {
				a, b := sent[k], got[k]
				if k == 0 {
					// the top entry may differ only by the received/rport values C07 prescribes
					strip := func(v AVia) AVia {
						var ps []Par
						for _, p := range v.Pars {
							if p.K != "received" && p.K != "rport" {
								ps = append(ps, p)
							}
						}
						v.Pars = ps
						return v
					}
					a, b = strip(a), strip(b)
				}
				if a.String() != b.String() {
					return "", "via-stack-differs", fmt.Sprintf("%s: user agent sent %q, response carries %q", desc, viaStrs(sent), viaStrs(got))
				}
			}
		}
		if vd := w.S.Verdict(); vd != "" {
			return "", "health", desc + ": " + vd
		}
	}
	// state key: model state + implementation state the future can depend on
	var b strings.Builder
	for i, t := range tx {
		fmt.Fprintf(&b, "t%d:%v,%s,%v,%d|", i, t.sent, t.backend, t.final, t.nans)
	}
	p := w.S.Proxies()[0]
	tk, ok1 := wbTransportKeys(p)
	pins, _, ok2 := wbDialogTable(p)
	rot, ok3 := wbRotation(w.S.RoundRobins()[0])
	if !ok1 || !ok2 || !ok3 {
		b.WriteString("wb:" + wbDump(p) + wbDump(w.S.RoundRobins()[0]))
		return b.String(), "", ""
	}
	b.WriteString(strings.Join(tk, ","))
	b.WriteString("|")
	for i, pin := range pins {
		if i > 0 {
			b.WriteString(",")
		}
		b.WriteString(pin.Key)
	}
	fmt.Fprintf(&b, "|rr=%d", rot.Index)
	return b.String(), "", ""
}

func c02RunHist(c *Ctx) {
	depth := 6
	if c.Thorough() {
		depth = 8
	}
	var evs []c02Ev
	for t := 0; t < 3; t++ {
		evs = append(evs, c02Ev{"req", t, 0})
	}
	for t := 0; t < 3; t++ {
		evs = append(evs, c02Ev{"ans", t, 180}, c02Ev{"ans", t, 200})
	}
	for ri, rc := range []string{"on", "off"} {
		if !c.Mine(int64(ri)) && c.NWorkers > 1 {
			// each received setting is explored by the workers whose index has that parity
		}
		st, tr, done := BFSReplay(c, depth, evs, true, func(h []c02Ev) (string, bool) {
			key, cl, detail := c02HistExec(rc, h)
			c.Res.Executions++
			if cl == "invalid" {
				return "", false
			}
			c.Res.Evaluations++
			if len(h) > 1 {
				c.Res.Nontrivial++
			}
			if cl != "" {
				var ts []string
				for _, e := range h {
					ts = append(ts, e.String())
				}
				c.Violate("hist-"+cl+"|"+strings.Join(ts, ">"), "hist-"+cl, detail, c02Hist{rc, h})
				return "", false
			}
			c.Outcome("hist:" + key)
			if len(h) == depth-1 {
				c.Sample(c02Hist{rc, h})
			}
			return key, true
		})
		c.Res.States += st
		c.Res.Transitions += tr
		if !done {
			c.Cap("history BFS stopped by the internal deadline")
		}
	}
}

func init() {
	c02Spec = &EnumSpec{Feats: []Feat{
		{Name: "second", Vals: []string{"normal", "none", "empty", "no-sent-by", "three-colons", "no-transport", "bad-port"}},
		{Name: "transport", Vals: []string{"UDP", "TCP", "TLS", "SCTP", "udp", "tcp"}},
		{Name: "host", Vals: []string{"ip", "name", "dns-name"}},
		{Name: "port", Vals: []string{"absent", "5060", "5070"}},
		{Name: "received", Vals: []string{"absent", "ipv4"}},
		{Name: "rport", Vals: []string{"absent", "valueless", "numeric", "non-numeric"}},
		{Name: "extra", Vals: []string{"none", "branch-ttl", "pct", "eq"}},
		{Name: "rest", Vals: []string{"none", "one", "two", "four"}, Quick: 3},
		{Name: "top", Vals: []string{"proxy-udp", "proxy-tcp", "foreign", "undecodable"}},
		{Name: "layout", Vals: []string{"one-line", "m1", "m2", "m3", "m4", "m5", "m6", "m7", "m8", "m9", "m10", "m11", "m12", "m13", "m14", "m15", "m16", "m31"}},
		{Name: "names", Vals: []string{"Via", "compact", "mixed", "upper"}, Quick: 3},
		{Name: "status", Vals: []string{"200", "100", "180", "302", "404", "503", "603", "699"}, Quick: 3},
		{Name: "arrival", Vals: []string{"udp", "tcp"}},
		{Name: "config", Vals: []string{"default", "no-received", "must-rr-keep", "two-entries-mixed"}},
		{Name: "body", Vals: []string{"none", "2000"}},
	}, Eval: c02Eval, Sample: 20000}
	s := c02Spec
	s.Valid = func(v []int) bool {
		sec := s.Val(v, "second")
		if sec != "normal" {
			for _, f := range []string{"transport", "host", "port", "received", "rport", "extra"} {
				if v[s.idx(f)] != 0 {
					return false
				}
			}
		}
		if sec == "none" && v[s.idx("rest")] != 0 {
			return false
		}
		n := 1
		if sec != "none" {
			n = 2 + len(c02Rest[s.Val(v, "rest")])
		}
		mask := v[s.idx("layout")]
		if s.Val(v, "layout") == "m31" {
			mask = 31
		}
		if mask >= 1<<(n-1) {
			return false
		}
		return true
	}
	s.Reduce = func(v []int) bool {
		sec := s.Val(v, "second")
		n := 1
		if sec != "none" {
			n = 2 + len(c02Rest[s.Val(v, "rest")])
		}
		mask := v[s.idx("layout")]
		if s.Val(v, "layout") == "m31" {
			mask = 31
		}
		// the full cross of layout x status x names is reduced: non-default status / names only with the two extreme layouts
		if (v[s.idx("status")] != 0 || v[s.idx("names")] != 0) && mask != 0 && mask != (1<<(n-1))-1 {
			return true
		}
		if v[s.idx("status")] != 0 && v[s.idx("names")] != 0 {
			return true
		}
		// configuration and body size are crossed with the routing entry (transport, host, port,
		// received, rport, rest, top, arrival) but not with the cosmetic dimensions
		// a name only the DNS knows: crossed with the routing entry and the configuration like the body size
		if s.Val(v, "host") == "dns-name" {
			if v[s.idx("status")] != 0 || v[s.idx("names")] != 0 || v[s.idx("extra")] != 0 || v[s.idx("body")] != 0 || mask != 0 {
				return true
			}
		}
		if v[s.idx("config")] != 0 || v[s.idx("body")] != 0 {
			if v[s.idx("status")] != 0 || v[s.idx("names")] != 0 || v[s.idx("extra")] != 0 || (mask != 0 && mask != (1<<(n-1))-1) {
				return true
			}
		}
		return false
	}
	addCheck(&Check{Flows: []flowOracle{flowExactlyOnce(false), flowResponseVia}, ID: "C02", Level: "model_checking",
		Rule:   "(inputs) complete product: routing entry (transport x host literal/host-table name/name only the DNS knows x port x received x rport {absent, valueless, numeric, non-numeric} x extra parameters, plus 6 undecodable / missing shapes) x top entry x 0-4 further entries x EVERY layout (all compositions into header lines, full/compact/mixed/upper-case names) x status class x arrival transport x configuration {default, no-received, must-record-route + keep-next-hop-route, two listens entries with opposite received settings} x body {none, 2000 bytes} (the last two crossed with the routing entry, not with the cosmetic dimensions), each on a fresh world, and a second pass feeding all cases of one class into ONE long-lived world; (histories) explicit-state BFS by replay over three concurrent transactions (UDP and TCP user agents, UDP and TCP backends): events {request t, backend answers t with 180 / 200 (repeatable)} in every order to depth 6 (thorough 8), received-support on/off; non-trivial = a Via entry remains after the pop / history longer than one event",
		Assume: []string{"sent-by hosts are IPv4 literals or host-table names (stated domain); undecodable shapes only in the two entries the proxy must consult"},
		Run: func(c *Ctx) {
			c02Spec.Run(c)
			c02AgedSpec().Run(c)
			c02RunHist(c)
		},
		Replay: func(c *Ctx, raw json.RawMessage) string {
			var h c02Hist
			if err := json.Unmarshal(raw, &h); err == nil && len(h.Hist) > 0 {
				_, cl, _ := c02HistExec(h.Received, h.Hist)
				return cl
			}
			if cl, ok := c02AgedSpec().Replay(raw); ok {
				return cl
			}
			return c02Spec.Replay(raw)
		},
	})
}
