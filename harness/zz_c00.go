//go:build verif && (c00 || all)

package main

import (
	"fmt"
	"strings"
)

// C00: smoke test of the machinery itself (not a property).
func init() {
	addCheck(&Check{ID: "C00", Level: "exploration", Rule: "smoke", Run: func(c *Ctx) {
		if c.Worker != 0 {
			return
		}
		y := `
proxies:
- name: svc.example.com
  dialogTimeout: 10
  listens:
  - address: 127.0.0.1
    udp-port: 7890
    tcp-port: 7891
    backends:
    - udp://127.0.0.1:7990
    - tcp://127.0.0.1:7991
`
		for _, useMain := range []bool{false, true} {
			s := StartSim(y, SimOpts{Main: useMain})
			be := s.UDPPeer("127.0.0.1:7990")
			ua := s.UDPPeer("127.0.0.9:5060")
			bl := s.TCPListen("127.0.0.1:7991")
			for i := 0; i < 2; i++ {
				ua.Send("127.0.0.1:7890", []byte(fmt.Sprintf("INVITE sip:bob@svc.example.com SIP/2.0\r\nVia: SIP/2.0/UDP 127.0.0.9:5060;branch=z9hG4bK%d\r\nMax-Forwards: 70\r\nFrom: <sip:alice@a.example.com>;tag=1\r\nTo: <sip:bob@svc.example.com>\r\nCall-ID: c%d\r\nCSeq: 1 INVITE\r\nContent-Length: 4\r\n\r\nbody", i, i)))
				s.Run()
			}
			for _, p := range s.Emitted() {
				fmt.Printf("%s %s -> %s\n%s\n---\n", p.Proto, p.From, p.To, strings.ReplaceAll(string(p.Data), "\r\n", "\n"))
			}
			fmt.Println("udp backend got", len(be.Take()), "tcp backend accepted", bl.Accept() != nil, "verdict", s.Verdict(), "blocked", s.W.Blocked())
			fmt.Println("proxies", len(s.Proxies()), "rr", len(s.RoundRobins()))
			s.Close()
			c.Res.Evaluations++
			c.Res.Nontrivial++
		}
		c.Res.Nontrivial++
		c.Sample("smoke")
	}})
}
