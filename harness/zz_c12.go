//go:build verif && (c12 || all)

package main

import (
	"encoding/json"
	"fmt"
	"strings"

	"github.com/ochinchina/sipproxy/vrt/vnet"
)

// C12 — responses to TCP requests return on the connection the request used (DESIGN.md §4 C12).

type c12Ev struct {
	Kind string `json:"kind"` // req | ans
	K    int    `json:"conn"`
	T    int    `json:"txn"`
	Code int    `json:"code,omitempty"`
}

func (e c12Ev) String() string {
	if e.Kind == "req" {
		return fmt.Sprintf("req(c%d,t%d)", e.K, e.T)
	}
	if e.Kind == "tick" {
		return fmt.Sprintf("tick(%ds)", e.Code)
	}
	return fmt.Sprintf("ans(c%d,t%d,%d)", e.K, e.T, e.Code)
}

type c12Flavor struct {
	Received string `json:"received"` // on | off
	SentBy   string `json:"sentby"`   // same | different | table-name | unknown-name | true-port | dns-name | backend-address
	RPort    bool   `json:"rport"`
	Backend  string `json:"backend"`                  // udp | tcp
	Branch   string `json:"branch,omitempty"`         // "" pairwise unrelated | prefix: every branch is a proper prefix of the next one
	DT       int    `json:"dialog_timeout,omitempty"` // dialogTimeout of the service in seconds (0 = not configured)
	RPortVal string `json:"rport_value,omitempty"`    // the sender wrote a VALUE into its rport parameter (;rport=5060)
	Answer   string `json:"answer,omitempty"`         // how the backend answers: "" from its configured address with the Via lines as received | foreign: from another port of its host | joined: all Via values in one line | foreign+joined
}

func (f c12Flavor) String() string {
	s := fmt.Sprintf("received=%s,sentby=%s,rport=%v,backend=%s", f.Received, f.SentBy, f.RPort, f.Backend)
	if f.Branch != "" {
		s += ",branch=" + f.Branch
	}
	if f.DT != 0 {
		s += fmt.Sprintf(",dialogTimeout=%d", f.DT)
	}
	if f.Answer != "" {
		s += ",answer=" + f.Answer
	}
	if f.RPortVal != "" {
		s += ",rport-value=" + f.RPortVal
	}
	return s
}

type c12Case struct {
	Flavor c12Flavor `json:"flavor"`
	NConn  int       `json:"nconn"`
	Hist   []c12Ev   `json:"history"`
}

func c12Exec(fl c12Flavor, nconn int, hist []c12Ev) (string, string, string) {
	cfg := RCfg{Name: "svc.example.com", Listens: []RListen{{Addr: "127.0.0.1", UDP: 5060, TCP: 5062, Backends: []string{fl.Backend + "://127.0.1.1:7000", fl.Backend + "://127.0.1.2:7000"}}},
		Hosts: [][2]string{{"ua.example.net", "127.0.0.1"}}}
	if fl.Received == "off" {
		cfg.Listens[0].NoReceived = "true"
	}
	cfg.DialogTimeout = fl.DT
	// a name that is not in the host table but resolves through the (simulated) DNS
	preStart = func() { vnet.SetHost("uadns.example.net", false, "127.0.0.1") }
	w := StartRelayWorld(SimOpts{}, cfg)
	preStart = nil
	defer w.Close()
	// the clients' announced addresses must not collide with the universe's listeners: use ports 6000+k
	conns := make([]*vnet.TCPConn, nconn)
	for k := range conns {
		from := "127.0.0.1:0"
		if fl.SentBy == "backend-address" {
			// the clients are processes on the host of the first backend, and they announce that backend's own
			// listening address and port: their responses still belong on the connections they opened
			from = "127.0.1.1:0"
		}
		c, err := w.S.TCPDial(from, "127.0.0.1:5062")
		if err != nil {
			panic(err)
		}
		conns[k] = c
	}
	w.S.Run()
	w.Observe()
	type txn struct {
		sent    bool
		relayed *WMsg
		backend string
		bconn   *vnet.TCPConn
		n180    int
		nfinal  int
	}
	tx := map[[2]int]*txn{}
	get := func(k, t int) *txn {
		if x, ok := tx[[2]int{k, t}]; ok {
			return x
		}
		x := &txn{}
		tx[[2]int{k, t}] = x
		return x
	}
	sentBy := func(k int) string {
		switch fl.SentBy {
		case "different":
			return fmt.Sprintf("127.0.0.1:%d", 6000+k)
		case "table-name":
			return "ua.example.net:6000"
		case "unknown-name":
			return "nowhere.example.net:6000"
		case "dns-name":
			return "uadns.example.net:6000"
		case "true-port":
			return conns[k].LocalString()
		case "backend-address":
			return "127.0.1.1:7000"
		}
		return "127.0.0.1:6000"
	}
	for i, ev := range hist {
		desc := fmt.Sprintf("step %d %v of %v (%s, %d connections)", i, ev, hist, fl, nconn)
		x := get(ev.K, ev.T)
		w.Observe()
		switch ev.Kind {
		case "tick":
			w.S.W.Advance(int64(ev.Code) * 1e9)
			w.S.Run()
		case "req":
			if x.sent || ev.K >= nconn {
				return "", "invalid", ""
			}
			x.sent = true
			via := "SIP/2.0/TCP " + sentBy(ev.K) + fmt.Sprintf(";branch=z9hG4bKc%dt%d", ev.K, ev.T)
			if fl.Branch == "prefix" {
				// un-padded counters: z9hG4bK-t1, -t10, -t100, ...
				via = "SIP/2.0/TCP " + sentBy(ev.K) + ";branch=z9hG4bK-t1" + strings.Repeat("0", ev.K*2+ev.T)
			}
			if fl.RPort {
				via += ";rport"
				if fl.RPortVal != "" {
					via += "=" + fl.RPortVal
				}
			}
			m := MsgSpec{Method: "INVITE", RURI: "sip:bob@svc.example.com", Vias: []string{via}, From: fmt.Sprintf("<sip:u%d@ua.example.net>;tag=f%d%d", ev.K, ev.K, ev.T), To: "<sip:bob@svc.example.com>",
				CallID: fmt.Sprintf("c12-%d-%d", ev.K, ev.T), CSeq: "1 INVITE"}.Build()
			for _, c := range conns {
				c.Drain()
			}
			w.SendTCP(conns[ev.K], m.Render())
			obs := w.Observe()
			if len(obs.Pkts) != 1 {
				return "", "request-not-relayed-once", desc + ": " + obs.Summary()
			}
			x.backend = obs.Pkts[0].To
			x.relayed, _ = ReadWire(obs.Pkts[0].Data)
			if obs.Pkts[0].Proto == "tcp" {
				acc := w.acc[x.backend]
				if len(acc) == 0 {
					return "", "harness", "no accepted backend connection"
				}
				x.bconn = acc[len(acc)-1]
				x.bconn.Drain()
			}
		case "ans":
			if !x.sent || x.relayed == nil || ev.K >= nconn {
				return "", "invalid", ""
			}
			if ev.Code < 200 {
				if x.nfinal > 0 || x.n180 >= 1 {
					return "", "invalid", ""
				}
				x.n180++
			} else {
				if x.nfinal >= 2 {
					return "", "invalid", ""
				}
				x.nfinal++
			}
			r := ResponseTo(x.relayed, ev.Code, fmt.Sprintf("t%d%d", ev.K, ev.T))
			if strings.Contains(fl.Answer, "joined") {
				// the backend echoes the Via values joined into one header line
				var vals []string
				var rest []WHdr
				at := -1
				for i, h := range r.Hdrs {
					if canonName(h.Name) == "via" {
						vals = append(vals, h.Value)
						if at < 0 {
							at = i
						}
					} else {
						rest = append(rest, h)
					}
				}
				if at >= 0 {
					r.Hdrs = append(append(append([]WHdr{}, rest[:at]...), WHdr{"Via", strings.Join(vals, ", ")}), rest[at:]...)
				}
			}
			if x.bconn != nil {
				w.SendTCP(x.bconn, r.Render())
			} else if strings.Contains(fl.Answer, "foreign") {
				// the answer leaves the backend host from another port than the configured one
				w.SendUDP(strings.Split(x.backend, ":")[0]+":7099", "127.0.0.1:5060", r.Render())
			} else {
				w.SendUDP(x.backend, "127.0.0.1:5060", r.Render())
			}
			obs := w.Observe()
			if ev.Code >= 200 && x.nfinal > 1 {
				break // later final responses: outside the statement
			}
			want := conns[ev.K].Peer().ID()
			onConn := func(id int) string {
				for k, c := range conns {
					if c.Peer().ID() == id {
						return fmt.Sprintf("client connection %d", k)
					}
				}
				return fmt.Sprintf("connection #%d (not a client connection)", id)
			}
			if len(obs.Dials) > 0 {
				return "", "new-connection-dialled", fmt.Sprintf("%s: the proxy dialled %v instead of using the connection the request arrived on; %s", desc, obs.Dials, obs.Summary())
			}
			if len(obs.Pkts) != 1 {
				return "", "response-not-relayed-once", fmt.Sprintf("%s: %s", desc, obs.Summary())
			}
			p := obs.Pkts[0]
			if p.Proto != "tcp" || p.Conn != want {
				where := p.Proto + " to " + p.To
				if p.Proto == "tcp" {
					where = onConn(p.Conn)
				}
				return "", "response-on-wrong-connection", fmt.Sprintf("%s: the request arrived on client connection %d but the response was written on %s", desc, ev.K, where)
			}
		}
		if vd := w.S.Verdict(); vd != "" {
			return "", "health", desc + ": " + vd
		}
	}
	var b strings.Builder
	for k := 0; k < nconn; k++ {
		for t := 0; t < 2; t++ {
			x := get(k, t)
			fmt.Fprintf(&b, "%v,%s,%d,%d|", x.sent, x.backend, x.n180, x.nfinal)
		}
	}
	p := w.S.Proxies()[0]
	// the transport table: keys and which side is set (connection identity is covered by the model state)
	keys, ok1 := wbTransports(p)
	rot, ok2 := wbRotation(w.S.RoundRobins()[0])
	if !ok1 || !ok2 {
		b.WriteString("wb:" + wbDump(p) + wbDump(w.S.RoundRobins()[0]))
		return b.String(), "", ""
	}
	b.WriteString(strings.ReplaceAll(strings.Join(keys, ";"), "\x00", ":"))
	fmt.Fprintf(&b, "|rr=%d", rot.Index)
	return b.String(), "", ""
}

func sortedStrs(s []string) []string {
	out := append([]string(nil), s...)
	for i := range out {
		for j := i + 1; j < len(out); j++ {
			if out[j] < out[i] {
				out[i], out[j] = out[j], out[i]
			}
		}
	}
	return out
}

// c12CrossEntry: a service with two listens entries; the next hop was learned through the second
// entry, the request arrives on a TCP connection of the first. The response comes back in through the
// second entry and must still be written on the client's connection.
func c12CrossEntry(c *Ctx, variant int) {
	rport, recvOff := variant&1 != 0, variant&2 != 0
	l1 := RListen{Addr: "127.0.0.1", UDP: 5060, TCP: 5062, Backends: []string{"udp://127.0.1.1:7000"}}
	if recvOff {
		l1.NoReceived = "true"
	}
	cfg := RCfg{Name: "svc.example.com", Listens: []RListen{l1, {Addr: "127.0.0.2", UDP: 5060, TCP: 5062, Backends: []string{"udp://127.0.1.3:7000"}}}}
	w := StartRelayWorld(SimOpts{}, cfg)
	defer w.Close()
	c.Res.Evaluations++
	c.Res.Executions++
	hop := "127.0.2.1:5070"
	pm := MsgSpec{Method: "OPTIONS", RURI: "sip:x@foreign.example.net", Vias: []string{"SIP/2.0/UDP " + hop + ";branch=z9hG4bKpre"}, From: "<sip:nh@nh.example.net>;tag=p", To: "<sip:x@nomatch.example.org>", CallID: "pre", CSeq: "1 OPTIONS"}.Build()
	w.SendUDP(hop, "127.0.0.2:5060", pm.Render())
	w.Observe()
	cli, err := w.S.TCPDial("127.0.0.9:0", "127.0.0.1:5062")
	if err != nil {
		panic(err)
	}
	w.S.Run()
	via := "SIP/2.0/TCP 127.0.0.9:6000;branch=z9hG4bKx1"
	if rport {
		via += ";rport"
	}
	m := MsgSpec{Method: "OPTIONS", RURI: "sip:bob@foreign.example.net", Vias: []string{via}, Routes: []string{"<sip:" + hop + ";lr>"}, From: "<sip:alice@ua.example.net>;tag=f1", To: "<sip:bob@nomatch.example.org>", CallID: "x1", CSeq: "1 OPTIONS"}.Build()
	w.SendTCP(cli, m.Render())
	obs := w.Observe()
	if len(obs.Pkts) != 1 || obs.Pkts[0].To != hop {
		return
	}
	out, err := ReadWire(obs.Pkts[0].Data)
	if err != nil {
		return
	}
	vs, _ := out.ViaStack()
	if len(vs) != 2 {
		return
	}
	c.Res.Nontrivial++
	w.SendUDP(hop, vs[0].Host+":"+vs[0].Port, ResponseTo(out, 200, "tt").Render())
	robs := w.Observe()
	if len(robs.Pkts) == 1 && robs.Pkts[0].Proto == "tcp" && robs.Pkts[0].Conn == cli.Peer().ID() && len(robs.Dials) == 0 {
		return
	}
	c.Violate("cross-entry-response-not-on-the-connection|two-listens-entries", "cross-entry-response-not-on-the-connection",
		fmt.Sprintf("two listens entries (received-support of the first: %v, rport requested: %v): the request arrived on a TCP connection of entry 1 and left through entry 2's listener %s:%s (the next hop had been learned through entry 2); its response came back in through entry 2 and should be written on the client's connection; observed: %s",
			!recvOff, rport, vs[0].Host, vs[0].Port, robs.Summary()), map[string]int{"cross_entry": variant + 1})
}

func c12Run(c *Ctx) {
	for variant := 0; variant < 4; variant++ {
		if c.Worker == (8+variant)%c.NWorkers {
			c12CrossEntry(c, variant)
		}
	}
	depth, nconn := 6, 2
	if c.Thorough() {
		depth, nconn = 7, 3
	}
	var flavors []c12Flavor
	for _, rc := range []string{"on", "off"} {
		for _, sb := range []string{"same", "different", "table-name", "unknown-name", "true-port", "dns-name", "backend-address"} {
			for _, rp := range []bool{true, false} {
				for _, be := range []string{"udp", "tcp"} {
					flavors = append(flavors, c12Flavor{rc, sb, rp, be, "", 0, "", ""})
				}
			}
		}
	}
	// the sender pre-filled its rport parameter with a value (its own idea of its port, or a foreign one)
	for _, rc := range []string{"on", "off"} {
		for _, sb := range []string{"same", "different"} {
			for _, rv := range []string{"5060", "6001", "40000"} {
				for _, be := range []string{"udp", "tcp"} {
					flavors = append(flavors, c12Flavor{rc, sb, true, be, "", 0, rv, ""})
				}
			}
		}
	}
	for _, rc := range []string{"on", "off"} {
		for _, sb := range []string{"same", "table-name"} {
			for _, rp := range []bool{true, false} {
				for _, be := range []string{"udp", "tcp"} {
					flavors = append(flavors, c12Flavor{rc, sb, rp, be, "prefix", 0, "", ""})
				}
			}
		}
	}
	// a busy period: one transaction waits for its answer while another connection completes n
	// transactions; then the delayed 180 and 200 arrive
	busy := 1200
	if c.Thorough() {
		busy = 6000
	}
	// answers that come from another port of the backend host and / or carry all Via values in one line
	for fi, fl := range flavors {
		if fl.Branch != "" || !c.Mine(int64(fi+5)) {
			continue
		}
		for _, ans := range []string{"foreign", "joined", "foreign+joined"} {
			if fl.Backend == "tcp" && ans != "joined" {
				continue
			}
			f2 := fl
			f2.Answer = ans
			for _, h := range [][]c12Ev{
				{{"req", 0, 0, 0}, {"req", 1, 0, 0}, {"ans", 0, 0, 180}, {"ans", 1, 0, 200}, {"ans", 0, 0, 200}},
				{{"req", 0, 0, 0}, {"req", 1, 0, 0}, {"req", 0, 1, 0}, {"ans", 1, 0, 180}, {"ans", 0, 1, 200}, {"ans", 0, 0, 200}, {"ans", 1, 0, 200}}} {
				_, cl, detail := c12Exec(f2, 2, h)
				c.Res.Executions++
				c.Res.Evaluations++
				c.Res.Nontrivial++
				c.Res.Transitions += int64(len(h))
				if cl != "" && cl != "invalid" {
					c.Violate(cl+"|"+f2.String(), cl, detail, c12Case{f2, 2, h})
				}
			}
		}
	}
	// a table that fills up with LIVE entries: one transaction waits while another connection sends
	// `busy` requests that stay unanswered; then the delayed 180 and 200 arrive
	for fi, fl := range flavors {
		if fl.Backend != "udp" || fl.Branch != "" || fl.SentBy != "different" || !c.Mine(int64(fi+9)) {
			continue
		}
		h := []c12Ev{{"req", 0, 0, 0}}
		for i := 0; i < busy; i++ {
			h = append(h, c12Ev{"req", 1, 2 + i, 0})
		}
		h = append(h, c12Ev{"ans", 0, 0, 180}, c12Ev{"ans", 0, 0, 200})
		_, cl, detail := c12Exec(fl, 2, h)
		c.Res.Executions++
		c.Res.Evaluations++
		c.Res.Nontrivial++
		c.Res.Transitions += int64(len(h))
		if cl != "" && cl != "invalid" {
			c.Violate(cl+"|"+fl.String()+"|unanswered-load", cl, fmt.Sprintf("%d unanswered transactions on connection 1 while (c0,t0) waits: %s", busy, clip(detail, 1500)), c12Case{fl, 2, h})
		}
	}
	// slow answers: the clock advances (2 s ... 1000 s, less than an hour in total) between the
	// request, its 180 and its 200, under a short, a medium and no configured dialogTimeout
	for fi, fl := range flavors {
		if fl.Branch != "" || !c.Mine(int64(fi+3)) {
			continue
		}
		for _, dt := range []int{0, 1, 30} {
			for _, tk := range [][2]int{{2, 2}, {61, 61}, {200, 0}, {0, 200}, {1000, 1000}} {
				f2 := fl
				f2.DT = dt
				h := []c12Ev{{"req", 0, 0, 0}, {"req", 1, 0, 0}, {"tick", 0, 0, tk[0]}, {"ans", 0, 0, 180}, {"tick", 0, 0, tk[1]}, {"ans", 0, 0, 200}, {"ans", 1, 0, 200}}
				_, cl, detail := c12Exec(f2, 2, h)
				c.Res.Executions++
				c.Res.Evaluations++
				c.Res.Nontrivial++
				c.Res.Transitions += int64(len(h))
				if cl != "" && cl != "invalid" {
					c.Violate(cl+"|"+f2.String()+"|slow-answers", cl, detail, c12Case{f2, 2, h})
				}
			}
		}
	}
	for fi, fl := range flavors {
		if fl.Backend != "udp" || fl.Branch != "" || !c.Mine(int64(fi+7)) {
			continue
		}
		h := []c12Ev{{"req", 0, 0, 0}}
		for i := 0; i < busy; i++ {
			h = append(h, c12Ev{"req", 1, 2 + i, 0}, c12Ev{"ans", 1, 2 + i, 200})
		}
		h = append(h, c12Ev{"ans", 0, 0, 180}, c12Ev{"ans", 0, 0, 200})
		_, cl, detail := c12Exec(fl, 2, h)
		c.Res.Executions++
		c.Res.Evaluations++
		c.Res.Nontrivial++
		c.Res.Transitions += int64(len(h))
		if cl != "" && cl != "invalid" {
			c.Violate(cl+"|"+fl.String()+"|busy-period", cl, fmt.Sprintf("busy period of %d answered transactions on connection 1 while (c0,t0) waits: %s", busy, clip(detail, 1500)), c12Case{fl, 2, h})
		}
	}
	var evs []c12Ev
	for k := 0; k < nconn; k++ {
		for t := 0; t < 2; t++ {
			evs = append(evs, c12Ev{"req", k, t, 0})
		}
	}
	for k := 0; k < nconn; k++ {
		for t := 0; t < 2; t++ {
			evs = append(evs, c12Ev{"ans", k, t, 180}, c12Ev{"ans", k, t, 200})
		}
	}
	for fi, fl := range flavors {
		if !c.Mine(int64(fi)) {
			continue
		}
		fl := fl
		st, tr, done := BFSReplay(c, depth, evs, false, func(h []c12Ev) (string, bool) {
			// symmetry: connections are interchangeable; the first request comes from connection 0
			if len(h) > 0 && h[0].Kind == "req" && h[0].K != 0 {
				return "", false
			}
			key, cl, detail := c12Exec(fl, nconn, h)
			c.Res.Executions++
			if cl == "invalid" {
				return "", false
			}
			c.Res.Evaluations++
			if len(h) > 1 {
				c.Res.Nontrivial++
			}
			if cl != "" {
				var ts []string
				for _, e := range h {
					ts = append(ts, e.String())
				}
				c.Violate(cl+"|"+fl.String()+"|"+strings.Join(ts, ">"), cl, detail, c12Case{fl, nconn, h})
				return "", false
			}
			c.Outcome(key)
			if len(h) == depth-1 {
				c.Sample(c12Case{fl, nconn, h})
			}
			return key, true
		})
		c.Res.States += st
		c.Res.Transitions += tr
		if !done {
			c.Cap("history BFS stopped by the internal deadline")
		}
	}
}

func init() {
	addCheck(&Check{Flows: []flowOracle{flowExactlyOnce(false)}, ID: "C12", Level: "model_checking",
		Rule:   "explicit-state BFS by replay (depth 6 with 2 client connections; thorough depth 7 with 3), all connections from 127.0.0.1 (or from the host of the first backend, announcing that backend's listening address) to one listener, two transactions per connection with pairwise distinct branches: events {connection k sends request t, backend answers (k,t) with 180, with 200, with a second 200} in every order, crossed with 56 flavours: received-support on/off x Via sent-by {same for all connections, different, host-table name, unknown name, equal to the true peer port, a name only the DNS knows} x rport requested or not (or pre-filled by the sender with a value: 24 more flavours) x UDP or TCP backends, plus 16 flavours in which every branch is a proper prefix of the next (un-padded counters); plus, per UDP-backend flavour, a busy period: one transaction waits while another connection completes 1200 (thorough 6000) transactions, then its 180 and 200 arrive; plus a service with two listens entries whose next hop was learned through the other entry (tracked finding); plus answers that leave the backend host from another port and / or carry all Via values in one line; plus a table filling up with 1200 (6000) LIVE entries (unanswered requests) while a transaction waits; plus slow answers (clock steps of 2-1000 s between request, 180 and 200) under dialogTimeout none / 1 / 30 s for all 40 flavours; oracle: every provisional and the first final response is written on the connection that carried its request, on no other, and no connection is dialled; later finals are don't-cares; schedules: see the race tier; non-trivial = history longer than one event",
		Assume: []string{"connections are interchangeable: histories start with connection 0 (symmetry reduction)"},
		Run:    c12Run,
		Finalize: func(c *Ctx, m *Result) {
			// collapse per (clause, flavour): keep the shortest history
			best := map[string]*Violation{}
			for _, v := range m.Violations {
				parts := strings.SplitN(v.Sig, "|", 3)
				if len(parts) != 3 {
					best[v.Sig] = v
					continue
				}
				k := parts[0] + "|" + parts[1]
				if b, ok := best[k]; !ok || len(v.Sig) < len(b.Sig) {
					if ok {
						v.Count += b.Count
					}
					best[k] = v
				} else {
					b.Count += v.Count
				}
			}
			m.Violations = nil
			for k, v := range best {
				v.Sig = k
				m.Violations = append(m.Violations, v)
			}
		},
		Replay: func(c *Ctx, raw json.RawMessage) string {
			var ce map[string]int
			if json.Unmarshal(raw, &ce) == nil && ce["cross_entry"] > 0 {
				cc := &Ctx{ID: "C12x", Res: newResult(), vmap: map[string]*Violation{}, Deadline: c.Deadline, NWorkers: 1}
				c12CrossEntry(cc, ce["cross_entry"]-1)
				if len(cc.Res.Violations) > 0 {
					return cc.Res.Violations[0].Clause
				}
				return ""
			}
			var cs c12Case
			json.Unmarshal(raw, &cs)
			_, cl, _ := c12Exec(cs.Flavor, cs.NConn, cs.Hist)
			return cl
		}})
}
