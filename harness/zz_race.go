//go:build verif

package main

import (
	"bytes"
	"fmt"
	"os"

	"github.com/ochinchina/sipproxy/vrt"
	"github.com/ochinchina/sipproxy/vrt/vnet"
	"regexp"
	"sort"
	"strings"
)

// Race reports of the Go race detector are written to GORACE=log_path.<pid>. After every
// execution the worker looks at what was appended and attributes it to that execution
// (DESIGN.md §2.5). A report is fingerprinted by the innermost repository frames of its two
// access stacks (function names, not line numbers).

type raceLog struct {
	path string
	off  int64
}

var theRaceLog *raceLog

func (c *Ctx) initRaceLog() {
	gr := os.Getenv("GORACE")
	for _, f := range strings.Fields(gr) {
		if strings.HasPrefix(f, "log_path=") {
			theRaceLog = &raceLog{path: fmt.Sprintf("%s.%d", strings.TrimPrefix(f, "log_path="), os.Getpid())}
		}
	}
}

type raceReport struct {
	Sig    string
	Text   string
	Frames []string
}

var raceFrameFile = regexp.MustCompile(`^\s+(\S+\.go):(\d+)`)

// newRaceReports returns the reports appended since the last call.
func newRaceReports() []raceReport {
	if theRaceLog == nil {
		return nil
	}
	f, err := os.Open(theRaceLog.path)
	if err != nil {
		return nil
	}
	defer f.Close()
	st, _ := f.Stat()
	if st.Size() <= theRaceLog.off {
		return nil
	}
	buf := make([]byte, st.Size()-theRaceLog.off)
	f.ReadAt(buf, theRaceLog.off)
	theRaceLog.off = st.Size()
	var out []raceReport
	for _, blk := range strings.Split(string(buf), "==================") {
		if !strings.Contains(blk, "DATA RACE") {
			continue
		}
		out = append(out, parseRaceReport(blk))
	}
	return out
}

// parseRaceReport extracts, for each of the two access stacks, the innermost frame that lies in
// a repository file (package main, file not starting with zz_ and not under vrt/).
func parseRaceReport(blk string) raceReport {
	lines := strings.Split(blk, "\n")
	var stacks [][]string // function names of repository frames per stack
	var cur []string
	inAccess := false
	flush := func() {
		if inAccess {
			stacks = append(stacks, cur)
		}
		cur = nil
	}
	for i := 0; i < len(lines); i++ {
		l := lines[i]
		switch {
		case strings.HasPrefix(l, "Write at ") || strings.HasPrefix(l, "Read at ") || strings.HasPrefix(l, "Previous write at ") || strings.HasPrefix(l, "Previous read at ") ||
			strings.HasPrefix(l, "Atomic") || strings.HasPrefix(l, "Previous atomic"):
			flush()
			inAccess = true
		case strings.HasPrefix(l, "Goroutine ") || strings.HasPrefix(l, "Location"):
			flush()
			inAccess = false
		case inAccess && strings.HasPrefix(l, "  ") && !strings.HasPrefix(l, "   ") && i+1 < len(lines):
			fn := strings.TrimSpace(l)
			fn = strings.TrimSuffix(fn, "()")
			m := raceFrameFile.FindStringSubmatch(lines[i+1])
			if m == nil {
				continue
			}
			file := m[1]
			base := file[strings.LastIndex(file, "/")+1:]
			if strings.HasPrefix(fn, "main.") && !strings.HasPrefix(base, "zz_") && !strings.Contains(file, "/vrt/") {
				cur = append(cur, fn)
			} else if strings.HasPrefix(fn, "main.") && strings.HasPrefix(base, "zz_") {
				cur = append(cur, "harness:"+fn)
			}
		}
	}
	flush()
	var tops []string
	for _, st := range stacks {
		top := "(no repository frame)"
		for _, fn := range st {
			if !strings.HasPrefix(fn, "harness:") {
				top = fn
				break
			}
		}
		if top == "(no repository frame)" && len(st) > 0 {
			top = st[0]
		}
		tops = append(tops, top)
	}
	sort.Strings(tops)
	return raceReport{Sig: "race|" + strings.Join(tops, "|"), Text: strings.TrimSpace(blk), Frames: tops}
}

// RaceCheck attributes the race reports produced since the previous call to the given case.
func (c *Ctx) RaceCheck(cs any) int {
	n := 0
	for _, r := range newRaceReports() {
		n++
		harnessOnly := true
		for _, f := range r.Frames {
			if !strings.HasPrefix(f, "harness:") && f != "(no repository frame)" {
				harnessOnly = false
			}
		}
		if harnessOnly {
			c.Res.Notes = append(c.Res.Notes, "race report without repository frames (harness): "+r.Sig)
			c.Violate("harness-"+r.Sig, "harness-race", r.Text, cs)
			continue
		}
		c.Violate(r.Sig, "data-race", r.Text, cs)
	}
	return n
}

type vrtPoint = vrt.Point

// race tiers and schedule replays of the individual checks register here
var raceRuns = map[string]func(c *Ctx){}
var schedReplays = map[string]func(cs SchedCase) string{}

// reactive doubles (managed goroutines of the harness): they answer every request they receive,
// copying the Via stack; they touch only driver-side sockets and local data.

func c09UDPBackend(addr string) { c09UDPBackendCodes(addr, []int{200}) }

func c09UDPBackendCodes(addr string, codes []int) {
	a, _ := vnet.ResolveUDPAddr("udp", addr)
	vnet.Fab.DriverMode = true
	c, err := vnet.ListenUDP("udp", a)
	vnet.Fab.DriverMode = false
	if err != nil {
		panic(err)
	}
	vrt.Go(func() {
		buf := make([]byte, 65536)
		for {
			n, _, err := c.ReadFromUDP(buf)
			if err != nil {
				return
			}
			m, err := ReadWire(buf[:n])
			if err != nil || !m.IsRequest() {
				continue
			}
			vs, _ := m.ViaStack()
			if len(vs) == 0 {
				continue
			}
			port := vs[0].Port
			if port == "" {
				port = "5060"
			}
			to, _ := vnet.ResolveUDPAddr("udp", vs[0].Host+":"+port)
			for _, code := range codes {
				c.WriteToUDP(ResponseTo(m, code, "be").Render(), to)
			}
		}
	})
}

func c09TCPBackend(addr string) {
	a, _ := vnet.ResolveTCPAddr("tcp", addr)
	vnet.Fab.DriverMode = true
	l, err := vnet.ListenTCP("tcp", a)
	vnet.Fab.DriverMode = false
	if err != nil {
		panic(err)
	}
	vrt.Go(func() {
		for {
			conn, err := l.AcceptTCP()
			if err != nil {
				return
			}
			vrt.Go(func() {
				var acc []byte
				buf := make([]byte, 65536)
				for {
					n, err := conn.Read(buf)
					if err != nil {
						return
					}
					acc = append(acc, buf[:n]...)
					for {
						i := bytes.Index(acc, []byte("\r\n\r\n"))
						if i < 0 {
							break
						}
						m, err := ReadWire(acc[:i+4])
						acc = acc[i+4:]
						if err == nil && m.IsRequest() {
							conn.Write(ResponseTo(m, 200, "be").Render())
						}
					}
				}
			})
		}
	})
}

// SchedCase is the replayable description of one explored execution.
type SchedCase struct {
	Scenario string `json:"scenario"`
	Choices  []int  `json:"choices"`
}

// SchedResult is what one execution of a schedule scenario reports.
type SchedResult struct {
	Trace   []vrtPoint
	Clause  string
	Detail  string
	Outcome string
}

// ExploreSchedules runs the deviation-bounded schedule search of one scenario (race tier): every
// execution is checked by the scenario's oracle and by the race detector.
func ExploreSchedules(c *Ctx, scenario string, bound int, exec func(prefix []int) SchedResult) {
	n, done := ExploreChoices(c, bound, func(prefix []int) []vrtPoint {
		r := exec(prefix)
		cs := SchedCase{scenario, prefix}
		c.Res.Evaluations++
		c.Res.Executions++
		c.Res.Transitions += int64(len(r.Trace))
		if len(prefix) > 0 {
			c.Res.Nontrivial++
		}
		if c.Res.Executions%400 == 1 {
			c.Sample(cs)
		}
		if r.Clause != "" {
			c.Violate(r.Clause+"|"+scenario, r.Clause, fmt.Sprintf("scenario %s, schedule %v:\n%s", scenario, prefix, r.Detail), cs)
		} else {
			c.Outcome(scenario + ": " + r.Outcome)
		}
		c.RaceCheck(cs)
		return r.Trace
	})
	c.Res.States += n
	c.Count("schedules_"+scenario, n)
	if done {
		c.Count(fmt.Sprintf("deviation_bound_completed_%s", scenario), int64(bound))
		if bound > c.Res.MaxDev {
			c.Res.MaxDev = bound
		}
	} else {
		c.Cap(fmt.Sprintf("schedule search of %s with %d deviations stopped by the internal deadline", scenario, bound))
	}
}
