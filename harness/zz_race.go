//go:build verif

package main

import (
	"fmt"
	"os"
	"regexp"
	"sort"
	"strings"
)

// Race reports of the Go race detector are written to GORACE=log_path.<pid>. After every
// execution the worker looks at what was appended and attributes it to that execution
// (DESIGN.md §2.5). A report is fingerprinted by the innermost repository frames of its two
// access stacks (function names, not line numbers).

type raceLog struct {
	path string
	off  int64
}

var theRaceLog *raceLog

func (c *Ctx) initRaceLog() {
	gr := os.Getenv("GORACE")
	for _, f := range strings.Fields(gr) {
		if strings.HasPrefix(f, "log_path=") {
			theRaceLog = &raceLog{path: fmt.Sprintf("%s.%d", strings.TrimPrefix(f, "log_path="), os.Getpid())}
		}
	}
}

type raceReport struct {
	Sig    string
	Text   string
	Frames []string
}

var raceFrameFile = regexp.MustCompile(`^\s+(\S+\.go):(\d+)`)

// newRaceReports returns the reports appended since the last call.
func newRaceReports() []raceReport {
	if theRaceLog == nil {
		return nil
	}
	f, err := os.Open(theRaceLog.path)
	if err != nil {
		return nil
	}
	defer f.Close()
	st, _ := f.Stat()
	if st.Size() <= theRaceLog.off {
		return nil
	}
	buf := make([]byte, st.Size()-theRaceLog.off)
	f.ReadAt(buf, theRaceLog.off)
	theRaceLog.off = st.Size()
	var out []raceReport
	for _, blk := range strings.Split(string(buf), "==================") {
		if !strings.Contains(blk, "DATA RACE") {
			continue
		}
		out = append(out, parseRaceReport(blk))
	}
	return out
}

// parseRaceReport extracts, for each of the two access stacks, the innermost frame that lies in
// a repository file (package main, file not starting with zz_ and not under vrt/).
func parseRaceReport(blk string) raceReport {
	lines := strings.Split(blk, "\n")
	var stacks [][]string // function names of repository frames per stack
	var cur []string
	inAccess := false
	flush := func() {
		if inAccess {
			stacks = append(stacks, cur)
		}
		cur = nil
	}
	for i := 0; i < len(lines); i++ {
		l := lines[i]
		switch {
		case strings.HasPrefix(l, "Write at ") || strings.HasPrefix(l, "Read at ") || strings.HasPrefix(l, "Previous write at ") || strings.HasPrefix(l, "Previous read at ") ||
			strings.HasPrefix(l, "Atomic") || strings.HasPrefix(l, "Previous atomic"):
			flush()
			inAccess = true
		case strings.HasPrefix(l, "Goroutine ") || strings.HasPrefix(l, "Location"):
			flush()
			inAccess = false
		case inAccess && strings.HasPrefix(l, "  ") && !strings.HasPrefix(l, "   ") && i+1 < len(lines):
			fn := strings.TrimSpace(l)
			fn = strings.TrimSuffix(fn, "()")
			m := raceFrameFile.FindStringSubmatch(lines[i+1])
			if m == nil {
				continue
			}
			file := m[1]
			base := file[strings.LastIndex(file, "/")+1:]
			if strings.HasPrefix(fn, "main.") && !strings.HasPrefix(base, "zz_") && !strings.Contains(file, "/vrt/") {
				cur = append(cur, fn)
			} else if strings.HasPrefix(fn, "main.") && strings.HasPrefix(base, "zz_") {
				cur = append(cur, "harness:"+fn)
			}
		}
	}
	flush()
	var tops []string
	for _, st := range stacks {
		top := "(no repository frame)"
		for _, fn := range st {
			if !strings.HasPrefix(fn, "harness:") {
				top = fn
				break
			}
		}
		if top == "(no repository frame)" && len(st) > 0 {
			top = st[0]
		}
		tops = append(tops, top)
	}
	sort.Strings(tops)
	return raceReport{Sig: "race|" + strings.Join(tops, "|"), Text: strings.TrimSpace(blk), Frames: tops}
}

// RaceCheck attributes the race reports produced since the previous call to the given case.
func (c *Ctx) RaceCheck(cs any) int {
	n := 0
	for _, r := range newRaceReports() {
		n++
		harnessOnly := true
		for _, f := range r.Frames {
			if !strings.HasPrefix(f, "harness:") && f != "(no repository frame)" {
				harnessOnly = false
			}
		}
		if harnessOnly {
			c.Res.Notes = append(c.Res.Notes, "race report without repository frames (harness): "+r.Sig)
			c.Violate("harness-"+r.Sig, "harness-race", r.Text, cs)
			continue
		}
		c.Violate(r.Sig, "data-race", r.Text, cs)
	}
	return n
}
