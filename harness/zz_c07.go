//go:build verif && (c07 || all)

package main

import (
	"encoding/json"
	"fmt"
	"strconv"
	"strings"

	"github.com/ochinchina/sipproxy/vrt/vnet"
)

// C07 — received / rport record the packet's true source when enabled (DESIGN.md §4 C07).
// Every cell runs through the REAL main() with a YAML file, so the configuration wiring is
// part of what is checked.

var c07Spec *EnumSpec

func c07Eval(v []int) (string, string, bool) {
	s := c07Spec
	cfg := RCfg{Name: "svc.example.com", Listens: []RListen{{Addr: "127.0.0.1", UDP: 5060, TCP: 5062, Backends: []string{"udp://127.0.1.1:7000"}}},
		Routes: []RRoute{{Dests: []string{"static.example.org"}, Protocol: "udp", NextHop: "127.0.3.1:5080"}}}
	switch s.Val(v, "no-received") {
	case "false":
		cfg.Listens[0].NoReceived = "false"
	case "true":
		cfg.Listens[0].NoReceived = "true"
	}
	arrival := s.Val(v, "arrival")
	if arrival == "tcp-dialled-backend" {
		cfg.Listens[0].Backends = []string{"tcp://127.0.1.2:7000"}
	}
	enabled := cfg.Listens[0].received()
	preludeTo := "127.0.0.1:5060"
	if s.Val(v, "entries") == "hop-behind-opposite-entry" {
		// a second listens entry with the OPPOSITE setting; the next hop is learned through it, so the
		// request leaves through it and the response comes back in through it
		l2 := RListen{Addr: "127.0.0.2", UDP: 5060, TCP: 5062, Backends: []string{"udp://127.0.1.3:7000"}}
		if enabled {
			l2.NoReceived = "true"
		}
		cfg.Listens = append(cfg.Listens, l2)
		preludeTo = "127.0.0.2:5060"
	}
	w := StartRelayWorld(SimOpts{Main: s.Val(v, "start") == "main"}, cfg)
	defer w.Close()

	// the sender's top Via names another host and port than the packet's true source
	viaHost, viaPort := "10.99.0.1", "5099"
	srcIP, srcPort := "127.0.0.9", 5060
	switch s.Val(v, "source") {
	case "other-port":
		srcIP, srcPort = "127.0.0.77", 30001
	case "top-port":
		srcIP, srcPort = "127.0.0.77", 65535
	case "equals-sent-by":
		viaHost, viaPort = "127.0.0.9", "5060"
	}
	transport := "UDP"
	if arrival != "udp" {
		transport = "TCP"
	}
	var pars []string
	switch s.Val(v, "rport") {
	case "valueless":
		pars = append(pars, "rport")
	case "spoofed":
		pars = append(pars, "rport=1111")
	}
	if s.Val(v, "received") == "spoofed" {
		pars = append(pars, "received=10.66.6.6")
	}
	if s.Val(v, "manypars") == "20-before" {
		// a long parameter list ahead of the ones the proxy has to find
		var many []string
		for i := 0; i < 20; i++ {
			many = append(many, fmt.Sprintf("p%d=v%d", i, i))
		}
		pars = append(many, pars...)
	}
	// parameter order: the sender's rport / received may stand before or after branch
	switch s.Val(v, "parorder") {
	case "branch-first":
		pars = append([]string{"branch=z9hG4bKc07"}, append(pars, "x=keep")...)
	case "branch-last":
		pars = append(append(pars, "x=keep"), "branch=z9hG4bKc07")
	case "reversed":
		for i, j := 0, len(pars)-1; i < j; i, j = i+1, j-1 {
			pars[i], pars[j] = pars[j], pars[i]
		}
		pars = append(append(pars, "branch=z9hG4bKc07"), "x=keep")
	}
	top := "SIP/2.0/" + transport + " " + viaHost + ":" + viaPort + ";" + strings.Join(pars, ";")
	second := "SIP/2.0/UDP 10.98.0.2:5098;branch=z9hG4bKlower;rport;received=10.5.5.5"
	var vias []string
	viaName := "Via"
	switch s.Val(v, "layout") {
	case "single":
		vias = []string{top}
	case "two-entries":
		vias = []string{top + ", " + second}
	case "two-lines":
		vias = []string{top, second}
	case "compact":
		vias, viaName = []string{top, second}, "v"
	case "compact-top-only":
		vias = []string{top, second}
	}
	sp := MsgSpec{Method: "OPTIONS", RURI: "sip:bob@svc.example.com", Vias: vias, ViaNm: viaName,
		From: "<sip:alice@ua.example.net>;tag=f1", To: "<sip:bob@nomatch.example.org>", CallID: "c07", CSeq: "1 OPTIONS"}
	nextHop := "127.0.1.1:7000" // backend
	switch s.Val(v, "path") {
	case "route":
		sp.Routes = []string{"<sip:127.0.2.1:5070;lr>"}
		nextHop = "127.0.2.1:5070"
	case "static":
		sp.To = "<sip:bob@static.example.org>"
		nextHop = "127.0.3.1:5080"
	}
	if arrival == "tcp-dialled-backend" && s.Val(v, "path") == "backend" {
		return "", "", false // a request from the backend addressed to the service would loop back to it
	}
	m := sp.Build()
	if s.Val(v, "layout") == "compact-top-only" {
		// the sender writes its own Via compactly, the earlier hop's line below it is spelled out
		for i := range m.Hdrs {
			if m.Hdrs[i].Name == "Via" {
				m.Hdrs[i].Name = "v"
				break
			}
		}
	}
	in, _ := m.ViaStack()

	// prelude: the next hop is learned (it sent a request of its own), so that the proxy inserts
	// its Via and the response comes back through the proxy
	if s.Val(v, "path") != "backend" {
		pm := MsgSpec{Method: "OPTIONS", RURI: "sip:x@foreign.example.net", Vias: []string{"SIP/2.0/UDP " + nextHop + ";branch=z9hG4bKpre"},
			From: "<sip:nh@nh.example.net>;tag=p", To: "<sip:x@nomatch.example.org>", CallID: "pre", CSeq: "1 OPTIONS"}.Build()
		w.SendUDP(nextHop, preludeTo, pm.Render())
	}
	var conn *vnet.TCPConn
	trueIP, truePort := srcIP, srcPort
	switch arrival {
	case "udp":
		w.Observe()
		if s.Val(v, "burst") == "followed-by-other-source" {
			// a second datagram from ANOTHER source is already queued when the first one is handled
			other := MsgSpec{Method: "OPTIONS", RURI: "sip:bob@svc.example.com", Vias: []string{"SIP/2.0/UDP 10.99.0.7:5097;branch=z9hG4bKother;rport"},
				From: "<sip:o@ua.example.net>;tag=o", To: "<sip:bob@nomatch.example.org>", CallID: "c07-other", CSeq: "1 OPTIONS"}.Build()
			src := fmt.Sprintf("%s:%d", srcIP, srcPort)
			if _, ok := w.udp[src]; !ok {
				w.udp[src] = w.S.UDPPeer(src)
			}
			w.udp[src].Send("127.0.0.1:5060", m.Render())
			w.SendUDP("127.0.0.8:5070", "127.0.0.1:5060", other.Render())
		} else {
			if s.Val(v, "burst") == "same-transaction-earlier-from-another-port" {
				// the very same request (same top Via, same branch) came in a moment ago from another source port of
				// the sender (a NAT binding that was re-created between two retransmissions): every copy is stamped
				// with the source of ITS datagram
				op := srcPort + 7
				if op > 65535 {
					op = srcPort - 7
				}
				w.SendUDP(fmt.Sprintf("%s:%d", srcIP, op), "127.0.0.1:5060", m.Render())
				w.Observe()
			}
			w.SendUDP(fmt.Sprintf("%s:%d", srcIP, srcPort), "127.0.0.1:5060", m.Render())
		}
	case "tcp-accepted":
		tp := srcPort + 1000
		if tp > 65535 {
			tp = 65535
		}
		c, err := w.S.TCPDial(fmt.Sprintf("%s:%d", srcIP, tp), "127.0.0.1:5062")
		if err != nil {
			panic(err)
		}
		conn = c
		truePort = tp
		w.S.Run()
		if s.Val(v, "burst") == "other-connection-accepted-meanwhile" {
			// another client connects to the same listener before the first one sends
			if _, err := w.S.TCPDial("127.0.0.8:0", "127.0.0.1:5062"); err != nil {
				panic(err)
			}
			w.S.Run()
		}
		w.Observe()
		w.SendTCP(conn, m.Render())
	case "tcp-dialled-backend":
		// make the proxy dial its TCP backend, then let the backend send a request on that connection
		warm := MsgSpec{Method: "OPTIONS", RURI: "sip:bob@svc.example.com", Vias: []string{"SIP/2.0/UDP 127.0.0.8:5060;branch=z9hG4bKwarm"},
			From: "<sip:w@ua.example.net>;tag=w", To: "<sip:bob@nomatch.example.org>", CallID: "warm", CSeq: "1 OPTIONS"}.Build()
		w.SendUDP("127.0.0.8:5060", "127.0.0.1:5060", warm.Render())
		w.Observe()
		acc := w.acc["127.0.1.2:7000"]
		if len(acc) == 0 {
			return "harness", "the proxy did not connect to its TCP backend", false
		}
		conn = acc[len(acc)-1]
		conn.Drain()
		trueIP, truePort = "127.0.1.2", 7000
		w.SendTCP(conn, m.Render())
	}
	obs := w.Observe()
	desc := func(what string) string {
		o := "nothing"
		if len(obs.Pkts) > 0 {
			o = short(obs.Pkts[0].Data)
		}
		return fmt.Sprintf("%s\nno-received=%q (received-support %v), arrival %s from true source %s:%d\nreceived: %s\nemitted (%s): %s", what, cfg.Listens[0].NoReceived, enabled, arrival, trueIP, truePort, short(m.Render()), obs.Summary(), o)
	}
	if vd := w.S.Verdict(); vd != "" {
		return "health", desc(vd), true
	}
	if s.Val(v, "burst") == "followed-by-other-source" && arrival == "udp" {
		// keep only the emission of the request under test
		var mine []vnet.Packet
		for _, p := range obs.Pkts {
			if strings.Contains(string(p.Data), "Call-ID: c07\r\n") {
				mine = append(mine, p)
			}
		}
		obs.Pkts = mine
	}
	if len(obs.Pkts) != 1 || obs.Pkts[0].To != nextHop {
		return "not-relayed", desc("the request should have been relayed to " + nextHop), true
	}
	out, err := ReadWire(obs.Pkts[0].Data)
	if err != nil {
		return "unreadable-emission", desc(err.Error()), true
	}
	got, err := out.ViaStack()
	if err != nil {
		return "via-undecodable", desc(err.Error()), true
	}
	inserted := len(got) - len(in)
	if inserted != 0 && inserted != 1 {
		return "via-count", desc(fmt.Sprintf("%d Via entries received, %d relayed", len(in), len(got))), true
	}
	mine := got[inserted:]
	// expected sender entry
	want := in[0]
	want.Pars = append([]Par(nil), in[0].Pars...)
	if enabled {
		setPar := func(k, val string) {
			for i := range want.Pars {
				if want.Pars[i].K == k {
					want.Pars[i] = Par{k, val, true}
					return
				}
			}
			want.Pars = append(want.Pars, Par{k, val, true})
		}
		if _, ok := findPar(want.Pars, "rport"); ok {
			setPar("rport", strconv.Itoa(truePort))
		}
		setPar("received", trueIP)
	}
	// parameter order of a newly added parameter is not prescribed: compare as multisets for the sender entry
	if !sameViaModuloParOrder(mine[0], want) {
		cl := "sender-via-not-stamped"
		if !enabled {
			cl = "sender-via-altered-although-disabled"
		} else if p, ok := findPar(mine[0].Pars, "received"); ok && p.V != trueIP {
			cl = "received-not-overridden"
		} else if p, ok := findPar(mine[0].Pars, "rport"); ok && p.V != strconv.Itoa(truePort) {
			if _, had := findPar(in[0].Pars, "rport"); had {
				cl = "rport-not-true-source-port"
			} else {
				cl = "rport-added-unrequested"
			}
		}
		return cl, desc(fmt.Sprintf("sender's Via entry expected %q, relayed %q", want.String(), mine[0].String())), true
	}
	for i := 1; i < len(in); i++ {
		if mine[i].String() != in[i].String() {
			return "lower-via-altered", desc(fmt.Sprintf("Via entry %d expected %q, relayed %q", i, in[i].String(), mine[i].String())), true
		}
	}
	// consequence: the response travels back to the true source
	if inserted == 1 {
		resp := ResponseTo(out, 200, "tt")
		w.Observe()
		if conn != nil && arrival == "tcp-dialled-backend" && nextHop == "127.0.1.2:7000" {
			return "", "", true
		}
		// the next hop answers to the address the proxy put into its own Via
		w.SendUDP(nextHop, got[0].Host+":"+got[0].Port, resp.Render())
		robs := w.Observe()
		rdesc := func(what string) string {
			o := "nothing"
			if len(robs.Pkts) > 0 {
				o = short(robs.Pkts[0].Data)
			}
			return fmt.Sprintf("%s\nno-received=%q, arrival %s from true source %s:%d, sender's Via %q\nresponse handed to the proxy: %s\nemitted (%s): %s", what, cfg.Listens[0].NoReceived, arrival, trueIP, truePort, in[0].String(), short(resp.Render()), robs.Summary(), o)
		}
		if enabled {
			if conn != nil {
				// TCP: the true source is the connection the request came on (C12 demands exactly that
				// connection; this statement is also met by a TCP connection attempt towards the true
				// source address and - if rport was requested - true source port)
				wantPort := truePort
				if _, ok := findPar(in[0].Pars, "rport"); !ok {
					wantPort, _ = strconv.Atoi(in[0].Port)
				}
				wantTo := fmt.Sprintf("%s:%d", trueIP, wantPort)
				onConn := len(robs.Pkts) == 1 && robs.Pkts[0].Conn == conn.Peer().ID()
				towards := len(robs.Pkts) == 0 && len(robs.Dials) >= 1
				for _, d := range robs.Dials {
					if d != wantTo {
						towards = false
					}
				}
				if len(robs.Pkts) == 1 && robs.Pkts[0].Proto == "tcp" && robs.Pkts[0].To == wantTo {
					towards = true
				}
				if !onConn && !towards {
					return "response-not-to-true-source", rdesc("the response should be written on the connection the request arrived on (or at least towards " + wantTo + " over TCP)"), true
				}
			} else {
				wantPort := truePort
				if _, ok := findPar(in[0].Pars, "rport"); !ok {
					wantPort, _ = strconv.Atoi(in[0].Port)
				}
				wantTo := fmt.Sprintf("%s:%d", trueIP, wantPort)
				if len(robs.Pkts) != 1 || robs.Pkts[0].To != wantTo || robs.Pkts[0].Proto != "udp" {
					return "response-not-to-true-source", rdesc("the response should go to " + wantTo), true
				}
			}
		}
	}
	return "", "", true
}

func sameViaModuloParOrder(a, b AVia) bool {
	if a.Proto != b.Proto || a.Ver != b.Ver || a.Transport != b.Transport || a.Host != b.Host || a.Port != b.Port || len(a.Pars) != len(b.Pars) {
		return false
	}
	used := make([]bool, len(b.Pars))
outer:
	for _, p := range a.Pars {
		for j, q := range b.Pars {
			if !used[j] && p == q {
				used[j] = true
				continue outer
			}
		}
		return false
	}
	return true
}

func init() {
	c07Spec = &EnumSpec{Feats: []Feat{
		{Name: "no-received", Vals: []string{"absent", "false", "true"}},
		{Name: "arrival", Vals: []string{"udp", "tcp-accepted", "tcp-dialled-backend"}},
		{Name: "source", Vals: []string{"plain", "other-port", "equals-sent-by", "top-port"}},
		{Name: "rport", Vals: []string{"absent", "valueless", "spoofed"}},
		{Name: "received", Vals: []string{"absent", "spoofed"}},
		{Name: "layout", Vals: []string{"single", "two-entries", "compact-top-only", "two-lines", "compact"}, Quick: 3},
		{Name: "path", Vals: []string{"backend", "route", "static"}},
		{Name: "entries", Vals: []string{"one", "hop-behind-opposite-entry"}},
		{Name: "manypars", Vals: []string{"no", "20-before"}},
		{Name: "start", Vals: []string{"main", "startProxy"}, Quick: 1},
		{Name: "burst", Vals: []string{"alone", "followed-by-other-source", "other-connection-accepted-meanwhile", "same-transaction-earlier-from-another-port"}},
		{Name: "parorder", Vals: []string{"branch-first", "branch-last", "reversed"}},
	}, Eval: c07Eval, Sample: 300}
	c07Spec.Valid = func(v []int) bool {
		s := c07Spec
		if s.Val(v, "arrival") == "tcp-dialled-backend" && (s.Val(v, "path") == "backend" || v[s.idx("source")] != 0) {
			return false
		}
		if s.Val(v, "burst") == "followed-by-other-source" && s.Val(v, "arrival") != "udp" {
			return false
		}
		if s.Val(v, "burst") == "same-transaction-earlier-from-another-port" && s.Val(v, "arrival") != "udp" {
			return false
		}
		if s.Val(v, "burst") == "other-connection-accepted-meanwhile" && s.Val(v, "arrival") != "tcp-accepted" {
			return false
		}
		if v[s.idx("parorder")] != 0 && v[s.idx("rport")] == 0 && v[s.idx("received")] == 0 {
			return false
		}
		if v[s.idx("entries")] != 0 && (s.Val(v, "path") == "backend" || s.Val(v, "arrival") == "tcp-dialled-backend") {
			return false
		}
		return true
	}
	c07Spec.Reduce = func(v []int) bool {
		s := c07Spec
		if v[s.idx("entries")] != 0 && v[s.idx("burst")] != 0 {
			return true
		}
		if v[s.idx("manypars")] != 0 && (v[s.idx("burst")] != 0 || v[s.idx("entries")] != 0) {
			return true
		}
		return false
	}
	addCheck(&Check{Flows: []flowOracle{flowStamped}, ID: "C07", Level: "exploration",
		Rule:   "complete product through the REAL main() with a YAML file (thorough: also through startProxy): no-received {absent,false,true} x arrival {UDP, accepted TCP connection, TCP connection the proxy dialled to a backend} x true source {plain, other address and high port, equal to the Via sent-by, source port 65535} x rport {absent, valueless, spoofed} x received {absent, spoofed} x Via layout x relaying path x {alone, immediately followed by a datagram from another source, another TCP connection accepted before the request is sent, the same transaction a moment earlier from another source port} x order of the sender's Via parameters (rport / received before or after branch) x {one listens entry, a second entry with the OPPOSITE received setting through which the next hop was learned} x {few Via parameters, 20 parameters ahead of rport / received}; after the request, the next hop answers and the response is followed to the true source; non-trivial = request relayed",
		Assume: []string{"position of a newly added Via parameter is not prescribed (parameters of the sender's entry compared as a multiset)"},
		Run:    func(c *Ctx) { c07Spec.Run(c); cleanupYamlFiles() },
		Replay: func(c *Ctx, raw json.RawMessage) string { defer cleanupYamlFiles(); return c07Spec.Replay(raw) },
	})
}
