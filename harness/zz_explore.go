//go:build verif

package main

import (
	"github.com/ochinchina/sipproxy/vrt"
)

// ExploreChoices is the stateless depth-first search over choice sequences with deviation
// (delay) bounding: every non-default choice costs one deviation. run executes one complete
// execution under the given choice prefix (later points take choice 0) and returns the recorded
// trace. bound < 0 means unbounded (all choice sequences). Subtrees are sharded over workers by
// the index of the first-level alternative. Returns the number of executions and whether the
// enumeration completed.
func ExploreChoices(c *Ctx, bound int, run func(prefix []int) []vrt.Point) (int64, bool) {
	type item struct {
		prefix []int
		used   int
	}
	var execs int64
	stack := []item{{nil, 0}}
	var shard int64
	for len(stack) > 0 {
		if c.Expired() {
			return execs, false
		}
		it := stack[len(stack)-1]
		stack = stack[:len(stack)-1]
		tr := run(it.prefix)
		execs++
		if bound >= 0 && it.used >= bound {
			continue
		}
		for i := len(it.prefix); i < len(tr); i++ {
			for alt := 1; alt < tr[i].N; alt++ {
				// first-level subtrees are distributed over the workers
				if len(it.prefix) == 0 {
					shard++
					if !c.Mine(shard) {
						continue
					}
				}
				np := make([]int, i+1)
				for j := 0; j < i; j++ {
					np[j] = tr[j].C
				}
				np[i] = alt
				stack = append(stack, item{np, it.used + 1})
			}
		}
	}
	return execs, true
}
