//go:build verif

package main

import (
	"github.com/ochinchina/sipproxy/vrt"
)

// ExploreChoices is the stateless depth-first search over choice sequences with deviation
// (delay) bounding: every non-default choice costs one deviation. run executes one complete
// execution under the given choice prefix (later points take choice 0) and returns the recorded
// trace. bound < 0 means unbounded (all choice sequences). Subtrees are sharded over workers by
// the index of the first-level alternative. Returns the number of executions and whether the
// enumeration completed.
func ExploreChoices(c *Ctx, bound int, run func(prefix []int) []vrt.Point) (int64, bool) {
	type item struct {
		prefix []int
		used   int
		expect []vrt.Point // the parent's trace up to and including the deviating point
	}
	var execs int64
	stack := []item{{nil, 0, nil}}
	var shard int64
	for len(stack) > 0 {
		if c.Expired() {
			return execs, false
		}
		it := stack[len(stack)-1]
		stack = stack[:len(stack)-1]
		tr := run(it.prefix)
		execs++
		// determinism: replaying the prefix must pass through exactly the parent's choice points
		// (same kind, same number of alternatives) - any difference means a source of
		// nondeterminism the runtime does not own
		if it.expect != nil {
			c.Res.Replayed++
			bad := len(tr) < len(it.expect)
			for j := 0; !bad && j < len(it.expect); j++ {
				if tr[j].N != it.expect[j].N || tr[j].Kind != it.expect[j].Kind {
					bad = true
				}
			}
			if bad {
				c.Violate("harness-nondeterminism", "harness-nondeterminism", "replaying a choice prefix did not reproduce the parent's choice points: the execution depends on something the controlled runtime does not own", map[string]any{"choices": it.prefix})
				continue
			}
		}
		if bound >= 0 && it.used >= bound {
			continue
		}
		for i := len(it.prefix); i < len(tr); i++ {
			for alt := 1; alt < tr[i].N; alt++ {
				// first-level subtrees are distributed over the workers
				if len(it.prefix) == 0 {
					shard++
					if !c.Mine(shard) {
						continue
					}
				}
				np := make([]int, i+1)
				for j := 0; j < i; j++ {
					np[j] = tr[j].C
				}
				np[i] = alt
				stack = append(stack, item{np, it.used + 1, tr[:i+1]})
			}
		}
	}
	return execs, true
}

// BFSReplay is the explicit-state breadth-first search over histories of driver events. Live
// objects cannot be cloned, so a successor is computed by replaying the (shortest) history that
// reached a state on a fresh world plus one event. exec runs a complete history, checks the
// oracle on it (reporting through the Ctx) and returns the canonical key of the state reached;
// ok=false prunes the history (event not enabled there, or a violation was reported).
// The visited set is keyed by the returned key. Subtrees are sharded over workers by first event.
// Returns states, transitions and whether a fixpoint / the depth bound was reached without a cap.
func BFSReplay[E any](c *Ctx, maxDepth int, events []E, shardFirst bool, exec func(hist []E) (key string, ok bool)) (int64, int64, bool) {
	seen := map[string]bool{}
	var states, trans int64
	k0, ok := exec(nil)
	if !ok {
		return 0, 0, true
	}
	seen[k0] = true
	states = 1
	frontier := [][]E{nil}
	for depth := 0; len(frontier) > 0 && (maxDepth < 0 || depth < maxDepth); depth++ {
		var next [][]E
		for _, h := range frontier {
			for ei, e := range events {
				if shardFirst && len(h) == 0 && !c.Mine(int64(ei)) {
					continue
				}
				if c.Expired() {
					return states, trans, false
				}
				nh := append(append([]E(nil), h...), e)
				k, ok := exec(nh)
				if !ok {
					continue
				}
				trans++
				if !seen[k] {
					seen[k] = true
					states++
					next = append(next, nh)
				}
			}
		}
		frontier = next
	}
	return states, trans, len(frontier) == 0 || maxDepth >= 0
}
