//go:build verif && (c01 || all)

package main

import (
	"bytes"
	"encoding/json"
	"fmt"
	"github.com/ochinchina/sipproxy/vrt/vnet"
	"strconv"
	"strings"
)

// C01 — relaying leaves everything the proxy does not own untouched (DESIGN.md §4 C01).

var c01A, c01B *EnumSpec
var c01InA, c01InB func(v []int) c01In

type c01Aged struct {
	w *RelayWorld
	n int
}

func c01AgedSpecs() []*AgedSpec {
	mk := func(sp *EnumSpec, toIn func(v []int) c01In, key func(v []int) string) *AgedSpec {
		return &AgedSpec{Spec: sp, Group: key,
			Open:  func(v []int) any { return &c01Aged{w: StartRelayWorld(SimOpts{}, toIn(v).cfg)} },
			Close: func(w any) { w.(*c01Aged).w.Close() },
			Eval: func(w any, v []int) (string, string) {
				a := w.(*c01Aged)
				a.n++
				cl, d, _ := c01RunIn(a.w, toIn(v), a.n)
				return cl, d
			}}
	}
	return []*AgedSpec{
		mk(c01A, c01InA, func(v []int) string { return "A:kind=" + c01A.Val(v, "kind") + ",clname=" + c01A.Val(v, "clname") }),
		mk(c01B, c01InB, func(v []int) string {
			s := c01B
			return fmt.Sprintf("B:path=%s,arrival=%s,received=%s,mustrr=%s,keep=%s", s.Val(v, "path"), s.Val(v, "arrival"), s.Val(v, "received"), s.Val(v, "mustrr"), s.Val(v, "keep"))
		}),
	}
}

var c01Big16k = strings.Repeat("0123456789abcdef;,%\"<>", 745)[:16384]

var c01Hdrs = map[string]WHdr{
	"token":       {"X-Token", "simple"},
	"supported-k": {"k", "100rel"},
	"contact-m":   {"m", "<sip:c@10.0.0.9>"},
	"oddcase":     {"cOnTaCt", "<sip:d@10.0.0.9>;expires=5"},
	"repeat":      {"X-Token", "second"},
	"empty":       {"X-Empty", ""},
	"pct":         {"X-Pct", "100%s %41 % %d%%"},
	"mix":         {"X-Mix", "\"a;b\", <c>;d=\"e,f\""},
	"utf8":        {"X-Utf", "grüße ✓"},
	"bin":         {"X-Bin", "a\x80\xfe\xffz"},
	"big16k":      {"X-Big", c01Big16k},
	"expires":     {"Expires", "300"},
	"subject-s":   {"s", "hi there"},
	"ctype-c":     {"c", "application/sdp"},
	"colons":      {"X-Colon", "a:b::c"},
	"substate":    {"Subscription-State", "active;expires=10"},
	"maxfwd-dup":  {"max-forwards", "5"},
	"upper":       {"USER-AGENT", "UA/1.0 (x; y)"},
}

func c01Body(kind string) []byte {
	switch kind {
	case "one":
		return []byte("x")
	case "text":
		return []byte("v=0\r\no=- 1 1 IN IP4 10.0.0.1\r\ns=-\r\n")
	case "soup":
		return []byte("\x00\r\n\r\n\n\r\x00\x00tail\r")
	case "sipmsg":
		return []byte("INVITE sip:x@y SIP/2.0\r\nVia: SIP/2.0/UDP 1.1.1.1\r\nContent-Length: 3\r\n\r\nabc")
	case "4097":
		return bytes.Repeat([]byte("ab\x00"), 1366)[:4097]
	case "60k":
		b := make([]byte, 60*1024)
		for i := range b {
			b[i] = byte(i*7 + i/256)
		}
		return b
	}
	return nil
}

var c01URIs = map[string]string{
	"sip-user": "sip:bob@svc.example.com", "sips-full": "sips:bob:secret@svc.example.com:5071;transport=tcp;lr;foo;x=%41?h=v&k=%20",
	"sip-host": "sip:svc.example.com", "sip-valueless": "sip:bob@svc.example.com;user=phone;npdi", "tel": "tel:+15551234", "tel-params": "tel:+1555;phone-context=%41.example.com;ext=7",
	"urn": "urn:service:sos", "urn-pct": "urn:service:sos.%66ire", "sip-pct-user": "sip:%61lice@svc.example.com", "sip-port": "sip:bob@svc.example.com:5060",
	"sip-ip": "sip:bob@10.9.8.7:5099;transport=udp", "sip-maddr": "sip:bob@svc.example.com;maddr=10.0.0.1;ttl=1", "sip-hdrs": "sip:bob@svc.example.com?Subject=a%20b", "sip-upper": "sip:BOB@SVC.EXAMPLE.COM",
}

func c01Cfg(recv, mustrr, keep string) RCfg {
	cfg := RCfg{Name: ".+", Listens: []RListen{{Addr: "127.0.0.1", UDP: 5060, TCP: 5062, Backends: []string{"udp://127.0.1.1:7000"}, MustRR: mustrr == "on"}},
		Routes: []RRoute{{Dests: []string{"static-udp.example.org"}, Protocol: "udp", NextHop: "127.0.3.1:5080"}, {Dests: []string{"static-tcp.example.org"}, Protocol: "tcp", NextHop: "127.0.3.2:5090"}}}
	if recv == "off" {
		cfg.Listens[0].NoReceived = "true"
	}
	if keep == "on" {
		cfg.KeepNextHop = "true"
	}
	return cfg
}

var c01Parties = map[string][2]string{
	"plain":      {"\"A\" <sip:alice@ua.example.net>", "<sip:bob@svc.example.com>"},
	"mixed-case": {"\"Al Ice\" <sip:Alice@Atlanta.Example.COM>", "<sip:Bob@Biloxi.Example.COM>"},
	"decorated":  {"<sip:alice:pw@ua.example.net:5070;user=phone;foo?Subject=a%20b>", "\"B\" <sips:bob@svc.example.com;transport=tcp>"},
	"tel-urn":    {"<tel:+15551234;phone-context=Example.COM>", "<urn:service:sos>"},
	"addr-spec":  {"sip:alice@UA.example.net", "sip:bob@SVC.example.com"},
}

type c01In struct {
	parties                  string
	pipelined                bool
	path, arrival, departure string
	method                   string
	status                   int
	ruri                     string
	pre, extra               []WHdr
	clname                   string
	body                     []byte
	cfg                      RCfg
	fault                    string // partial-write-on-cached-connection: the proxy's cached TCP connection to the next hop takes 150 bytes of the next write, then breaks
}

func c01Build(in c01In) *WMsg {
	dep := strings.ToUpper(in.departure)
	arr := strings.ToUpper(in.arrival)
	pt, ok := c01Parties[in.parties]
	if !ok {
		pt = c01Parties["plain"]
	}
	from, to := pt[0]+";tag=f1", pt[1]+";tag=t1"
	var m *WMsg
	if in.path == "response" {
		sp := MsgSpec{Status: in.status, Reason: "Some Reason Phrase", Vias: []string{"SIP/2.0/" + arr + " 127.0.0.1:5060;branch=z9hG4bKproxy", "SIP/2.0/" + dep + " 127.0.0.9:5060;branch=z9hG4bKua"},
			From: from, To: to, CallID: "c01@host", CSeq: "7 " + in.method, Pre: in.pre, Extra: in.extra, Body: in.body}
		m = sp.Build()
	} else {
		sp := MsgSpec{Method: in.method, RURI: in.ruri, Vias: []string{"SIP/2.0/" + arr + " 127.0.0.9:5060;branch=z9hG4bKua"},
			From: from, To: "<sip:bob@nomatch.example.org>", CallID: "c01@host", CSeq: "7 " + in.method, Pre: in.pre, Extra: in.extra, Body: in.body}
		if in.path == "backend" && in.parties != "" && in.parties != "plain" {
			// an in-dialog request to the service: the dialog identifiers are computed on this path
			sp.To = to
		}
		switch in.path {
		case "backend":
			if in.departure == "tcp" {
				return nil
			}
		case "route":
			sp.Routes = []string{"<sip:127.0.2.1:5070;transport=" + in.departure + ";lr>"}
		case "static":
			sp.To = "<sip:bob@static-" + in.departure + ".example.org>"
		}
		m = sp.Build()
	}
	for i := range m.Hdrs {
		if m.Hdrs[i].Name == "Content-Length" {
			if in.clname == "absent" {
				// the field is omitted (UDP: the body runs to the end of the datagram). Whether such a message is
				// relayed at all is not C01's matter; if it is, it must arrive unchanged
				m.Hdrs = append(m.Hdrs[:i], m.Hdrs[i+1:]...)
				break
			}
			m.Hdrs[i].Name = in.clname
		}
	}
	return m
}

func c01Owned(canon string) bool {
	return canon == "via" || canon == "route" || canon == "record-route" || canon == "content-length"
}

func c01Others(m *WMsg) []WHdr {
	var o []WHdr
	for _, h := range m.Hdrs {
		if !c01Owned(canonName(h.Name)) {
			o = append(o, h)
		}
	}
	return o
}

func c01Run(in c01In) (string, string, bool) {
	if c01Build(in) == nil {
		return "", "", false
	}
	w := StartRelayWorld(SimOpts{}, in.cfg)
	defer w.Close()
	return c01RunIn(w, in, 0)
}

func c01RunIn(w *RelayWorld, in c01In, seq int) (string, string, bool) {
	m := c01Build(in)
	if m == nil {
		return "", "", false
	}
	if seq > 0 {
		// an aged world: a transaction of its own
		for i := range m.Hdrs {
			switch canonName(m.Hdrs[i].Name) {
			case "call-id":
				m.Hdrs[i].Value = fmt.Sprintf("c01-%d@host", seq)
			case "via":
				m.Hdrs[i].Value = strings.Replace(m.Hdrs[i].Value, "z9hG4bKua", fmt.Sprintf("z9hG4bKua%d", seq), 1)
			}
		}
	}
	raw := m.Render()
	if in.arrival == "udp" && len(raw) > 65000 {
		return "", "", false
	}
	if in.fault != "" {
		// an earlier request along the same path makes the proxy connect to the next hop ...
		pre := m.Clone()
		for i := range pre.Hdrs {
			switch canonName(pre.Hdrs[i].Name) {
			case "call-id":
				pre.Hdrs[i].Value = "prelude-" + pre.Hdrs[i].Value
			case "via":
				pre.Hdrs[i].Value = strings.Replace(pre.Hdrs[i].Value, "z9hG4bKua", "z9hG4bKprelude", 1)
			}
		}
		if in.arrival == "tcp" {
			w.SendTCP(w.Client("c1", "127.0.0.9", "127.0.0.1:5062"), pre.Render())
		} else {
			w.SendUDP("127.0.0.9:5060", "127.0.0.1:5060", pre.Render())
		}
		w.Observe()
		// ... and that connection will take only the first 150 bytes of the next write
		for _, c := range vnet.Conns() {
			if c.Dialled && !c.IsDriver() && !c.IsClosed() {
				c.PartialFail = 150
			}
		}
	}
	w.Observe()
	if in.arrival == "tcp" {
		w.SendTCP(w.Client("c1", "127.0.0.9", "127.0.0.1:5062"), raw)
	} else {
		from := "127.0.0.9:5060"
		if in.path == "response" {
			from = "127.0.1.1:7000"
		}
		w.SendUDP(from, "127.0.0.1:5060", raw)
	}
	obs := w.Observe()
	if in.fault != "" {
		// what the environment itself cut short is not an emission of the proxy
		var whole []vnet.Packet
		for _, p := range obs.Pkts {
			if !p.Partial {
				whole = append(whole, p)
			}
		}
		obs.Pkts = whole
	}
	desc := func(what string) string {
		o := "nothing"
		if len(obs.Pkts) > 0 {
			o = short(obs.Pkts[0].Data)
		}
		if in.fault != "" {
			for _, p := range obs.Pkts {
				o += fmt.Sprintf("\n  [%s conn#%d -> %s, %d bytes] %s", p.Proto, p.Conn, p.To, len(p.Data), clip(string(p.Data), 60))
			}
		}
		return fmt.Sprintf("%s\nreceived (%s, path %s%s): %s\nemitted (%s): %s", what, in.arrival, in.path, map[bool]string{true: ", fault " + in.fault, false: ""}[in.fault != ""], short(raw), obs.Summary(), o)
	}
	if vd := w.S.Verdict(); vd != "" {
		return "health", desc(vd), true
	}
	if len(obs.Pkts) == 0 {
		// not relayed at all: not a C01 matter (C02/C03 own the decision); counted as trivial
		return "", "", false
	}
	if in.pipelined {
		return c01Pipelined(in, w, m)
	}
	if len(obs.Pkts) != 1 {
		return "relayed-more-than-once", desc(fmt.Sprintf("%d emissions for one message", len(obs.Pkts))), true
	}
	if cl, d := c01Compare(m, obs.Pkts[0].Data); cl != "" {
		return cl, desc(d), true
	}
	return "", "", true
}

// c01Compare: the emission against the message it relays.
func c01Compare(m *WMsg, data []byte) (string, string) {
	out, err := ReadWire(data)
	if err != nil {
		return "unreadable-emission", err.Error()
	}
	if out.Start != m.Start {
		return "start-line", fmt.Sprintf("start line %q became %q", m.Start, out.Start)
	}
	a, b := c01Others(m), c01Others(out)
	for i := 0; i < len(a) || i < len(b); i++ {
		switch {
		case i >= len(b):
			return "field-dropped", fmt.Sprintf("field %q: %s is missing from the relayed message (it carries %d of %d fields)", a[i].Name, short([]byte(a[i].Value)), len(b), len(a))
		case i >= len(a):
			return "field-added", fmt.Sprintf("field %q: %s was added", b[i].Name, short([]byte(b[i].Value)))
		case a[i].Name != b[i].Name:
			return "field-name-or-order", fmt.Sprintf("position %d: field %q became %q", i, a[i].Name, b[i].Name)
		case a[i].Value != b[i].Value:
			return "field-value", fmt.Sprintf("field %q: value %s became %s", a[i].Name, short([]byte(a[i].Value)), short([]byte(b[i].Value)))
		}
	}
	cls := out.All("content-length")
	if len(cls) != 1 {
		return "content-length-count", fmt.Sprintf("%d Content-Length fields (any spelling) in the relayed message: %v", len(cls), cls)
	}
	if n, err := strconv.Atoi(cls[0]); err != nil || n != len(out.Body) {
		return "content-length-value", fmt.Sprintf("Content-Length %q but %d body bytes follow", cls[0], len(out.Body))
	}
	if !bytes.Equal(out.Body, m.Body) {
		return "body", fmt.Sprintf("body of %d bytes became %d bytes (first difference at %d)", len(m.Body), len(out.Body), firstDiff(m.Body, out.Body))
	}
	return "", ""
}

// c01Pipelined: three more requests written at once on the same TCP connection (the receive
// goroutine runs ahead of the message loop); each emission must relay its own message.
func c01Pipelined(in c01In, w *RelayWorld, first *WMsg) (string, string, bool) {
	var msgs []*WMsg
	var raw []byte
	for k := 0; k < 3; k++ {
		m := first.Clone()
		body := append([]byte(fmt.Sprintf("pipelined-%d|", k)), in.body...)
		if len(body) > 3000 {
			body = body[:3000]
		}
		for i := k; i < len(body); i += 7 {
			body[i] ^= byte(k + 1)
		}
		m.Body = body
		for i := range m.Hdrs {
			switch canonName(m.Hdrs[i].Name) {
			case "call-id":
				m.Hdrs[i].Value = fmt.Sprintf("c01-pipe-%d@host", k)
			case "content-length":
				m.Hdrs[i].Value = strconv.Itoa(len(body))
			}
		}
		msgs = append(msgs, m)
		raw = append(raw, m.Render()...)
	}
	w.Observe()
	w.SendTCP(w.Client("c1", "127.0.0.9", "127.0.0.1:5062"), raw)
	obs := w.Observe()
	if vd := w.S.Verdict(); vd != "" {
		return "health", vd, true
	}
	for k, m := range msgs {
		var mine [][]byte
		for _, p := range obs.Pkts {
			if bytes.Contains(p.Data, []byte(fmt.Sprintf("c01-pipe-%d@host", k))) {
				mine = append(mine, p.Data)
			}
		}
		if len(mine) != 1 {
			return "pipelined-not-relayed-once", fmt.Sprintf("message %d of 3 pipelined on one TCP connection was relayed %d times (%s)", k, len(mine), obs.Summary()), true
		}
		if cl, d := c01Compare(m, mine[0]); cl != "" {
			return "pipelined-" + cl, fmt.Sprintf("message %d of 3 pipelined on one TCP connection: %s\nsent %s\nrelayed %s", k, d, short(m.Render()), short(mine[0])), true
		}
	}
	return "", "", true
}

func firstDiff(a, b []byte) int {
	for i := 0; i < len(a) && i < len(b); i++ {
		if a[i] != b[i] {
			return i
		}
	}
	if len(a) < len(b) {
		return len(a)
	}
	return len(b)
}

func c01Place(pos string, hs []WHdr) (pre, extra []WHdr) {
	switch pos {
	case "top":
		return hs, nil
	case "split":
		if len(hs) > 0 {
			return hs[:1], hs[1:]
		}
	}
	return nil, hs
}

func init() {
	hv := []string{"absent", "token", "supported-k", "contact-m", "oddcase", "repeat", "empty", "pct", "mix", "utf8", "bin", "big16k", "expires", "subject-s", "ctype-c", "colons", "substate", "maxfwd-dup", "upper"}
	bodies := []string{"empty", "one", "text", "soup", "sipmsg", "4097", "60k"}
	// the last two: blanks between the name and the colon (HCOLON) - a message the parser may refuse; relayed, it carries ONE Content-Length
	cln := []string{"Content-Length", "l", "absent", "Content-Length ", "content-length", "CONTENT-LENGTH", "L", "l\t"}
	// (A) content enumeration on the default configuration
	c01A = &EnumSpec{Feats: []Feat{
		{Name: "kind", Vals: []string{"request-to-backend", "response", "request-by-route-tcp", "pipelined-tcp"}},
		{Name: "h1", Vals: hv}, {Name: "h2", Vals: hv}, {Name: "h3", Vals: hv, Quick: 1},
		{Name: "pos", Vals: []string{"after-cseq", "top", "split"}},
		{Name: "body", Vals: bodies},
		{Name: "clname", Vals: cln, Quick: 4},
	}, Seqs: [][]string{{"h1", "h2", "h3"}}, Sample: 10000}
	c01A.Valid = func(v []int) bool {
		s := c01A
		if !trailingAbsent(s, v, "h1", "h2", "h3") {
			return false
		}
		if v[s.idx("h1")] == 0 && v[s.idx("pos")] != 0 {
			return false
		}
		// without Content-Length a message can only be delimited by a datagram
		if s.Val(v, "clname") == "absent" && (s.Val(v, "kind") == "request-by-route-tcp" || s.Val(v, "kind") == "pipelined-tcp") {
			return false
		}
		return true
	}
	c01A.Eval = func(v []int) (string, string, bool) { return c01Run(c01InA(v)) }
	c01InA = func(v []int) c01In {
		s := c01A
		var hs []WHdr
		for _, n := range []string{"h1", "h2", "h3"} {
			if x := s.Val(v, n); x != "absent" {
				hs = append(hs, c01Hdrs[x])
			}
		}
		pre, extra := c01Place(s.Val(v, "pos"), hs)
		in := c01In{path: "backend", arrival: "udp", departure: "udp", method: "INVITE", status: 200, ruri: "sip:bob@svc.example.com", pre: pre, extra: extra,
			clname: s.Val(v, "clname"), body: c01Body(s.Val(v, "body")), cfg: c01Cfg("on", "off", "off")}
		switch s.Val(v, "kind") {
		case "response":
			in.path = "response"
		case "request-by-route-tcp":
			in.path, in.arrival, in.departure = "route", "tcp", "tcp"
		case "pipelined-tcp":
			in.arrival, in.pipelined = "tcp", true
		}
		return in
	}
	// (B) path / configuration / start-line enumeration with reduced content
	var uris []string
	for _, k := range []string{"sip-user", "sips-full", "sip-valueless", "tel-params", "urn-pct", "sip-pct-user", "sip-host", "tel", "urn", "sip-port", "sip-ip", "sip-maddr", "sip-hdrs", "sip-upper"} {
		uris = append(uris, k)
	}
	c01B = &EnumSpec{Feats: []Feat{
		{Name: "path", Vals: []string{"backend", "route", "static", "response"}},
		{Name: "arrival", Vals: []string{"udp", "tcp"}},
		{Name: "departure", Vals: []string{"udp", "tcp"}},
		{Name: "received", Vals: []string{"on", "off"}},
		{Name: "mustrr", Vals: []string{"off", "on"}},
		{Name: "keep", Vals: []string{"off", "on"}},
		{Name: "ruri", Vals: uris, Quick: 6},
		{Name: "method", Vals: []string{"OPTIONS", "INVITE", "ACK", "BYE", "NOTIFY", "SUBSCRIBE", "X-m3th0d!", "REGISTER"}, Quick: 4},
		{Name: "status", Vals: []string{"200", "100", "180", "302", "404", "503", "603", "699"}, Quick: 4},
		{Name: "h1", Vals: []string{"absent", "pct", "empty", "contact-m", "bin", "substate", "expires"}, Quick: 4},
		{Name: "body", Vals: []string{"empty", "text", "soup"}},
		{Name: "parties", Vals: []string{"plain", "mixed-case", "decorated", "tel-urn", "addr-spec"}},
		{Name: "fault", Vals: []string{"none", "partial-write-on-cached-connection"}},
	}, Sample: 10000}
	c01B.Valid = func(v []int) bool {
		s := c01B
		if s.Val(v, "path") == "response" {
			if v[s.idx("ruri")] != 0 || v[s.idx("keep")] != 0 || v[s.idx("mustrr")] != 0 {
				return false
			}
		} else if v[s.idx("status")] != 0 {
			return false
		}
		if s.Val(v, "path") == "backend" && s.Val(v, "departure") == "tcp" {
			return false
		}
		// the environment fault needs a TCP next hop
		if v[s.idx("fault")] != 0 && (s.Val(v, "departure") != "tcp" || (s.Val(v, "path") != "route" && s.Val(v, "path") != "static")) {
			return false
		}
		return true
	}
	c01B.Reduce = func(v []int) bool {
		s := c01B
		// the parties cross is reduced: non-plain parties with the default listener configuration only
		if v[s.idx("parties")] != 0 && (v[s.idx("received")] != 0 || v[s.idx("mustrr")] != 0 || v[s.idx("keep")] != 0 || v[s.idx("ruri")] != 0) {
			return true
		}
		// the fault is crossed with arrival, configuration, header and body
		if v[s.idx("fault")] != 0 && (v[s.idx("ruri")] != 0 || v[s.idx("method")] != 0 || v[s.idx("parties")] != 0) {
			return true
		}
		return false
	}
	c01B.Eval = func(v []int) (string, string, bool) { return c01Run(c01InB(v)) }
	c01InB = func(v []int) c01In {
		s := c01B
		var hs []WHdr
		if x := s.Val(v, "h1"); x != "absent" {
			hs = append(hs, c01Hdrs[x])
		}
		st, _ := strconv.Atoi(s.Val(v, "status"))
		in := c01In{path: s.Val(v, "path"), arrival: s.Val(v, "arrival"), departure: s.Val(v, "departure"), method: s.Val(v, "method"), status: st,
			ruri: c01URIs[s.Val(v, "ruri")], extra: hs, clname: "Content-Length", body: c01Body(s.Val(v, "body")), cfg: c01Cfg(s.Val(v, "received"), s.Val(v, "mustrr"), s.Val(v, "keep")),
			parties: s.Val(v, "parties")}
		if v[s.idx("fault")] != 0 {
			in.fault = s.Val(v, "fault")
		}
		return in
	}
	addCheck(&Check{Flows: []flowOracle{flowTransparent}, ID: "C01", Level: "exploration",
		Rule:   "two complete products on fresh simulated worlds: (A) content: all sequences of 0-2 (thorough 0-3) extension headers over an 18-shape alphabet (compact/odd-case/repeated names, empty value, %, quotes, separators, UTF-8, bytes >= 0x80, 16 KiB value) x position x 7 body classes (incl. NUL/CR/LF soup, SIP-like body, 4097 B, 60 KiB of all byte values) x Content-Length spelling (incl. blanks between the name and the colon, and, over UDP, the field omitted: if such a message is relayed it arrives unchanged with ONE Content-Length) x {request to backend, response, request by Route over TCP}; (B) paths: {backend, Route, static route, response by Via} x arrival UDP/TCP x departure UDP/TCP x received/must-record-route/keep-next-hop x 14 Request-URI forms x methods / status codes x header x body x 5 From/To shapes (mixed-case hosts, decorated URIs, tel/urn, addr-spec form; in-dialog so that dialog identifiers are computed); plus three requests pipelined on one TCP connection; plus an environment fault on TCP departures (the proxy's cached connection to the next hop takes 150 bytes of the write, then breaks: what reaches the next hop on the fresh connection is the whole message); the emission is read by the independent reader; second pass: all cases of one configuration class fed into ONE long-lived world; non-trivial = the message was relayed",
		Assume: []string{"well-formed messages of the stated domain (CRLF, single blanks, explicit Content-Length, no folding)"},
		Run: func(c *Ctx) {
			c01A.Run(c)
			c01B.Run(c)
			for _, a := range c01AgedSpecs() {
				a.Run(c)
			}
		},
		Replay: func(c *Ctx, raw json.RawMessage) string {
			var ag AgedCase
			if json.Unmarshal(raw, &ag) == nil && len(ag.Vectors) > 0 {
				for _, a := range c01AgedSpecs() {
					if strings.HasPrefix(ag.Group, "A:") == (a.Spec == c01A) {
						cl, _ := a.Replay(raw)
						return cl
					}
				}
			}
			var cs struct {
				Vals map[string]string `json:"values"`
			}
			json.Unmarshal(raw, &cs)
			if _, ok := cs.Vals["kind"]; ok {
				return c01A.Replay(raw)
			}
			return c01B.Replay(raw)
		},
	})
}
