//go:build verif && (c05 || all)

package main

import (
	"encoding/json"
	"fmt"
	"github.com/ochinchina/sipproxy/vrt/vnet"
	"net"
	"sort"
	"strings"
)

// C05 — strict rotation over the backends registered right now (DESIGN.md §4 C05).

type c05Op struct {
	Kind string `json:"kind"` // add | remove | dispatch
	Addr int    `json:"addr"` // index into the address universe
}

func (o c05Op) String() string {
	if o.Kind == "dispatch" {
		return "dispatch"
	}
	return fmt.Sprintf("%s(%d)", o.Kind, o.Addr)
}

type c05Case struct {
	Proto string  `json:"proto"`
	NAddr int     `json:"naddr"`
	Hist  []c05Op `json:"history"`
}

func c05Addr(i int) string { return fmt.Sprintf("127.0.1.%d:7000", i+1) }

// c05Name: the address string a backend is registered under. A TCP backend keeps the configured
// string verbatim, so one of them is a host name with capital letters (resolved by the simulated DNS).
func c05Name(proto string, i int) string {
	if proto == "tcp" && i == 1 {
		return "BE2.Example.NET:7000"
	}
	return c05Addr(i)
}

func c05Wire(name string) string {
	if name == "BE2.Example.NET:7000" {
		return c05Addr(1)
	}
	return name
}

type c05World struct {
	s     *Sim
	proto string
	ua    *UDPPeer
	udp   []*UDPPeer
	tcp   []*TCPPeerListener
	rr    *RoundRobinBackend
	seq   int
	crash string // panic in a membership call made by the driver
}

func c05Start(proto string, naddr int) *c05World {
	y := fmt.Sprintf("proxies:\n- name: svc.example.com\n  listens:\n  - address: 127.0.0.1\n    udp-port: 5060\n    backends:\n    - %s://%s\n", proto, c05Addr(0))
	preStart = func() { vnet.SetHost("BE2.Example.NET", false, "127.0.1.2") }
	w := &c05World{s: StartSim(y, SimOpts{}), proto: proto}
	preStart = nil
	w.ua = w.s.UDPPeer("127.0.0.9:5060")
	for i := 0; i < naddr; i++ {
		if proto == "udp" {
			w.udp = append(w.udp, w.s.UDPPeer(c05Addr(i)))
		} else {
			w.tcp = append(w.tcp, w.s.TCPListen(c05Addr(i)))
		}
	}
	w.rr = w.s.RoundRobins()[0]
	return w
}

// dispatch sends one unpinned request and returns the addresses that received a packet.
func (w *c05World) dispatch() []string {
	w.seq++
	m := MsgSpec{Method: "OPTIONS", RURI: "sip:svc.example.com", Vias: []string{fmt.Sprintf("SIP/2.0/UDP 127.0.0.9:5060;branch=z9hG4bKd%d", w.seq)},
		From: "<sip:a@a.example.net>;tag=1", To: "<sip:svc.example.com>", CallID: fmt.Sprintf("d%d", w.seq), CSeq: "1 OPTIONS"}.Build()
	w.s.Emitted()
	w.ua.Send("127.0.0.1:5060", m.Render())
	w.s.Run()
	var to []string
	for _, p := range w.s.Emitted() {
		to = append(to, p.To)
	}
	return to
}

func (w *c05World) add(i int) {
	var b Backend
	var err error
	if w.proto == "udp" {
		b, err = NewUDPBackend(":0", c05Addr(i))
	} else {
		item := w.s.Proxies()[0].items[0]
		slr := w.s.Proxies()[0].selfLearnRoute
		b, err = NewTCPBackend(":0", c05Name("tcp", i), func(conn net.Conn) { item.connectionEstablished(conn, false, slr) })
	}
	if err != nil {
		panic(err)
	}
	if cr := guard(func() { w.rr.AddBackend(b) }); cr != "" {
		w.crash = cr
	}
	w.s.Run()
}

func (w *c05World) remove(i int) {
	if cr := guard(func() { w.rr.RemoveBackend(c05Name(w.proto, i)) }); cr != "" {
		w.crash = cr
	}
	w.s.Run()
}

// key: the implementation state the future can depend on (ordered list, cursor, map keys, proxy index).
func (w *c05World) key() string {
	rot, ok1 := wbRotation(w.rr)
	pk, ok2 := wbProxyBackends(w.s.Proxies()[0])
	if !ok1 || !ok2 {
		return "wb:" + wbDump(w.rr) + wbDump(w.s.Proxies()[0])
	}
	return fmt.Sprintf("list=%s idx=%d map=%s proxy=%s", strings.Join(rot.Members, ","), rot.Index, strings.Join(rot.MapKeys, ","), strings.Join(pk, ","))
}

// c05Exec replays a history on a fresh world, checking the oracle at every step; then, from the
// state reached, probes 2k+1 consecutive dispatches (stable period). Returns the state key
// (taken before the probe) and the violated clause.
func c05Exec(proto string, naddr int, hist []c05Op, probe bool) (string, string, string) {
	w := c05Start(proto, naddr)
	defer w.s.Close()
	reg := map[string]bool{c05Addr(0): true}
	step := func(desc string, to []string) (string, string) {
		if v := w.s.Verdict(); v != "" {
			return "health", fmt.Sprintf("%s: %s\n%s", desc, v, w.s.CrashDetail())
		}
		if len(reg) == 0 {
			if len(to) != 0 {
				return "sent-with-no-backend", fmt.Sprintf("%s: no backend registered but packets went to %v", desc, to)
			}
			return "", ""
		}
		if len(to) != 1 {
			return "exactly-one", fmt.Sprintf("%s: %d packets (%v), registered %v", desc, len(to), to, keysOf(reg))
		}
		if !reg[to[0]] {
			return "unregistered-target", fmt.Sprintf("%s: dispatched to %s which is not registered (registered %v)", desc, to[0], keysOf(reg))
		}
		return "", ""
	}
	for i, op := range hist {
		desc := fmt.Sprintf("step %d %s of %v", i, op, hist)
		switch op.Kind {
		case "add":
			if reg[c05Addr(op.Addr)] {
				return "", "invalid", ""
			}
			w.add(op.Addr)
			reg[c05Addr(op.Addr)] = true
		case "remove":
			w.remove(op.Addr)
			delete(reg, c05Addr(op.Addr))
		case "dispatch":
			if cl, d := step(desc, w.dispatch()); cl != "" {
				return "", cl, d
			}
		}
		if w.crash != "" {
			return "", "crash-in-membership-change", desc + ": " + w.crash
		}
		if v := w.s.Verdict(); v != "" {
			return "", "health", desc + ": " + v
		}
	}
	// list and map in step with the reference membership
	if rot, ok := wbRotation(w.rr); ok {
		var l []string
		for _, a := range rot.Members {
			l = append(l, c05Wire(a))
		}
		sort.Strings(l)
		if strings.Join(l, ",") != strings.Join(keysOf(reg), ",") || (rot.HasMap && len(rot.MapKeys) != len(reg)) {
			return "", "membership", fmt.Sprintf("after %v: rotation list %v, map size %d, reference %v", hist, l, len(rot.MapKeys), keysOf(reg))
		}
	}
	// a removed UDP backend's socket is closed; open backend sockets = registered backends
	key := w.key()
	if !probe {
		return key, "", ""
	}
	k := len(reg)
	var seq []string
	for i := 0; i < 2*k+1; i++ {
		to := w.dispatch()
		if cl, d := step(fmt.Sprintf("probe %d after %v", i, hist), to); cl != "" {
			return "", cl, d
		}
		if len(to) == 1 {
			seq = append(seq, to[0])
		}
	}
	if k > 0 {
		for i := 0; i+k <= len(seq); i++ {
			seen := map[string]bool{}
			for _, a := range seq[i : i+k] {
				seen[a] = true
			}
			if len(seen) != k {
				return "", "rotation-window", fmt.Sprintf("after %v with %d backends the probe sequence %v has a window of %d dispatches that misses a backend", hist, k, seq, k)
			}
		}
	}
	return key, "", ""
}

func keysOf(m map[string]bool) []string {
	var o []string
	for k := range m {
		o = append(o, k)
	}
	sort.Strings(o)
	return o
}

func c05Sig(clause string, hist []c05Op) string {
	var t []string
	for _, o := range hist {
		t = append(t, o.Kind)
	}
	return clause + "|" + strings.Join(t, ">")
}

// c05Static: backend lists as configured in the YAML file (no membership change): every list over
// a small universe of backend URLs in which the same host:port appears over UDP and over TCP and
// two URLs differ only in the port; k consecutive dispatches over k backends reach each exactly once.
func c05StaticEval(cur []string) (string, string) {
	wire := func(u string) string {
		return strings.Replace(strings.Replace(u, "://", ">", 1), "be9.example.net", "127.0.1.9", 1)
	}
	y := "proxies:\n- name: svc.example.com\n  listens:\n  - address: 127.0.0.1\n    udp-port: 5060\n    backends:\n"
	for _, u := range cur {
		y += "    - " + u + "\n"
	}
	preStart = func() { vnet.SetHost("be9.example.net", false, "127.0.1.9") }
	s := StartSim(y, SimOpts{})
	preStart = nil
	defer s.Close()
	ua := s.UDPPeer("127.0.0.9:5060")
	for _, a := range []string{"127.0.1.1:7000", "127.0.1.2:7000", "127.0.1.2:7001", "127.0.1.9:7000"} {
		s.UDPPeer(a)
		s.TCPListen(a)
	}
	s.Run()
	s.EmittedAll()
	k := len(cur)
	var seq []string
	for i := 0; i < 2*k+1; i++ {
		m := MsgSpec{Method: "OPTIONS", RURI: "sip:svc.example.com", Vias: []string{fmt.Sprintf("SIP/2.0/UDP 127.0.0.9:5060;branch=z9hG4bKs%d", i)},
			From: "<sip:a@a.example.net>;tag=1", To: "<sip:svc.example.com>", CallID: fmt.Sprintf("s%d", i), CSeq: "1 OPTIONS"}.Build()
		ua.Send("127.0.0.1:5060", m.Render())
		s.Run()
		var to []string
		for _, p := range s.Emitted() {
			to = append(to, p.Proto+">"+p.To)
		}
		if len(to) != 1 {
			return "exactly-one", fmt.Sprintf("configured backends %v: dispatch %d produced %v", cur, i, to)
		}
		seq = append(seq, to[0])
	}
	if vd := s.Verdict(); vd != "" {
		return "health", vd
	}
	want := map[string]bool{}
	for _, u := range cur {
		want[wire(u)] = true
	}
	for i := 0; i+k <= len(seq); i++ {
		seen := map[string]bool{}
		for _, a := range seq[i : i+k] {
			if !want[a] {
				return "unregistered-target", fmt.Sprintf("configured backends %v: a dispatch went to %s", cur, a)
			}
			seen[a] = true
		}
		if len(seen) != k {
			return "rotation-window", fmt.Sprintf("configured backends %v: the dispatch sequence %v has a window of %d that misses a backend", cur, seq, k)
		}
	}
	return "", ""
}

func c05Static(c *Ctx) {
	universe := []string{"udp://127.0.1.1:7000", "tcp://127.0.1.1:7000", "udp://127.0.1.2:7000", "tcp://127.0.1.2:7001", "udp://127.0.1.2:7001", "udp://be9.example.net:7000"}
	var idx int64
	var rec func(cur []string)
	rec = func(cur []string) {
		if len(cur) >= 1 {
			idx++
			if c.Mine(idx) && !c.Expired() {
				cl, detail := c05StaticEval(cur)
				c.Res.Evaluations++
				c.Res.Executions++
				if len(cur) > 1 {
					c.Res.Nontrivial++
				}
				if cl != "" {
					c.Violate(cl+"|static|"+fmt.Sprint(len(cur)), cl, detail, c05Case{"static:" + strings.Join(cur, ","), 0, nil})
				}
			}
		}
		if len(cur) == 4 {
			return
		}
		for _, u := range universe {
			dup := false
			for _, x := range cur {
				if x == u {
					dup = true
				}
			}
			if !dup {
				rec(append(append([]string(nil), cur...), u))
			}
		}
	}
	rec(nil)
}

func c05Run(c *Ctx) {
	c05Static(c)
	naddr := 4
	if c.Thorough() {
		naddr = 5
	}
	type cfg struct {
		proto string
		n     int
	}
	cfgs := []cfg{{"udp", naddr}, {"tcp", naddr - 1}}
	if c.Thorough() {
		cfgs = []cfg{{"udp", naddr}, {"tcp", naddr}}
	}
	for ci, cf := range cfgs {
		var ops []c05Op
		ops = append(ops, c05Op{"dispatch", 0})
		for i := 0; i < cf.n; i++ {
			ops = append(ops, c05Op{"add", i}, c05Op{"remove", i})
		}
		_ = ci
		st, tr, done := BFSReplay(c, -1, ops, true, func(h []c05Op) (string, bool) {
			key, cl, detail := c05Exec(cf.proto, cf.n, h, true)
			c.Res.Executions++
			if cl == "invalid" {
				return "", false
			}
			c.Res.Evaluations++
			if len(h) > 1 {
				c.Res.Nontrivial++
			}
			if cl != "" {
				c.Violate(c05Sig(cl, h), cl, detail, c05Case{cf.proto, cf.n, h})
				return "", false
			}
			if i := strings.Index(key, " map="); i >= 0 {
				c.Outcome(key[:i])
			} else {
				c.Outcome(key)
			}
			if len(h) == 5 {
				c.Sample(c05Case{cf.proto, cf.n, h})
			}
			return key, true
		})
		c.Res.States += st
		c.Res.Transitions += tr
		if !done {
			c.Cap("BFS did not reach its fixpoint")
		}
	}
}

func init() {
	addCheck(&Check{Flows: []flowOracle{flowRotation}, ID: "C05", Level: "model_checking",
		Rule:     "every configured backend list of 1-4 entries over 6 backend URLs (the same host:port over UDP and TCP, two URLs differing only in the port, one backend given by host name) started from YAML and probed with 2k+1 dispatches; explicit-state BFS to a FIXPOINT over the real RoundRobinBackend inside a running proxy: events add(a)/remove(a)/dispatch over 4 (thorough 5) udp and 3 (thorough 5) tcp backend addresses (one tcp backend is registered under a host name with capital letters, resolved by the simulated DNS); state = ordered backend list x cursor x map keys x proxy index; every reachable state is followed by a probe of 2k+1 consecutive dispatches; non-trivial = history longer than one event",
		Assume:   []string{"the fixpoint covers operation sequences of any length over the address universe (finite reachable state space); concurrency half: see C05 race tier"},
		Run:      c05Run,
		Collapse: true,
		Finalize: func(c *Ctx, m *Result) { m.Extra["distinct_states_merged"] = len(m.Outcomes) },
		Replay: func(c *Ctx, raw json.RawMessage) string {
			var cs c05Case
			json.Unmarshal(raw, &cs)
			if strings.HasPrefix(cs.Proto, "static:") {
				cl, _ := c05StaticEval(strings.Split(strings.TrimPrefix(cs.Proto, "static:"), ","))
				return cl
			}
			_, cl, _ := c05Exec(cs.Proto, cs.NAddr, cs.Hist, true)
			return cl
		}})
}
