//go:build verif && (c11 || all)

package main

import (
	"bytes"
	"encoding/json"
	"fmt"
	"net"
	"sort"
	"strings"

	"github.com/ochinchina/sipproxy/vrt"
	"github.com/ochinchina/sipproxy/vrt/vnet"
)

// C11 — TCP framing depends on the bytes, not on how the stream is segmented (DESIGN.md §4 C11).
// The streams go through the REAL TCPServerTransport.receiveMessage (its own bufio.Reader) on a
// simulated connection whose writer cuts the stream.

type c11Handler struct{ got [][]byte }

func (h *c11Handler) HandleRawMessage(r *RawMessage) {
	b, err := r.Message.Bytes()
	if err != nil {
		b = []byte("ENCODE-ERROR " + err.Error())
	}
	h.got = append(h.got, b)
}
func (h *c11Handler) HandleMessage(m *Message) {}

type c11Elem struct {
	Name string
	Msg  *WMsg
	LF   bool
	Pre  int // CRLF keep-alives before the message
}

func c11Line(n int) WHdr {
	// a header line "X-Long: vvv" of exactly n bytes (without the line end)
	v := strings.Repeat("abcdefghijklmnopqrstuvwxyz0123456789", n/36+1)
	return WHdr{"X-Long", v[:n-len("X-Long: ")]}
}

func c11Base(i int, extra []WHdr, body []byte) *WMsg {
	return MsgSpec{Method: "MESSAGE", RURI: "sip:bob@svc.example.com", Vias: []string{fmt.Sprintf("SIP/2.0/TCP 127.0.0.9:5060;branch=z9hG4bKm%d", i)},
		From: "<sip:alice@ua.example.net>;tag=f1", To: "<sip:bob@svc.example.com>", CallID: fmt.Sprintf("c11-%d", i), CSeq: fmt.Sprintf("%d MESSAGE", i+1), Extra: extra, Body: body}.Build()
}

func c11Alphabet() map[string]func(i int) c11Elem {
	big := make([]byte, 60*1024)
	for i := range big {
		big[i] = byte(i*13 + i/251)
	}
	tiny := func(i int) *WMsg {
		return &WMsg{Start: "SIP/2.0 200 OK", Hdrs: []WHdr{{"v", fmt.Sprintf("SIP/2.0/TCP h;branch=z9hG4bK%d", i)}, {"x", ""}, {"l", "0"}}}
	}
	return map[string]func(i int) c11Elem{
		"nobody": func(i int) c11Elem { return c11Elem{Name: "nobody", Msg: c11Base(i, nil, nil)} },
		"small":  func(i int) c11Elem { return c11Elem{Name: "small", Msg: c11Base(i, nil, []byte("hello"))} },
		"tiny":   func(i int) c11Elem { return c11Elem{Name: "tiny", Msg: tiny(i)} },
		"siplike": func(i int) c11Elem {
			return c11Elem{Name: "siplike", Msg: c11Base(i, nil, []byte("INVITE sip:x@y SIP/2.0\r\nVia: SIP/2.0/TCP z\r\nContent-Length: 2\r\n\r\nab"))}
		},
		"crlfbody": func(i int) c11Elem {
			return c11Elem{Name: "crlfbody", Msg: c11Base(i, nil, []byte("\r\n\r\nSIP/2.0 200 OK\r\n\r\n"))}
		},
		"lf":        func(i int) c11Elem { return c11Elem{Name: "lf", Msg: c11Base(i, nil, []byte("x\ny\n")), LF: true} },
		"keepalive": func(i int) c11Elem { return c11Elem{Name: "keepalive", Msg: c11Base(i, nil, []byte("k")), Pre: 2} },
		"ka3-tiny":  func(i int) c11Elem { return c11Elem{Name: "ka3-tiny", Msg: tiny(i), Pre: 3} },
		"line4094": func(i int) c11Elem {
			return c11Elem{Name: "line4094", Msg: c11Base(i, []WHdr{c11Line(4094)}, []byte("b"))}
		},
		"line4095": func(i int) c11Elem {
			return c11Elem{Name: "line4095", Msg: c11Base(i, []WHdr{c11Line(4095)}, []byte("b"))}
		},
		"line4096": func(i int) c11Elem {
			return c11Elem{Name: "line4096", Msg: c11Base(i, []WHdr{c11Line(4096)}, []byte("b"))}
		},
		"line4097": func(i int) c11Elem {
			return c11Elem{Name: "line4097", Msg: c11Base(i, []WHdr{c11Line(4097)}, []byte("b"))}
		},
		"line4098": func(i int) c11Elem {
			return c11Elem{Name: "line4098", Msg: c11Base(i, []WHdr{c11Line(4098)}, []byte("b"))}
		},
		"line8192": func(i int) c11Elem {
			return c11Elem{Name: "line8192", Msg: c11Base(i, []WHdr{c11Line(8190), c11Line(8192), c11Line(8194)}, nil)}
		},
		"line20k": func(i int) c11Elem {
			return c11Elem{Name: "line20k", Msg: c11Base(i, []WHdr{c11Line(20 * 1024)}, []byte("after long line"))}
		},
		// the same long lines ended by a bare LF
		"lf-line4096": func(i int) c11Elem {
			return c11Elem{Name: "lf-line4096", Msg: c11Base(i, []WHdr{c11Line(4096)}, []byte("b")), LF: true}
		},
		"lf-line4097": func(i int) c11Elem {
			return c11Elem{Name: "lf-line4097", Msg: c11Base(i, []WHdr{c11Line(4097)}, []byte("b")), LF: true}
		},
		"lf-line4098": func(i int) c11Elem {
			return c11Elem{Name: "lf-line4098", Msg: c11Base(i, []WHdr{c11Line(4098)}, []byte("b")), LF: true}
		},
		"lf-line8192": func(i int) c11Elem {
			return c11Elem{Name: "lf-line8192", Msg: c11Base(i, []WHdr{c11Line(8190), c11Line(8192), c11Line(8194)}, nil), LF: true}
		},
		"lf-line20k": func(i int) c11Elem {
			return c11Elem{Name: "lf-line20k", Msg: c11Base(i, []WHdr{c11Line(20 * 1024)}, []byte("after long line")), LF: true}
		},
		// Content-Length = 1*DIGIT: leading zeros are legal
		"cl-010": func(i int) c11Elem {
			m := c11Base(i, nil, []byte("0123456789"))
			for k := range m.Hdrs {
				if m.Hdrs[k].Name == "Content-Length" {
					m.Hdrs[k].Value = "010"
				}
			}
			return c11Elem{Name: "cl-010", Msg: m}
		},
		"cl-0008": func(i int) c11Elem {
			m := c11Base(i, nil, []byte("01234567"))
			for k := range m.Hdrs {
				if m.Hdrs[k].Name == "Content-Length" {
					m.Hdrs[k].Name, m.Hdrs[k].Value = "l", "0008"
				}
			}
			return c11Elem{Name: "cl-0008", Msg: m}
		},
		"body60k":  func(i int) c11Elem { return c11Elem{Name: "body60k", Msg: c11Base(i, nil, big)} },
		"body4096": func(i int) c11Elem { return c11Elem{Name: "body4096", Msg: c11Base(i, nil, big[:4096])} },
	}
}

func (e c11Elem) bytes() []byte {
	raw := e.Msg.Render()
	if e.LF {
		i := bytes.Index(raw, []byte("\r\n\r\n"))
		head := bytes.ReplaceAll(raw[:i+4], []byte("\r\n"), []byte("\n"))
		raw = append(head, raw[i+4:]...)
	}
	return append(bytes.Repeat([]byte("\r\n"), e.Pre), raw...)
}

type c11Case struct {
	Stream []string `json:"stream"`
	Cuts   []int    `json:"cuts"`
	Mode   string   `json:"mode"` // direct | e2e
}

func c11Stream(names []string) ([]c11Elem, []byte, []int) {
	al := c11Alphabet()
	var elems []c11Elem
	var stream []byte
	var marks []int // interesting offsets: line ends, body boundaries, window multiples
	for i, n := range names {
		e := al[n](i)
		elems = append(elems, e)
		b := e.bytes()
		off := len(stream)
		// line ends of the header section only (a body is opaque)
		for k := 0; k < len(b)-len(e.Msg.Body); k++ {
			if b[k] == '\n' {
				marks = append(marks, off+k, off+k+1)
			}
		}
		marks = append(marks, off, off+len(b)-len(e.Msg.Body), off+len(b))
		stream = append(stream, b...)
	}
	for w := 4096; w < len(stream); w += 4096 {
		marks = append(marks, w)
	}
	return elems, stream, marks
}

func c11Segments(stream []byte, cuts []int) [][]byte {
	var segs [][]byte
	prev := 0
	for _, c := range cuts {
		if c > prev && c < len(stream) {
			segs = append(segs, stream[prev:c])
			prev = c
		}
	}
	return append(segs, stream[prev:])
}

// c11Feed runs the real receive loop over the segments and returns what the handler got.
func c11Feed(segs [][]byte) ([][]byte, bool, string) { return c11FeedStall(segs, 0) }

// c11FeedStall: with stall > 0 the sender pauses for that long (virtual time) between two segments,
// and the receiver has consumed everything sent before the pause
func c11FeedStall(segs [][]byte, stall int64) ([][]byte, bool, string) {
	w := vrt.NewWorld(nil, 0)
	defer w.Close()
	vnet.Reset()
	vnet.Fab.DriverMode = true
	l, _ := vnet.ListenTCP("tcp", &net.TCPAddr{IP: net.ParseIP("127.0.0.9"), Port: 5060})
	vnet.Fab.DriverMode = false
	pc, err := vnet.DialTCP("tcp", &net.TCPAddr{IP: net.ParseIP("127.0.0.1"), Port: 5062}, &net.TCPAddr{IP: net.ParseIP("127.0.0.9"), Port: 5060})
	if err != nil {
		panic(err)
	}
	dc := l.TryAccept()
	h := &c11Handler{}
	t := NewTCPServerTransportWithConn(pc, false, NewSelfLearnRoute())
	t.Start(h)
	for i, s := range segs {
		if stall > 0 && i > 0 {
			w.Quiesce()
			w.Advance(stall)
			w.Quiesce()
		}
		dc.Write(s)
	}
	w.Quiesce()
	verdict := ""
	if cr := w.CrashCopy(); len(cr) > 0 {
		verdict = "crash: " + strings.SplitN(cr[0], "\n", 2)[0]
	}
	return h.got, pc.IsClosed(), verdict
}

func c11Check(elems []c11Elem, got [][]byte, closed bool, verdict string) (string, string) {
	if verdict != "" {
		return "health", verdict
	}
	for i, e := range elems {
		if i >= len(got) {
			return "message-lost", fmt.Sprintf("message %d (%s) of %d was not delivered (delivered %d, connection closed by the proxy: %v)", i, e.Name, len(elems), len(got), closed)
		}
		m, err := ReadWire(got[i])
		if err != nil {
			return "message-garbled", fmt.Sprintf("message %d (%s): handler got unreadable %s", i, e.Name, short(got[i]))
		}
		if m.Start != e.Msg.Start {
			return "message-garbled", fmt.Sprintf("message %d (%s): start line %q, sent %q", i, e.Name, m.Start, e.Msg.Start)
		}
		var a, b []WHdr
		for _, h := range e.Msg.Hdrs {
			if canonName(h.Name) != "content-length" {
				a = append(a, h)
			}
		}
		for _, h := range m.Hdrs {
			if canonName(h.Name) != "content-length" {
				b = append(b, h)
			}
		}
		if len(a) != len(b) {
			return "message-garbled", fmt.Sprintf("message %d (%s): %d header fields delivered, %d sent", i, e.Name, len(b), len(a))
		}
		for k := range a {
			if a[k] != b[k] {
				d := firstDiffStr(a[k].Value, b[k].Value)
				return "header-corrupted", fmt.Sprintf("message %d (%s): field %q (%d bytes) differs from what was sent at value offset %d: sent ...%q, delivered ...%q", i, e.Name, a[k].Name, len(a[k].Value), d, clip(a[k].Value, d), clip(b[k].Value, d))
			}
		}
		if !bytes.Equal(m.Body, e.Msg.Body) {
			return "body-corrupted", fmt.Sprintf("message %d (%s): body of %d bytes delivered as %d bytes", i, e.Name, len(e.Msg.Body), len(m.Body))
		}
	}
	if len(got) > len(elems) {
		return "message-invented", fmt.Sprintf("%d messages delivered for %d sent; extra: %s", len(got), len(elems), short(got[len(elems)]))
	}
	if closed {
		return "connection-closed", "all messages delivered but the proxy closed the connection"
	}
	return "", ""
}

func c11Eval(cs c11Case) (string, string) {
	elems, stream, _ := c11Stream(cs.Stream)
	if cs.Mode == "e2e" {
		return c11E2E(elems, stream, cs.Cuts, 0)
	}
	if cs.Mode == "e2e-stall" {
		return c11E2E(elems, stream, cs.Cuts, c11Stall)
	}
	if cs.Mode == "direct-stall" {
		got, closed, vd := c11FeedStall(c11Segments(stream, cs.Cuts), c11Stall)
		cl, d := c11Check(elems, got, closed, vd)
		return c11StallVerdict(closed, cl, d)
	}
	got, closed, vd := c11Feed(c11Segments(stream, cs.Cuts))
	return c11Check(elems, got, closed, vd)
}

// c11E2E: the same stream through a full proxy to a UDP backend.
// c11Stall: the pause of the stalled modes - two hours of virtual time, longer than any plausible idle timer
const c11Stall = int64(7200) * 1e9

func c11E2E(elems []c11Elem, stream []byte, cuts []int, stall int64) (string, string) {
	cfg := RCfg{Name: "svc.example.com", Listens: []RListen{{Addr: "127.0.0.1", UDP: 5060, TCP: 5062, Backends: []string{"tcp://127.0.1.2:7000"}, NoReceived: "true"}}}
	w := StartRelayWorld(SimOpts{}, cfg)
	defer w.Close()
	c := w.Client("a", "127.0.0.9", "127.0.0.1:5062")
	w.Observe()
	for i, s := range c11Segments(stream, cuts) {
		if stall > 0 && i > 0 {
			w.S.Run()
			w.S.W.Advance(stall)
			w.S.Run()
		}
		c.Write(s)
	}
	w.S.Run()
	obs := w.Observe()
	var got [][]byte
	for _, p := range obs.Pkts {
		if p.To != "127.0.1.2:7000" {
			// what the proxy writes back on the sender's own connection (e.g. a CRLF answer to a keep-alive) is
			// not a message it extracted from the stream
			continue
		}
		m, err := ReadWire(p.Data)
		if err != nil {
			got = append(got, p.Data)
			continue
		}
		// drop the Via the proxy inserted
		if m.IsRequest() {
			for i, h := range m.Hdrs {
				if canonName(h.Name) == "via" {
					// the proxy's entry is the topmost VALUE: a line of its own, or joined in front of the sender's
					if vals := SplitTop(h.Value, ','); len(vals) > 1 {
						m.Hdrs[i].Value = strings.TrimLeft(strings.Join(vals[1:], ","), " \t")
					} else {
						m.Hdrs = append(m.Hdrs[:i:i], m.Hdrs[i+1:]...)
					}
					break
				}
			}
		}
		got = append(got, m.Render())
	}
	var reqs []c11Elem
	for _, e := range elems {
		if e.Msg.IsRequest() {
			reqs = append(reqs, e)
		}
	}
	if stall > 0 {
		cl, d := c11Check(reqs, got, c.ClosedByPeer(), w.S.Verdict())
		return c11StallVerdict(c.ClosedByPeer(), cl, d)
	}
	return c11Check(reqs, got, c.ClosedByPeer(), w.S.Verdict())
}

// c11StallVerdict: the statement is about bytes and their segmentation, not about time. A proxy that
// gives up a connection on which nothing arrived for two hours (and with it the message that was
// under way) does not contradict it: in the stalled modes "the proxy closed the connection" and "the
// messages after the stall were not delivered" are don't-cares - as long as everything that WAS
// delivered is an exact prefix of what was sent (garbled, corrupted or invented messages still count).
func c11StallVerdict(closed bool, cl, detail string) (string, string) {
	if closed && (cl == "message-lost" || cl == "connection-closed") {
		return "", ""
	}
	return cl, detail
}

func c11Run(c *Ctx) {
	short := []string{"nobody", "small", "tiny", "siplike", "crlfbody", "lf", "keepalive", "ka3-tiny", "cl-010", "cl-0008"}
	long := []string{"line4094", "line4095", "line4096", "line4097", "line4098", "line8192", "line20k", "body60k", "body4096", "lf-line4096", "lf-line4097", "lf-line4098", "lf-line8192", "lf-line20k"}
	var streams [][]string
	for _, a := range short {
		streams = append(streams, []string{a})
	}
	for _, a := range long {
		streams = append(streams, []string{a})
	}
	for _, a := range short {
		for _, b := range short {
			streams = append(streams, []string{a, b})
		}
	}
	for _, a := range long {
		for _, b := range []string{"small", "tiny", "line4097", "keepalive"} {
			streams = append(streams, []string{a, b}, []string{b, a})
		}
	}
	maxLen := 3
	if c.Thorough() {
		maxLen = 5
	}
	// longer streams: a fixed family mixing every shape
	mix := []string{"small", "ka3-tiny", "siplike", "lf", "crlfbody", "keepalive", "nobody", "tiny"}
	for n := 3; n <= maxLen; n++ {
		for s := 0; s < len(mix); s++ {
			var st []string
			for k := 0; k < n; k++ {
				st = append(st, mix[(s+k*3)%len(mix)])
			}
			streams = append(streams, st)
		}
	}
	streams = append(streams, []string{"small", "line4097", "ka3-tiny", "body4096", "lf", "line8192", "siplike", "tiny"}) // the fixed 8-message stream
	var idx int64
	fail := func(cs c11Case, cl, detail string) {
		sort.Strings(cs.Stream)
		_ = detail
	}
	_ = fail
	run := func(cs c11Case) {
		idx++
		if !c.Mine(idx) || c.Expired() {
			return
		}
		cl, detail := c11Eval(cs)
		c.Res.Evaluations++
		c.Res.Executions++
		if len(cs.Cuts) > 0 {
			c.Res.Nontrivial++
		}
		if idx%30000 == 1 {
			c.Sample(cs)
		}
		if cl != "" {
			// signature: clause + the message shapes involved (the first failing case is the replay)
			shapes := append([]string(nil), cs.Stream...)
			if len(shapes) > 2 {
				shapes = shapes[:2]
			}
			c.Violate(cl+"|"+cs.Mode+"|"+strings.Join(shapes, "+"), cl, fmt.Sprintf("stream %v cut at %v (%s):\n%s", cs.Stream, cs.Cuts, cs.Mode, detail), cs)
		}
	}
	pairBudget := 420
	if c.Thorough() {
		pairBudget = 1500
	}
	for _, st := range streams {
		_, stream, marks := c11Stream(st)
		n := len(stream)
		// the two extreme segmentations
		run(c11Case{st, nil, "direct"})
		if n <= 9000 || c.Thorough() {
			all := make([]int, 0, n)
			for i := 1; i < n; i++ {
				all = append(all, i)
			}
			run(c11Case{st, all, "direct"})
		}
		near := func(r int) []int {
			set := map[int]bool{}
			for _, m := range marks {
				for d := -r; d <= r; d++ {
					if m+d > 0 && m+d < n {
						set[m+d] = true
					}
				}
			}
			var l []int
			for k := range set {
				l = append(l, k)
			}
			sort.Ints(l)
			return l
		}
		near3 := near(3)
		// single cuts: all of them (long streams: quick tier only around the marks)
		var singles []int
		if n <= 9000 || c.Thorough() {
			for i := 1; i < n; i++ {
				singles = append(singles, i)
			}
		} else {
			singles = near3
		}
		for _, a := range singles {
			run(c11Case{st, []int{a}, "direct"})
		}
		// the sender stalls for two hours at the cut (every cut of short streams, else around the marks):
		// what is extracted does not depend on WHEN the bytes arrive either
		stalls := near3
		if n <= pairBudget {
			stalls = singles
		}
		for _, a := range stalls {
			run(c11Case{st, []int{a}, "direct-stall"})
		}
		// pairs of cuts: all pairs for short streams, else all pairs of positions around the marks
		var pairSet []int
		switch {
		case n <= pairBudget:
			for i := 1; i < n; i++ {
				pairSet = append(pairSet, i)
			}
		case c.Thorough():
			pairSet = near3
		default:
			pairSet = near(1)
		}
		if len(pairSet) > 700 {
			pairSet = near(0)
		}
		for i, a := range pairSet {
			for _, b := range pairSet[i+1:] {
				run(c11Case{st, []int{a, b}, "direct"})
			}
		}
		// end to end through a full proxy: the single cuts near the marks
		if len(st) <= 3 {
			run(c11Case{st, nil, "e2e"})
			for _, a := range near3 {
				run(c11Case{st, []int{a}, "e2e"})
				run(c11Case{st, []int{a}, "e2e-stall"})
			}
		}
	}
}

func init() {
	addCheck(&Check{ID: "C11", Level: "exploration",
		Rule:   "streams of 1-3 (thorough 1-5, plus a fixed 8-message stream) messages over an alphabet of 24 shapes (no body, Content-Length written with leading zeros, small body, SIP-like body, body starting with CRLF, LF-only line ends, 0-3 CRLF keep-alives, header lines of 4094..4098 / 8190..8194 / 20480 bytes ended by CRLF and by a bare LF, bodies of 4096 B and 60 KiB) through the REAL TCPServerTransport.receiveMessage on a simulated connection; segmentations: none, 1-byte segments, ALL single cuts and ALL pairs of cuts for streams up to 700 B (thorough 1500 B), for longer streams all single cuts (or all within +-3 of every line end, body boundary and 4096-multiple) and all pairs of those marks; plus the single cuts end-to-end through a full proxy to a TCP backend; plus the same single cuts with the sender stalling for two hours of virtual time at the cut (read deadlines are modelled on the virtual clock), direct and end to end; non-trivial = at least one cut",
		Assume: []string{"a short read equals an additional cut, so cuts subsume short reads; coalescing of queued segments is the no-cut case"},
		Run:    c11Run,
		Replay: func(c *Ctx, raw json.RawMessage) string {
			var cs c11Case
			json.Unmarshal(raw, &cs)
			cl, _ := c11Eval(cs)
			return cl
		}})
}
