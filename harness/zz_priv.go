//go:build verif

package main

// Run-time access to the private state that BFS state keys and the white-box oracle clauses read.
//
// A state key has to name the implementation state the future can depend on (dialog table, transport
// table, rotation cursor ...), and a few clauses are anchored in private state by the property itself
// (C05 list/map in step, C15 purge of the table, C19 membership). Reading those fields with ordinary
// selectors ties the harness to their names at COMPILE time: a change of the repository that renames
// or restructures them (map -> map + heap, a table type with its own lock) would stop the whole check
// from building although every black-box clause could still be evaluated. The accessors below find the
// state by name first and by SHAPE second (a string-keyed map whose entries hold a Backend and a
// time.Time is the dialog table whatever it is called), and report ok=false when nothing fits. Callers
// then fall back to wbDump (a canonical dump of everything reachable: an over-fine state key only costs
// time) and skip the white-box clause, which the check reports as a cap.
//
// Reflection is used for READING only; unexported fields are made readable through their address, which
// is why every entry point takes a pointer.

import (
	"fmt"
	"hash/fnv"
	"reflect"
	"sort"
	"strings"
	"time"
	"unsafe"

	"github.com/ochinchina/sipproxy/vrt/vtime"
)

var wbBackendType = reflect.TypeOf((*Backend)(nil)).Elem()
var wbTimeType = reflect.TypeOf(time.Time{})

// wbSkipped collects the white-box reads that found nothing (reported as caps by the checks that use them).
var wbSkipped = map[string]bool{}

func wbMiss(what string) { wbSkipped[what] = true }

// WBCaps: one line per white-box read that the current repository did not support.
func WBCaps() []string {
	var l []string
	for k := range wbSkipped {
		l = append(l, "white-box read not available on this tree, fell back to a generic state dump / skipped the clause: "+k)
	}
	sort.Strings(l)
	return l
}

func wbDeref(v reflect.Value) reflect.Value {
	for v.IsValid() && (v.Kind() == reflect.Ptr || v.Kind() == reflect.Interface) {
		if v.IsNil() {
			return reflect.Value{}
		}
		v = v.Elem()
	}
	return v
}

// wbClean makes an addressable (possibly unexported) field value readable.
func wbClean(f reflect.Value) reflect.Value {
	if f.IsValid() && f.CanAddr() {
		return reflect.NewAt(f.Type(), unsafe.Pointer(f.UnsafeAddr())).Elem()
	}
	return f
}

// wbField: the field called name of the struct v points to (invalid when absent).
func wbField(v reflect.Value, name string) reflect.Value {
	v = wbDeref(v)
	if !v.IsValid() || v.Kind() != reflect.Struct {
		return reflect.Value{}
	}
	return wbClean(v.FieldByName(name))
}

func wbPath(obj interface{}, path ...string) reflect.Value {
	v := reflect.ValueOf(obj)
	for _, n := range path {
		v = wbField(v, n)
		if !v.IsValid() {
			return v
		}
	}
	return v
}

// wbFind: the first value reachable from v through struct fields (declaration order, pointers followed,
// at most depth levels down) that satisfies pred.
func wbFind(v reflect.Value, depth int, pred func(reflect.Value) bool) reflect.Value {
	v = wbDeref(v)
	if !v.IsValid() || v.Kind() != reflect.Struct || v.Type() == wbTimeType {
		return reflect.Value{}
	}
	for i := 0; i < v.NumField(); i++ {
		f := wbClean(v.Field(i))
		if pred(f) {
			return f
		}
	}
	if depth > 0 {
		for i := 0; i < v.NumField(); i++ {
			f := wbClean(v.Field(i))
			if !strings.HasSuffix(v.Type().Field(i).Type.String(), "Mutex") {
				if r := wbFind(f, depth-1, pred); r.IsValid() {
					return r
				}
			}
		}
	}
	return reflect.Value{}
}

func wbIsBackendSlice(f reflect.Value) bool {
	return f.Kind() == reflect.Slice && f.Type().Elem().Implements(wbBackendType)
}

func wbIsBackendMap(f reflect.Value) bool {
	return f.Kind() == reflect.Map && f.Type().Key().Kind() == reflect.String && f.Type().Elem().Implements(wbBackendType)
}

func wbStructOf(t reflect.Type) (reflect.Type, bool) {
	if t.Kind() == reflect.Ptr {
		t = t.Elem()
	}
	return t, t.Kind() == reflect.Struct
}

// a string-keyed map whose entries hold a Backend and a time.Time
func wbIsDialogMap(f reflect.Value) bool {
	if f.Kind() != reflect.Map || f.Type().Key().Kind() != reflect.String {
		return false
	}
	st, ok := wbStructOf(f.Type().Elem())
	if !ok {
		return false
	}
	hasB, hasT := false, false
	for i := 0; i < st.NumField(); i++ {
		ft := st.Field(i).Type
		if ft == wbTimeType {
			hasT = true
		}
		if ft.Kind() == reflect.Interface && ft.Implements(wbBackendType) {
			hasB = true
		}
	}
	return hasB && hasT
}

// a string-keyed map of backends, or of entries that hold a Backend and no time (the proxy's address index)
func wbIsBackendIndex(f reflect.Value) bool {
	if wbIsBackendMap(f) {
		return true
	}
	if f.Kind() != reflect.Map || f.Type().Key().Kind() != reflect.String || wbIsDialogMap(f) {
		return false
	}
	st, ok := wbStructOf(f.Type().Elem())
	if !ok {
		return false
	}
	for i := 0; i < st.NumField(); i++ {
		if ft := st.Field(i).Type; ft.Kind() == reflect.Interface && ft.Implements(wbBackendType) {
			return true
		}
	}
	return false
}

func wbIsStructMap(f reflect.Value) bool {
	if f.Kind() != reflect.Map || f.Type().Key().Kind() != reflect.String {
		return false
	}
	_, ok := wbStructOf(f.Type().Elem())
	return ok
}

func wbSortedKeys(m reflect.Value) []string {
	var l []string
	for _, k := range m.MapKeys() {
		l = append(l, k.String())
	}
	sort.Strings(l)
	return l
}

func wbAddr(v reflect.Value) string {
	if !v.IsValid() {
		return "nil"
	}
	if (v.Kind() == reflect.Interface || v.Kind() == reflect.Ptr) && v.IsNil() {
		return "nil"
	}
	if v.CanInterface() {
		if b, ok := v.Interface().(Backend); ok {
			return b.GetAddress()
		}
	}
	return "?"
}

// ---- the dialog table of a Proxy ----

type wbPin struct {
	Key     string
	Backend string
	Expire  time.Time
}

// wbDialogTable: entries of the dialog / transaction binding table and the time of the next sweep.
func wbDialogTable(p *Proxy) (pins []wbPin, sweep time.Time, ok bool) {
	tb := wbPath(p, "dialogBasedBackends")
	if !tb.IsValid() {
		tb = reflect.ValueOf(p)
	}
	m := wbField(tb, "backends")
	if !m.IsValid() || !wbIsDialogMap(m) {
		m = wbFind(tb, 2, wbIsDialogMap)
	}
	if !m.IsValid() {
		wbMiss("dialog table of the Proxy")
		return nil, time.Time{}, false
	}
	for _, k := range wbSortedKeys(m) {
		e := wbDeref(m.MapIndex(reflect.ValueOf(k)))
		pin := wbPin{Key: k}
		if e.IsValid() {
			// fields are reached through the entry's address (entries are pointers in every layout seen; a
			// by-value entry is copied into an addressable value first)
			if !e.CanAddr() {
				c := reflect.New(e.Type()).Elem()
				c.Set(e)
				e = c
			}
			for i := 0; i < e.NumField(); i++ {
				f := wbClean(e.Field(i))
				if f.Type() == wbTimeType && pin.Expire.IsZero() {
					pin.Expire = f.Interface().(time.Time)
				}
				if f.Kind() == reflect.Interface && f.Type().Implements(wbBackendType) && pin.Backend == "" {
					pin.Backend = wbAddr(f)
				}
			}
		}
		pins = append(pins, pin)
	}
	if s := wbField(tb, "nextCleanTime"); s.IsValid() && s.Type() == wbTimeType {
		sweep = s.Interface().(time.Time)
	} else if s := wbFind(tb, 0, func(f reflect.Value) bool { return f.Type() == wbTimeType }); s.IsValid() {
		sweep = s.Interface().(time.Time)
	}
	return pins, sweep, true
}

// ---- a rotation ----

type wbRot struct {
	Members []string // addresses in list order
	Types   []string // dynamic type of each member
	Index   int
	MapKeys []string // sorted
	HasMap  bool
}

func wbRotation(rr *RoundRobinBackend) (wbRot, bool) {
	var r wbRot
	l := wbPath(rr, "backends")
	if !l.IsValid() || !wbIsBackendSlice(l) {
		l = wbFind(reflect.ValueOf(rr), 1, wbIsBackendSlice)
	}
	if !l.IsValid() {
		wbMiss("member list of the rotation")
		return r, false
	}
	for i := 0; i < l.Len(); i++ {
		r.Members = append(r.Members, wbAddr(l.Index(i)))
		if e := l.Index(i); e.Kind() == reflect.Interface && !e.IsNil() {
			r.Types = append(r.Types, strings.TrimPrefix(e.Elem().Type().String(), "*main."))
		} else {
			r.Types = append(r.Types, e.Type().String())
		}
	}
	ix := wbPath(rr, "index")
	if !ix.IsValid() || ix.Kind() != reflect.Int {
		ix = wbFind(reflect.ValueOf(rr), 0, func(f reflect.Value) bool {
			return f.Kind() >= reflect.Int && f.Kind() <= reflect.Uint64
		})
	}
	if ix.IsValid() {
		if ix.Kind() >= reflect.Uint && ix.Kind() <= reflect.Uint64 {
			r.Index = int(ix.Uint())
		} else {
			r.Index = int(ix.Int())
		}
	} else {
		wbMiss("cursor of the rotation")
	}
	m := wbPath(rr, "backendMap")
	if !m.IsValid() || !wbIsBackendMap(m) {
		m = wbFind(reflect.ValueOf(rr), 1, wbIsBackendMap)
	}
	if m.IsValid() {
		r.MapKeys = wbSortedKeys(m)
		r.HasMap = true
	}
	return r, true
}

// wbProxyBackends: the source addresses the proxy recognises as its backends (sorted).
func wbProxyBackends(p *Proxy) ([]string, bool) {
	m := wbPath(p, "backends")
	if !m.IsValid() || !wbIsBackendIndex(m) {
		// not below dialogBasedBackends / rotations: only the proxy's own fields and one level of plain wrappers
		v := wbDeref(reflect.ValueOf(p))
		m = reflect.Value{}
		for i := 0; v.IsValid() && i < v.NumField() && !m.IsValid(); i++ {
			f := wbClean(v.Field(i))
			if wbIsBackendIndex(f) {
				m = f
			} else if n := v.Type().Field(i).Name; strings.Contains(strings.ToLower(n), "backend") && !strings.Contains(strings.ToLower(n), "dialog") {
				m = wbFind(f, 0, wbIsBackendIndex)
			}
		}
	}
	if !m.IsValid() {
		wbMiss("backend address index of the Proxy")
		return nil, false
	}
	return wbSortedKeys(m), true
}

// wbTransports: keys of the client transport table, each with the nil-ness of the entry's reference fields.
func wbTransports(p *Proxy) ([]string, bool) {
	mgr := wbPath(p, "clientTransMgr")
	if !mgr.IsValid() {
		wbMiss("client transport table of the Proxy")
		return nil, false
	}
	m := wbField(mgr, "transports")
	if !m.IsValid() || m.Kind() != reflect.Map {
		m = wbFind(mgr, 1, func(f reflect.Value) bool { return f.Kind() == reflect.Map })
	}
	if !m.IsValid() {
		wbMiss("client transport table of the Proxy")
		return nil, false
	}
	type kv struct{ k, s string }
	var l []string
	it := m.MapRange()
	for it.Next() {
		ks := wbKeyString(it.Key())
		e := wbDeref(it.Value())
		fl := ""
		if e.IsValid() && e.Kind() == reflect.Struct {
			for i := 0; i < e.NumField(); i++ {
				f := e.Field(i)
				switch f.Kind() {
				case reflect.Ptr, reflect.Interface, reflect.Map, reflect.Slice, reflect.Chan, reflect.Func:
					fl += fmt.Sprintf("\x00%v", !f.IsNil())
				}
			}
		}
		l = append(l, ks+fl)
	}
	sort.Strings(l)
	return l, true
}

// wbResolverEntry: the addresses held for a host name and the count of consecutive failures
// (registered=false when the resolver has no entry for the name).
func wbResolverEntry(r interface{}, name string) (addrs []string, failed int, registered bool, ok bool) {
	m := wbPath(r, "hostIPs")
	if !m.IsValid() || m.Kind() != reflect.Map {
		m = wbFind(reflect.ValueOf(r), 0, wbIsStructMap)
	}
	if !m.IsValid() {
		wbMiss("host table of the resolver")
		return nil, 0, false, false
	}
	e := m.MapIndex(reflect.ValueOf(name))
	if !e.IsValid() || ((e.Kind() == reflect.Ptr || e.Kind() == reflect.Interface) && e.IsNil()) {
		return nil, 0, false, true
	}
	e = wbDeref(e)
	a := wbField(e, "addrs")
	if !a.IsValid() || a.Kind() != reflect.Slice || a.Type().Elem().Kind() != reflect.String {
		a = wbFind(e, 0, func(f reflect.Value) bool {
			return f.Kind() == reflect.Slice && f.Type().Elem().Kind() == reflect.String
		})
	}
	f := wbField(e, "failed")
	if !f.IsValid() || f.Kind() != reflect.Int {
		f = wbFind(e, 0, func(f reflect.Value) bool { return f.Kind() == reflect.Int })
	}
	if !a.IsValid() || !f.IsValid() {
		wbMiss("entry of the resolver's host table")
		return nil, 0, true, false
	}
	for i := 0; i < a.Len(); i++ {
		addrs = append(addrs, a.Index(i).String())
	}
	return addrs, int(f.Int()), true, true
}

// wbTransportKeys: the keys alone.
func wbTransportKeys(p *Proxy) ([]string, bool) {
	l, ok := wbTransports(p)
	for i := range l {
		if j := strings.Index(l[i], "\x00"); j >= 0 {
			l[i] = l[i][:j]
		}
	}
	return l, ok
}

// wbKeyString: a map key as text (string keys as they are; struct keys field by field).
func wbKeyString(k reflect.Value) string {
	switch k.Kind() {
	case reflect.String:
		return k.String()
	case reflect.Struct:
		var s []string
		for i := 0; i < k.NumField(); i++ {
			s = append(s, wbKeyString(k.Field(i)))
		}
		return strings.Join(s, "/")
	case reflect.Int, reflect.Int8, reflect.Int16, reflect.Int32, reflect.Int64:
		return fmt.Sprint(k.Int())
	case reflect.Uint, reflect.Uint8, reflect.Uint16, reflect.Uint32, reflect.Uint64:
		return fmt.Sprint(k.Uint())
	case reflect.Bool:
		return fmt.Sprint(k.Bool())
	}
	return k.Type().String()
}

// ---- generic canonical dump (fallback state key) ----

// wbDump: everything reachable from obj inside the program's own package, in a canonical text: maps sorted,
// pointers numbered in visiting order, times relative to the virtual clock, anything with GetAddress() by its
// address, foreign types (locks, sockets, loggers, channels, funcs) by type name only.
func wbDump(obj interface{}) string {
	var b strings.Builder
	wbDumpV(reflect.ValueOf(obj), 7, map[uintptr]int{}, &b)
	s := b.String()
	if len(s) > 4096 {
		h := fnv.New64a()
		h.Write([]byte(s))
		return fmt.Sprintf("dump#%x/%d", h.Sum64(), len(s))
	}
	return s
}

func wbDumpV(v reflect.Value, depth int, seen map[uintptr]int, b *strings.Builder) {
	if !v.IsValid() {
		b.WriteString("nil")
		return
	}
	if depth == 0 {
		b.WriteString("...")
		return
	}
	t := v.Type()
	switch v.Kind() {
	case reflect.Ptr, reflect.Interface:
		if v.IsNil() {
			b.WriteString("nil")
			return
		}
		if v.CanInterface() {
			if be, ok := v.Interface().(Backend); ok {
				fmt.Fprintf(b, "%s@%s", strings.TrimPrefix(v.Elem().Type().String(), "*"), be.GetAddress())
				return
			}
		}
		if v.Kind() == reflect.Ptr {
			if n, ok := seen[v.Pointer()]; ok {
				fmt.Fprintf(b, "#%d", n)
				return
			}
			seen[v.Pointer()] = len(seen)
		}
		wbDumpV(v.Elem(), depth, seen, b)
	case reflect.Struct:
		if t == wbTimeType {
			if v.CanInterface() {
				tm := v.Interface().(time.Time)
				if tm.IsZero() {
					b.WriteString("t0")
				} else {
					fmt.Fprintf(b, "t%+d", tm.Sub(vtime.Now()).Milliseconds())
				}
			} else {
				b.WriteString("t?")
			}
			return
		}
		if t.PkgPath() != "github.com/ochinchina/sipproxy" && t.PkgPath() != "main" {
			b.WriteString(t.String())
			return
		}
		b.WriteString(t.Name() + "{")
		for i := 0; i < v.NumField(); i++ {
			b.WriteString(t.Field(i).Name + "=")
			wbDumpV(wbClean(v.Field(i)), depth-1, seen, b)
			b.WriteString(" ")
		}
		b.WriteString("}")
	case reflect.Map:
		type ent struct{ k, v string }
		var es []ent
		it := v.MapRange()
		for it.Next() {
			var kb, vb strings.Builder
			kb.WriteString(wbKeyString(it.Key()))
			wbDumpV(it.Value(), depth-1, seen, &vb)
			es = append(es, ent{kb.String(), vb.String()})
		}
		sort.Slice(es, func(i, j int) bool { return es[i].k < es[j].k })
		b.WriteString("map[")
		for _, e := range es {
			b.WriteString(e.k + ":" + e.v + " ")
		}
		b.WriteString("]")
	case reflect.Slice, reflect.Array:
		if t.Elem().Kind() == reflect.Uint8 {
			fmt.Fprintf(b, "bytes/%d", v.Len())
			return
		}
		b.WriteString("[")
		for i := 0; i < v.Len(); i++ {
			wbDumpV(v.Index(i), depth-1, seen, b)
			b.WriteString(" ")
		}
		b.WriteString("]")
	case reflect.String:
		b.WriteString(v.String())
	case reflect.Bool:
		fmt.Fprint(b, v.Bool())
	case reflect.Int, reflect.Int8, reflect.Int16, reflect.Int32, reflect.Int64:
		fmt.Fprint(b, v.Int())
	case reflect.Uint, reflect.Uint8, reflect.Uint16, reflect.Uint32, reflect.Uint64, reflect.Uintptr:
		fmt.Fprint(b, v.Uint())
	case reflect.Float32, reflect.Float64:
		fmt.Fprint(b, v.Float())
	default:
		b.WriteString(t.String())
	}
}
