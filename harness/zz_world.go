//go:build verif

package main

import (
	"bufio"
	"bytes"
	"fmt"
	"os"
	"runtime"
	"sort"
	"strings"

	"github.com/google/uuid"
	"github.com/ochinchina/sipproxy/vrt"
	"github.com/ochinchina/sipproxy/vrt/vnet"
)

// detRand is the deterministic byte stream behind uuid.SetRand (one per execution).
type detRand struct {
	s, cur uint64
	k      int
}

// splitmix64: a bijection of the 64-bit state, so 8-byte outputs never repeat
//
//go:norace
func (d *detRand) Read(p []byte) (int, error) {
	for i := range p {
		if d.k == 0 {
			d.s += 0x9E3779B97F4A7C15
			z := d.s
			z = (z ^ (z >> 30)) * 0xBF58476D1CE4E5B9
			z = (z ^ (z >> 27)) * 0x94D049BB133111EB
			d.cur = z ^ (z >> 31)
			d.k = 8
		}
		p[i] = byte(d.cur)
		d.cur >>= 8
		d.k--
	}
	return len(p), nil
}

// Sim is one execution: the real proxy code started inside a fresh controlled world.
type Sim struct {
	W       *vrt.World
	mark    int
	verdict string
	UseMain bool
}

type SimOpts struct {
	Prefix  []int             // replayed choice prefix
	Explore int               // choice kinds that are explored
	MapMode int               // map iteration order mode
	Main    bool              // start through the real main() with a YAML file instead of startProxy
	Env     map[string]string // environment variables for this execution
	NoStart bool              // do not start any proxy (pure/unit style worlds)
}

var yamlFiles = map[string]string{}

func yamlFile(text string) string {
	if p, ok := yamlFiles[text]; ok {
		return p
	}
	f, err := os.CreateTemp("", "sipcfg*.yaml")
	if err != nil {
		panic(err)
	}
	f.WriteString(text)
	f.Close()
	yamlFiles[text] = f.Name()
	return f.Name()
}

func cleanupYamlFiles() {
	for k, p := range yamlFiles {
		os.Remove(p)
		delete(yamlFiles, k) // a later world with the same text must get a new file (replays run every case twice)
	}
}

// preStart (optional) runs inside the fresh world before the proxy is started (DNS scripting).
var preStart func()

var simEnvKeys = []string{"KEEP_NEXT_HOP_ROUTE", "DEFAULT_DIALOG_TIMEOUT"}

// StartSim starts a world and, unless NoStart, the proxies described by the YAML text, exactly
// as startProxies does (createPreConfigRoute, createPreConfigHostResolver, startProxy).
func StartSim(yamlText string, o SimOpts) *Sim {
	for _, k := range simEnvKeys {
		os.Unsetenv(k)
	}
	for k, v := range o.Env {
		os.Setenv(k, v)
	}
	w := vrt.NewWorld(o.Prefix, o.Explore)
	w.MapMode = o.MapMode
	vnet.Reset()
	uuid.SetRand(&detRand{})
	s := &Sim{W: w, UseMain: o.Main}
	dynamicHostResolver = NewDynamicHostResolver(2)
	if preStart != nil {
		preStart()
	}
	if o.NoStart {
		return s
	}
	if o.Main {
		os.Args = []string{"sipproxy", "-c", yamlFile(yamlText), "--log-level", "fatal"}
		vrt.Go(sipproxyMain)
	} else {
		config, err := loadConfigFromReader(strings.NewReader(yamlText))
		if err != nil {
			panic(fmt.Sprintf("harness: bad yaml: %v\n%s", err, yamlText))
		}
		for _, pc := range config.Proxies {
			if err := startProxy(pc, createPreConfigRoute(pc), createPreConfigHostResolver(config.Hosts, pc)); err != nil {
				s.verdict = "start failed: " + err.Error()
			}
		}
	}
	s.Run()
	return s
}

// Run lets the world run to quiescence. A deadlock of the driver becomes a verdict.
func (s *Sim) Run() {
	defer func() {
		if r := recover(); r != nil {
			if d, ok := r.(vrt.DeadlockError); ok {
				s.verdict = "deadlock: " + strings.Join(d.Blocked, ",")
				return
			}
			panic(r)
		}
	}()
	s.W.Quiesce()
}

// Emitted returns the packets emitted since the previous call.
func (s *Sim) Emitted() []vnet.Packet {
	var p []vnet.Packet
	for _, x := range s.EmittedAll() {
		if x.Proto != "dial" {
			p = append(p, x)
		}
	}
	return p
}

// EmittedAll additionally returns the connection attempts (Proto "dial") the program made.
func (s *Sim) EmittedAll() []vnet.Packet {
	all := vnet.LogSince(s.mark)
	s.mark = vnet.LogLen()
	var p []vnet.Packet
	for _, x := range all {
		if !x.Driver {
			p = append(p, x)
		}
	}
	return p
}

// Verdict: "" when the execution is healthy, else crash / deadlock / divergence description.
func (s *Sim) Verdict() string {
	if s.verdict != "" {
		return s.verdict
	}
	if s.W.Diverged != "" {
		return "harness: " + s.W.Diverged
	}
	if cr := s.W.CrashCopy(); len(cr) > 0 {
		first := cr[0]
		if i := strings.Index(first, "\n"); i > 0 {
			first = first[:i]
		}
		return "crash: " + first
	}
	if st := s.W.Stuck(); len(st) > 0 {
		return "deadlock: " + strings.Join(st, ",")
	}
	return ""
}

func (s *Sim) CrashDetail() string { return strings.Join(s.W.CrashCopy(), "\n") }

func (s *Sim) Close() { s.W.Close() }

// ---- objects created by the real startup code ----

func (s *Sim) Proxies() []*Proxy {
	var out []*Proxy
	for _, o := range s.W.Registered() {
		if p, ok := o.(*Proxy); ok {
			out = append(out, p)
		}
	}
	return out
}

func (s *Sim) RoundRobins() []*RoundRobinBackend {
	var out []*RoundRobinBackend
	for _, o := range s.W.Registered() {
		if p, ok := o.(*RoundRobinBackend); ok {
			out = append(out, p)
		}
	}
	return out
}

// ---- driver-side endpoints ----

type UDPPeer struct {
	c    *vnet.UDPConn
	Addr string
}

func (s *Sim) UDPPeer(addr string) *UDPPeer {
	a, err := vnet.ResolveUDPAddr("udp", addr)
	if err != nil {
		panic(err)
	}
	vnet.Fab.DriverMode = true
	c, err := vnet.ListenUDP("udp", a)
	vnet.Fab.DriverMode = false
	if err != nil {
		panic(fmt.Sprintf("harness: peer %s: %v", addr, err))
	}
	return &UDPPeer{c: c, Addr: addr}
}

func (p *UDPPeer) Send(to string, data []byte) {
	a, err := vnet.ResolveUDPAddr("udp", to)
	if err != nil {
		panic(err)
	}
	if _, err := p.c.WriteToUDP(data, a); err != nil {
		panic(err)
	}
}

func (p *UDPPeer) Take() []vnet.Datagram { return p.c.TakeAll() }
func (p *UDPPeer) Close()                { p.c.Close() }

type TCPPeerListener struct {
	l    *vnet.TCPListener
	Addr string
}

func (s *Sim) TCPListen(addr string) *TCPPeerListener {
	a, err := vnet.ResolveTCPAddr("tcp", addr)
	if err != nil {
		panic(err)
	}
	vnet.Fab.DriverMode = true
	l, err := vnet.ListenTCP("tcp", a)
	vnet.Fab.DriverMode = false
	if err != nil {
		panic(fmt.Sprintf("harness: tcp peer %s: %v", addr, err))
	}
	return &TCPPeerListener{l: l, Addr: addr}
}

func (l *TCPPeerListener) Accept() *vnet.TCPConn { return l.l.TryAccept() }
func (l *TCPPeerListener) Close()                { l.l.Close() }

// TCPDial opens a driver-side client connection from "ip:port" (port 0 = ephemeral) to "ip:port".
func (s *Sim) TCPDial(from, to string) (*vnet.TCPConn, error) {
	la, err := vnet.ResolveTCPAddr("tcp", from)
	if err != nil {
		panic(err)
	}
	ra, err := vnet.ResolveTCPAddr("tcp", to)
	if err != nil {
		panic(err)
	}
	vnet.Fab.DriverMode = true
	c, err := vnet.DialTCP("tcp", la, ra)
	vnet.Fab.DriverMode = false
	return c, err
}

func sortedKeys[V any](m map[string]V) string {
	var k []string
	for x := range m {
		k = append(k, x)
	}
	sort.Strings(k)
	return strings.Join(k, ",")
}

func bufioReader(b []byte) *bufio.Reader { return bufio.NewReader(bytes.NewReader(b)) }

func os_Getenv(k string) string { return os.Getenv(k) }

// guard runs code of the program that the driver calls directly and converts a panic into a
// description (in production such a panic would kill the calling goroutine's process).
func guard(f func()) (crash string) {
	defer func() {
		if r := recover(); r != nil {
			if d, ok := r.(vrt.DeadlockError); ok {
				crash = "deadlock: " + strings.Join(d.Blocked, ",")
				return
			}
			buf := make([]byte, 4096)
			buf = buf[:runtime.Stack(buf, false)]
			crash = fmt.Sprintf("panic: %v\n%s", r, buf)
		}
	}()
	f()
	return ""
}
