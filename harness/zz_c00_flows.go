//go:build verif && (c00 || all)

package main

import "encoding/json"

// F00: development aid - all flows with all oracles on the unchanged tree.
func init() {
	all := []flowOracle{flowTransparent, flowExactlyOnce(true), flowExactlyOnce(false), flowPinned, flowRotation, flowViaRR, flowStamped, flowResponseVia}
	addCheck(&Check{ID: "F00", Level: "exploration", Rule: "all call flows, all oracles (development aid)",
		Run: func(c *Ctx) { RunFlows(c, all...); RunFlowsConcurrent(c, all...) },
		Replay: func(c *Ctx, raw json.RawMessage) string {
			cl, _ := ReplayFlow(raw, all...)
			return cl
		}})
}
