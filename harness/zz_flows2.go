//go:build verif

package main

// Two call flows at once through ONE proxy, under schedule exploration (DESIGN.md §2.4 "concurrent
// flow pass"). The flow pass of zz_flows.go hands the proxy one message at a time and waits for
// quiescence; a deployment does not. Here two callers - one over UDP, one over a TCP connection -
// run one flow each; in every round the next message of BOTH flows is handed to the network before
// the proxy runs, so the UDP receive / parse goroutines, the connection's receive goroutine and the
// message loop are all busy at once, and the explorer enumerates their interleavings (every
// execution with at most `bound` deviations from the default schedule). What the proxy emits is
// attributed to a flow by its Call-ID; each flow's record is then judged by the same oracles as in
// the sequential pass (a correct proxy treats each message as if it were alone - the statements
// are per message), except the rotation window, which is a statement about consecutive dispatches
// and is therefore not applied when two flows share the rotation.

import (
	"bytes"
	"encoding/json"
	"fmt"
	"strings"

	"github.com/ochinchina/sipproxy/vrt"
	"github.com/ochinchina/sipproxy/vrt/vnet"
)

type dualReq struct {
	f               *flowRun
	step, from, src string
	m               *WMsg
	expect          string
	reply           chan *flowEv
}

type dualCoord struct {
	w    *RelayWorld
	next map[*flowRun]chan *dualReq
}

// step is called on the flow's own (plain, unmanaged) goroutine: it parks the flow until the
// coordinator has injected the message together with the other flow's and the world is quiescent.
func (co *dualCoord) step(f *flowRun, step, from, src string, m *WMsg, expect string) *flowEv {
	f.inj++
	r := &dualReq{f: f, step: step, from: from, src: src, m: m, expect: expect, reply: make(chan *flowEv)}
	co.next[f] <- r
	return <-r.reply
}

const flowCaller2 = "127.0.0.8:5060"

// dualCase identifies one execution: the two flows, the configuration and the schedule.
type dualCase struct {
	A       string `json:"dual_a"`
	B       string `json:"dual_b"`
	Cfg     int    `json:"cfg"`
	Second  bool   `json:"second_entry"` // flow b enters through a second listens entry of the service (own loop, own backends)
	Lazy    bool   `json:"lazy_connect"` // the TCP caller connects when it sends its first message, not before
	Choices []int  `json:"choices"`
}

type dualResult struct {
	trace []vrt.Point
	vs    []flowViolation
}

// runDual runs flow a (caller 127.0.0.9, transport as configured) and flow b (caller 127.0.0.8,
// the OTHER transport) concurrently through one proxy under the given choice prefix.
func runDual(a, b string, ci int, second, lazy bool, prefix []int, oracles ...flowOracle) dualResult {
	cfg := flowCfgs()[ci]
	cfg.second = second
	var fa, fb flowFn
	for _, fl := range flowList {
		if fl.Name == a {
			fa = fl.Fn
		}
		if fl.Name == b {
			fb = fl.Fn
		}
	}
	cfg.lazy = lazy
	f1 := startFlow(cfg, a)
	defer f1.close()
	cfg2 := cfg
	cfg2.CallerTCP = !cfg.CallerTCP
	f2 := &flowRun{w: f1.w, cfg: cfg2, flow: b + "~2", caller: flowCaller2, brPfx: "g2l", lstIP: f1.lstIP, backs: f1.backs}
	if second {
		f2.lstIP, f2.backs = "127.0.0.2", flowBackends2
	}
	if cfg2.CallerTCP && !lazy {
		f2.conn = f1.w.Client("caller2", "127.0.0.8", f2.lstTCP())
	}
	co := &dualCoord{w: f1.w, next: map[*flowRun]chan *dualReq{f1: make(chan *dualReq), f2: make(chan *dualReq)}}
	f1.co, f2.co = co, co
	start := func(f *flowRun, fn flowFn, k int) {
		go func() {
			defer close(co.next[f])
			defer func() {
				if r := recover(); r != nil && f.health == "" {
					f.health = fmt.Sprintf("harness or oracle panic in flow %s: %v", f.flow, r)
				}
			}()
			fn(f, k)
		}()
	}
	start(f1, fa, 1)
	start(f2, fb, 201)
	w := f1.w
	w.S.W.SetExplore(vrt.KSched|vrt.KSelect, prefix)
	live := []*flowRun{f1, f2}
	for len(live) > 0 {
		var pend []*dualReq
		var still []*flowRun
		for _, f := range live {
			if r, ok := <-co.next[f]; ok {
				pend = append(pend, r)
				still = append(still, f)
			}
		}
		live = still
		if len(pend) == 0 {
			break
		}
		w.Observe()
		if cr := guard(func() {
			for _, r := range pend {
				data := r.m.Render()
				switch {
				case r.from == "caller" && r.f.cfg.CallerTCP:
					if r.f.conn == nil {
						// lazy connect: the connection is opened and written to before the proxy has run
						cn, err := w.S.TCPDial(r.f.callerIP()+":0", r.f.lstTCP())
						if err != nil {
							panic("harness: dial: " + err.Error())
						}
						r.f.conn = cn
					}
					r.f.conn.Write(data)
				default:
					p, ok := w.udp[r.src]
					if !ok {
						p = w.S.UDPPeer(r.src)
						w.udp[r.src] = p
					}
					p.Send(r.f.lst(), data)
				}
			}
			w.S.Run()
		}); cr != "" && f1.health == "" {
			f1.health = cr
		}
		obs := w.Observe()
		vd := w.S.Verdict()
		for _, r := range pend {
			e := &flowEv{Flow: r.f.flow, Step: r.step, From: r.from, Src: r.src, Sent: r.m, Expect: r.expect}
			cidS, _ := r.m.Get("call-id")
			cid := []byte(cidS)
			for _, p := range obs.Pkts {
				if len(cid) > 0 && bytes.Contains(p.Data, cid) {
					e.Pkts = append(e.Pkts, p)
				}
			}
			// a connection attempt carries no bytes: it is charged to every message of the round
			e.Dials = obs.Dials
			r.f.evs = append(r.f.evs, e)
			if vd != "" && r.f.health == "" {
				r.f.health = fmt.Sprintf("after step %s: %s\n%s", r.step, vd, w.S.CrashDetail())
			}
		}
		// packets that belong to neither message of the round
		for _, p := range obs.Pkts {
			mine := false
			for _, r := range pend {
				if cid, _ := r.m.Get("call-id"); cid != "" && bytes.Contains(p.Data, []byte(cid)) {
					mine = true
				}
			}
			if !mine && f1.health == "" {
				f1.health = fmt.Sprintf("a packet that carries the Call-ID of neither message in flight was emitted to %s: %q", p.To, short(p.Data))
			}
		}
		for _, r := range pend {
			r.reply <- r.f.evs[len(r.f.evs)-1]
		}
	}
	res := dualResult{trace: w.S.W.TraceCopy()}
	seen := map[string]bool{}
	for _, f := range []*flowRun{f1, f2} {
		vs := flowHealth(f)
		for _, o := range oracles {
			vs = append(vs, o(f)...)
		}
		for _, v := range vs {
			if !seen[v.Clause] {
				seen[v.Clause] = true
				v.Detail = fmt.Sprintf("[flows %s (caller %s) and %s (caller %s, other transport, second listens entry: %v, TCP caller connects with its first message: %v) run at once through one proxy, schedule %v] ", a, flowCaller, b, flowCaller2, second, lazy, prefix) + v.Detail
				res.vs = append(res.vs, v)
			}
		}
	}
	return res
}

// dualPairs: the pairs of flows run at once. quick: every flow next to the basic call and next
// to itself; thorough: every ordered pair.
func dualPairs(thorough bool) [][2]string {
	var out [][2]string
	for _, a := range flowList {
		for _, b := range flowList {
			if thorough || b.Name == "basic" || a.Name == b.Name {
				out = append(out, [2]string{a.Name, b.Name})
			}
		}
	}
	return out
}

// RunFlowsConcurrent: for every pair and the two default configurations (first caller over UDP /
// over TCP), every schedule with at most `bound` deviations.
func RunFlowsConcurrent(c *Ctx, oracles ...flowOracle) { runFlowsConcurrent(c, false, oracles...) }

// RunFlowsConcurrentRace: the same executions in the -race build, each followed by a look at the
// race detector's log (C09).
func RunFlowsConcurrentRace(c *Ctx, oracles ...flowOracle) { runFlowsConcurrent(c, true, oracles...) }

func runFlowsConcurrent(c *Ctx, race bool, oracles ...flowOracle) {
	var keep []flowOracle
	for _, o := range oracles {
		keep = append(keep, o)
	}
	bound := 1
	var idx int64
	for _, pr := range dualPairs(c.Thorough()) {
		for _, cc := range []struct {
			ci     int
			second bool
			lazy   bool
		}{{0, false, false}, {len(flowCfgs()) / 2, false, false}, {0, true, false}, {len(flowCfgs()) / 2, true, false}, {0, false, true}, {len(flowCfgs()) / 2, false, true}} {
			ci, second, lazy := cc.ci, cc.second, cc.lazy
			if race && !c.Thorough() && (pr[1] != "basic" || (!second && !lazy)) {
				// quick race tier: every flow next to the basic call, through a second listens entry and with
				// a lazily opened connection (the variants in which two loops / accept and receive overlap)
				continue
			}
			idx++
			if !c.Mine(idx+5000) || c.Expired() {
				continue
			}
			sub := *c
			sub.Worker, sub.NWorkers = 0, 1 // the whole schedule tree of a pair belongs to this worker
			n, done := ExploreChoices(&sub, bound, func(prefix []int) []vrt.Point {
				r := runDual(pr[0], pr[1], ci, second, lazy, prefix, keep...)
				for _, v := range r.vs {
					c.Violate("flow|"+v.Clause+"|concurrent", "flow-"+v.Clause, v.Detail, dualCase{A: pr[0], B: pr[1], Cfg: ci, Second: second, Lazy: lazy, Choices: prefix})
				}
				c.Res.Evaluations++
				c.Res.Executions++
				c.Res.Nontrivial++
				c.Res.Transitions += int64(len(r.trace))
				if race {
					c.RaceCheck(dualCase{A: pr[0], B: pr[1], Cfg: ci, Second: second, Lazy: lazy, Choices: prefix})
				}
				return r.trace
			})
			c.Res.States += n
			c.Count("concurrent_flow_pairs_explored", 1)
			c.Count("concurrent_flow_schedules", n)
			if !done {
				c.Cap("concurrent flow pass stopped by the deadline")
			}
		}
	}
}

func replayDual(raw []byte, oracles ...flowOracle) (string, bool) {
	var dc dualCase
	if json.Unmarshal(raw, &dc) != nil || dc.A == "" {
		return "", false
	}
	r := runDual(dc.A, dc.B, dc.Cfg, dc.Second, dc.Lazy, dc.Choices, oracles...)
	if len(r.vs) == 0 {
		return "", true
	}
	return "flow-" + r.vs[0].Clause, true
}

var _ = strings.Join
var _ vnet.Packet
