//go:build verif && (c05 || all)

package main

import (
	"fmt"
	"sort"
	"strings"

	"github.com/ochinchina/sipproxy/vrt"
)

// C05 race tier: dispatches racing with membership changes made from other threads.
// Three threads - dispatcher (requests through the proxy), remover, adder (or two removers) - on 2-3 backends, all
// interleavings within the deviation bound, under the race detector.

func c05SchedExec(scenario string, prefix []int) SchedResult {
	nInit := 2
	if scenario == "three-backends" || scenario == "two-removers" {
		nInit = 3
	}
	removed, added := []int{0}, []int{4}
	if scenario == "two-removers" {
		// two membership changes from different threads overlap (two host names re-resolved in one cycle)
		removed, added = []int{0, 1}, nil
	}
	w := c05Start("udp", 5)
	defer w.s.Close()
	for i := 1; i < nInit; i++ {
		w.add(i)
	}
	w.s.Emitted()
	rr := w.rr
	w.s.W.SetExplore(vrt.KSched|vrt.KSelect, prefix)
	// dispatcher: two requests, injected at once
	for k := 0; k < 2; k++ {
		w.seq++
		m := MsgSpec{Method: "OPTIONS", RURI: "sip:svc.example.com", Vias: []string{fmt.Sprintf("SIP/2.0/UDP 127.0.0.9:5060;branch=z9hG4bKr%d", w.seq)},
			From: "<sip:a@a.example.net>;tag=1", To: "<sip:svc.example.com>", CallID: fmt.Sprintf("race%d", k), CSeq: "1 OPTIONS"}.Build()
		w.ua.Send("127.0.0.1:5060", m.Render())
	}
	// remover and adder: other threads calling the real membership API
	for _, r := range removed {
		a := c05Addr(r)
		vrt.Go(func() { rr.RemoveBackend(a) })
	}
	for _, x := range added {
		a := c05Addr(x)
		vrt.Go(func() {
			b, err := NewUDPBackend(":0", a)
			if err == nil {
				rr.AddBackend(b)
			}
		})
	}
	w.s.Run()
	res := SchedResult{Trace: w.s.W.TraceCopy()}
	if vd := w.s.Verdict(); vd != "" {
		res.Clause, res.Detail = "health", vd+"\n"+w.s.CrashDetail()
		return res
	}
	ever := map[string]bool{}
	for _, x := range added {
		ever[c05Addr(x)] = true
	}
	for i := 0; i < nInit; i++ {
		ever[c05Addr(i)] = true
	}
	per := map[string][]string{}
	for _, p := range w.s.Emitted() {
		for k := 0; k < 2; k++ {
			if strings.Contains(string(p.Data), fmt.Sprintf("Call-ID: race%d\r\n", k)) {
				per[fmt.Sprint(k)] = append(per[fmt.Sprint(k)], p.To)
			}
		}
	}
	var oc []string
	for k := 0; k < 2; k++ {
		to := per[fmt.Sprint(k)]
		if len(to) > 1 {
			res.Clause, res.Detail = "dispatch-to-several-backends", fmt.Sprintf("dispatch %d went to %v", k, to)
			return res
		}
		if len(to) == 1 && !ever[to[0]] {
			res.Clause, res.Detail = "dispatch-to-unregistered-backend", fmt.Sprintf("dispatch %d went to %s, which was never registered", k, to[0])
			return res
		}
		// none: allowed only because a removal overlaps (the chosen backend may have been the removed one)
		oc = append(oc, fmt.Sprint(to))
	}
	// afterwards (stable period): the rotation serves exactly the final membership
	final := map[string]bool{}
	for _, x := range added {
		final[c05Addr(x)] = true
	}
	for i := 0; i < nInit; i++ {
		final[c05Addr(i)] = true
	}
	for _, r := range removed {
		delete(final, c05Addr(r))
	}
	k := len(final)
	var seq []string
	for i := 0; i < 2*k; i++ {
		to := w.dispatch()
		if len(to) != 1 || !final[to[0]] {
			res.Clause, res.Detail = "final-membership", fmt.Sprintf("after the concurrent changes (removed %v, added %v of the address universe) a dispatch went to %v; registered now: %v", removed, added, to, keysOf(final))
			return res
		}
		seq = append(seq, to[0])
	}
	for i := 0; i+k <= len(seq); i++ {
		seen := map[string]bool{}
		for _, a := range seq[i : i+k] {
			seen[a] = true
		}
		if len(seen) != k {
			res.Clause, res.Detail = "rotation-window", fmt.Sprintf("after the concurrent changes the probe sequence %v misses a backend in a window of %d", seq, k)
			return res
		}
	}
	sort.Strings(oc)
	res.Outcome = strings.Join(oc, " ")
	return res
}

func c05RaceRun(c *Ctx) {
	b := 2
	if c.Thorough() {
		b = 3
	}
	ExploreSchedules(c, "two-backends", b, func(p []int) SchedResult { return c05SchedExec("two-backends", p) })
	ExploreSchedules(c, "three-backends", 2, func(p []int) SchedResult { return c05SchedExec("three-backends", p) })
	ExploreSchedules(c, "two-removers", 2, func(p []int) SchedResult { return c05SchedExec("two-removers", p) })
}

func init() {
	raceRuns["C05"] = c05RaceRun
	schedReplays["C05"] = func(cs SchedCase) string { return c05SchedExec(cs.Scenario, cs.Choices).Clause }
}
